"""C12 — driving force, phase boundary and critical radius agree with each other.

regenerate(): concolic trace of the real kawin code -> lean/KawinV/Gen/C12GT.lean
    PrecipitateParameters.computeGibbsThomsonContribution   (constant aspect ratio, constant strain energy)
    NucleationRate.volumetricDrivingForce / nucleationBarrier (bulk branch: proposal, clamp guards, Gcrit)
    MultiTherm._growthRateOutputFromCurvature                (growth = mc/R (dG - gExtra))
    PrecipitateModel._singleGrowthMulti                      (what the KWN model hands to the growth law)
    PrecipitateModel._singleGrowthBinary                     (supersaturation growth law)
corr(): translator validation of every generated definition (driver on Float vs the Python functions called
    normally on real parameter objects), hand model KawinV.IC (Model/ICScan.lean) vs the real
    BinaryThermodynamics._interfacialCompositionFromEq (real Al-Zr equilibrium records captured at run time, and
    synthetic record patterns fed through the real loop) and vs the real _createLookupBinary (RdrivingForceIndex,
    prefix fill), the direct oracle of the algebraic clauses on the real functions, and the MONITORED thermodynamic
    clauses on grids over T, x, g (Al-Zr; Cu-Ti in thorough) and at observer callbacks of real Al-Zr / Ni-Cr-Al runs.
"""
import math, os, sys, types, warnings
import numpy as np
import vlib
from vlib import Result, enc_list, f2b, Toks, close

PROP = 'C12'
META = {
    'level_text': 'Lean 4 theorems about definitions REGENERATED from the kawin sources on every run (concolic trace of computeGibbsThomsonContribution, volumetricDrivingForce, nucleationBarrier, _growthRateOutputFromCurvature, PrecipitateModel._singleGrowthMulti and _singleGrowthBinary) and about a hand model (Model/ICScan.lean) of the sentinel loop of _interfacialCompositionFromEq, of RdrivingForceIndex / the prefix fill of _createLookupBinary and of the Rmin clamp: the Gibbs-Thomson energy at the unclamped critical radius equals the chemical driving force (dG - gExtra(Rcrit) = 0, with strain energy and shape factor); the multicomponent growth rate as the KWN model evaluates it is positive above, negative below and zero at Rcrit for mc > 0, kinetic factor > 0 (after the repair of the strain-energy double count, see known_findings); clamp made explicit (classes between 2f*gamma/dGvol and Rmin grow although they are below the recorded Rcrit, with witness); binary growth sign = sign(x - x_alpha_i); binary conditional: IF DF(x_alpha(g)) = g (+ offset) and DF is monotone (or x_alpha strictly increasing and x in its range) THEN classes above Rcrit grow and below shrink; sentinel scan: entry g = first two-phase record at GE index g, -1 iff none (records ordered by GE index; necessity of the ordering shown by witness), monotone instability pattern preserved, RdrivingForceIndex = last index of the unstable prefix (and = 0 for the empty and for the FULL prefix, the latter making the all-unstable branch unreachable - stated as theorem). Generated definitions are validated numerically against the Python functions on every run; the hand model is tied by differential correspondence on real pycalphad equilibrium records and synthetic patterns run through the real loop.',
    'level_note': 'MONITORED ONLY (oracle on the real implementation, no theorem - these are thermodynamic facts about pycalphad + the TDB files): the hypotheses of the binary conditional themselves, i.e. x_alpha(g) is the composition at which the driving force equals g within the documented 1 J/mol offset, the driving force changes sign at the planar solvus and increases with supersaturation, x_alpha(g) rises monotonically with g, the sentinel is monotone in g, the four driving-force methods agree in sign away from the solvus and tangent/approximate/sampling agree in value to the offset for stoichiometric Al3Zr (the curvature method is a first-order expansion: value agreement only near the solvus, recorded finding), and "classes above pData.Rcrit grow, below shrink" at observer callbacks of real Al-Zr and Ni-Cr-Al runs. The proved part is algebra about the traced formulas plus the scan logic; the thermodynamic core of the property is not provable here and is only sampled. Trusted: Lean kernel + Mathlib (propext, Classical.choice, Quot.sound); the tracer tools/py2lean/sym.py (output re-validated numerically on every run); exact field arithmetic instead of IEEE doubles; pycalphad Workspace / enumerate_composition_sets is an input of the scan model (its records are captured, not modelled).',
    'technique': 'Lean 4 proof over ordered fields about source-regenerated definitions + translator validation + model/implementation differential correspondence on captured equilibrium records + direct oracle on thermodynamic grids and run observers',
    'design_ref': 'DESIGN.md section 6, C12',
}
LEAN_MODULES = ['KawinV.Props.C12']
MONITORED = [
    'x_alpha(g) is the composition at which the driving force equals g within the 1 J/mol offset (tangent, sampling, approximate) - grid over T, g',
    'driving force changes sign at the planar solvus x_alpha(0) and increases with supersaturation - grid over T, x',
    'x_alpha(g) rises strictly with g; the sentinel -1 is monotone in g (once unstable, unstable for every larger g) - grid over T, g',
    'four driving-force methods agree in sign away from the solvus; tangent/approximate/sampling agree in value to the offset (stoichiometric Al3Zr); curvature agrees in value near the solvus only',
    'at observer callbacks of real Al-Zr and Ni-Cr-Al runs: size classes larger than pData.Rcrit grow, smaller ones shrink (class containing Rcrit and clamped states skipped)',
]
ASSUMPTIONS = [
    'valid parameters: gamma > 0, Vm > 0, thermodynamic shape factor f > 0, kinetic factor > 0, mc > 0, D > 0, effective diffusion distance > 0, R > 0',
    'constant aspect ratio and constant strain energy (the thermodynamic factor and the strain energy do not depend on R); checked on the real shape/strain objects on every run',
    'unclamped critical radius (2 f gamma / dGvol >= Rmin) for the sign statements; the clamped case is stated separately',
    'equilibrium records arrive ordered by GE index (checked on every captured enumeration); compositions of real records are never -1',
    'exact-field theorems vs IEEE doubles: generated definitions compared with rtol 1e-9; NaN / inf outside the statement',
]
TRUSTED = [
    'tools/py2lean/sym.py concolic tracer (output validated numerically against the Python functions on every run)',
    'pycalphad Workspace/enumerate_composition_sets, the solver and the TDB databases (monitored, not modelled)',
]

GEN_FILE = os.path.join(vlib.LEAN, 'KawinV', 'Gen', 'C12GT.lean')


# =====================================================================================================
# helpers
# =====================================================================================================
def _sym():
    p = os.path.join(vlib.VERIF, 'tools', 'py2lean')
    if p not in sys.path:
        sys.path.insert(0, p)
    import sym
    return sym


def _kawin():
    vlib.use_repo()
    with warnings.catch_warnings():
        warnings.simplefilter('ignore')
        from kawin.precipitation import NucleationRate as NR
        from kawin.precipitation import PrecipitationParameters as PP
        from kawin.precipitation import KWNEuler as KE
        from kawin.precipitation.parameters import ShapeFactors as SF
        from kawin.thermo import MultiTherm as MT
    return NR, PP, KE, SF, MT


def _vars_of(node, acc=None, seen=None):
    acc = set() if acc is None else acc
    seen = set() if seen is None else seen
    if node.id in seen:
        return acc
    seen.add(node.id)
    if node.op == 'var':
        acc.add(node.args[0])
    for a in node.args:
        if hasattr(a, 'op'):
            _vars_of(a, acc, seen)
    return acc


# =====================================================================================================
# regeneration
# =====================================================================================================
def regenerate(ctx):
    sym = _sym()
    from sym import Sym, Node, emit_def
    NR, PP, KE, SF, MT = _kawin()
    NS = types.SimpleNamespace

    class NPProxy:
        """stands in for the module-level `np` of NucleationRate while tracing: np.zeros gives an object array so
        that `Rcrit[indices] = ...` keeps the traced expressions; np.pi stays an atom"""
        def __init__(self):
            self.pi = Sym.atom('pi', math.pi)

        def __getattr__(self, n):
            return getattr(np, n)

        def zeros(self, shape, *a, **k):
            arr = np.empty(shape, dtype=object)
            arr[...] = Sym.const(0)
            return arr

    def V(name, v):
        return Sym.var(name, v)

    def arr(name, v):
        return np.array([Sym.var(name, v)], dtype=object)

    def item(x):
        x = np.asarray(x, dtype=object)
        if x.size != 1:
            raise RuntimeError('trace produced %d values, expected 1' % x.size)
        return Sym.const(x.reshape(-1)[0])

    def cut(node, mapping):
        memo = {}

        def go(nd):
            if nd.id in mapping:
                return Node('var', (mapping[nd.id],))
            if nd.id in memo:
                return memo[nd.id]
            r = Node(nd.op, tuple(go(a) if isinstance(a, Node) else a for a in nd.args))
            memo[nd.id] = r
            return r
        return go(node)

    out = []

    def emit(name, params, s, doc):
        used = _vars_of(s.node)
        if used != set(params):
            raise RuntimeError('trace of %s: parameters lost %s / unexpected %s' % (name, sorted(set(params) - used), sorted(used - set(params))))
        out.append(emit_def(name, params, s, doc=doc)[0])

    def path():
        p = [(op, r) for (op, _, _, r) in sym.PATH]
        del sym.PATH[:]
        return p

    # ---- a REAL PrecipitateParameters whose shape description and strain energy answer with symbols.
    # `ars` records the aspect ratios the code asks the factors for (constant aspect ratio => all equal).
    ars = []

    class SymDescription(SF.NeedleDescription):
        def thermoFactor(self, ar):
            ars.append(('thermo', float(np.asarray(ar, dtype=float).reshape(-1)[0])))
            return V('f', 1.3)

        def kineticFactor(self, ar):
            ars.append(('kinetic', float(np.asarray(ar, dtype=float).reshape(-1)[0])))
            return V('kf', 1.1)

        def normalRadii(self, ar):
            ars.append(('radii', float(np.asarray(ar, dtype=float).reshape(-1)[0])))
            return ('normalRadii', float(np.asarray(ar, dtype=float).reshape(-1)[0]))

    def make_prec(Rmin=3e-10):
        p = PP.PrecipitateParameters('P')
        p.shapeFactor.setNeedleShape(2.5)
        p.shapeFactor._description = SymDescription()
        radii_seen = []

        def compute(r):
            radii_seen.append(r)
            return V('E', 2e7)
        p.strainEnergy.compute = compute
        p._radii_seen = radii_seen
        p.gamma = V('gamma', 0.2)
        p.volume.Vm = V('Vm', 1e-5)
        p.Rmin = Rmin
        return p

    saved_np = NR.np
    try:
        NR.np = NPProxy()
        del sym.PATH[:]
        # ------------------------------------------------------------ Gibbs-Thomson contribution
        out.append('/-! ### PrecipitateParameters.computeGibbsThomsonContribution (PrecipitationParameters.py)\n'
                   'f = shapeFactor.thermoFactor(R), E = strainEnergy.compute(shapeFactor.normalRadii(R)); with a constant aspect\n'
                   'ratio and a constant strain energy neither depends on R (checked on the real objects by tools/corr/C12.py) -/\n\n')
        p = make_prec()
        g = item(p.computeGibbsThomsonContribution(arr('R', 3e-9)))
        emit('gExtra', ['Vm', 'E', 'f', 'gamma', 'R'], g, 'computeGibbsThomsonContribution(R)')
        ar_gt = sorted(set(a for _, a in ars)); del ars[:]
        # ------------------------------------------------------------ volumetric driving force, barrier
        out.append('/-! ### NucleationRate.volumetricDrivingForce / nucleationBarrier, bulk and dislocation sites -/\n\n')
        therm = NS(numElements=2, getDrivingForce=lambda x, T, precPhase=None, removeCache=False: (arr('dG', 900.0), np.array([0.25])))
        aspect = p.shapeFactor.aspectRatio(0.0)
        chem, vol, _ = NR.volumetricDrivingForce(therm, 0.004, 700.0, p, aspect)
        if item(chem).node is not V('dG', 900.0).node:
            raise RuntimeError('volumetricDrivingForce no longer returns the chemical driving force unchanged')
        emit('volDG', ['dG', 'Vm', 'E'], item(vol), 'volumetricDrivingForce: volumetric driving force from the chemical one')
        ar_vol = sorted(set(a for _, a in ars)); del ars[:]
        path()
        got = {}
        for tag, Rmin in (('A', 3e-10), ('B', V('Rmin', 1.0))):
            pr = make_prec(Rmin)
            Rc, Gc = NR.nucleationBarrier(arr('dGv', 1e8), pr, aspect)
            Rc, Gc = item(Rc), item(Gc)
            pc = path()
            want = [('gt', True), ('ge', tag == 'A')]
            if pc != want:
                raise RuntimeError('nucleationBarrier (%s): guards changed: %s (expected dGv > 0, then amax(proposal, Rmin))' % (tag, pc))
            got[tag] = (Rc, Gc)
        ar_nb = sorted(set(a for _, a in ars)); del ars[:]
        RcA, GcA = got['A']
        RcB, GcB = got['B']
        if _vars_of(RcB.node) != {'Rmin'} or RcB.val != 1.0:
            raise RuntimeError('nucleationBarrier: the clamped radius is not Rmin')
        gA = cut(GcA.node, {RcA.node.id: 'Rc'})
        gB = cut(GcB.node, {RcB.node.id: 'Rc'})
        if gA is not gB:
            raise RuntimeError('nucleationBarrier: Gcrit is not the same function of the clamped Rcrit on both paths')
        emit('rcritProposal', ['f', 'gamma', 'dGv'], RcA,
             'nucleationBarrier, bulk/dislocation branch: RcritProposal (guards traced: dGv > 0; Rcrit = amax(proposal, Rmin))')
        emit('gcrit', ['gamma', 'Rc'], Sym(gA, GcA.val), 'nucleationBarrier, bulk/dislocation branch: Gcrit as a function of the clamped Rcrit')
        if not (ar_gt == ar_vol == ar_nb and len(ar_gt) == 1):
            raise RuntimeError('constant aspect ratio: the factors were asked at different aspect ratios: %s %s %s' % (ar_gt, ar_vol, ar_nb))
    finally:
        NR.np = saved_np
        del sym.PATH[:]

    # ---------------------------------------------------------------- multicomponent growth law
    out.append('/-! ### MultiTherm._growthRateOutputFromCurvature: growth_rate (Philippe-Voorhees eq. 28) -/\n\n')
    nel = 2
    curv = MT.CurvatureOutput(dc=np.array([0.1, 0.2]), mc=V('mc', 1e-20), gba=np.eye(nel), beta=1.0,
                              c_eq_alpha=np.array([0.05, 0.06]), c_eq_beta=np.array([0.2, 0.1]))
    # the composition outputs are clipped float arrays; only the growth rate is traced
    class _Clip:
        def __getattr__(self, n):
            return getattr(np, n)

        def clip(self, a, lo, hi, **k):
            return a
    saved_mt = MT.np
    try:
        MT.np = _Clip()
        go = MT._growthRateOutputFromCurvature(np.array([0.08, 0.1]), V('dG', 900.0), arr('R', 3e-9), arr('gExtra', 400.0), curv)
    finally:
        MT.np = saved_mt
    emit('growthMulti', ['mc', 'R', 'dG', 'gExtra'], item(go.growth_rate), '_growthRateOutputFromCurvature(...).growth_rate')
    del sym.PATH[:]

    # ---------------------------------------------------------------- KWN glue: what _singleGrowthMulti hands to the growth law
    out.append('/-! ### PrecipitateModel._singleGrowthMulti (KWNEuler.py): the growth rate the KWN model uses, as a function of the\n'
               'recorded VOLUMETRIC driving force dGv = Y.drivingForce (= volDG), through the real particleGibbs and the real\n'
               '_growthRateOutputFromCurvature; kf = shapeFactor.kineticFactor(R) -/\n\n')
    with warnings.catch_warnings():
        warnings.simplefilter('ignore')
        m = KE.PrecipitateModel(phases=['P'], elements=['A', 'B'])
    m.precipitateParameters[0] = make_prec()
    m.PBM[0].PSDbounds = arr('R', 3e-9)
    m.PBM[0].bins = 0
    m.removeCache = False
    m._precBetaTemp = [None]
    m.PSDXalpha = [None]
    m.PSDXbeta = [None]
    calls = []

    def ggic(x, T, dG, R, gExtra, precPhase=None, removeCache=False, searchDir=None):
        calls.append((dG, R, gExtra))
        saved = MT.np
        try:
            MT.np = _Clip()
            r = MT._growthRateOutputFromCurvature(np.array([0.08, 0.1]), dG, R, gExtra, curv)
        finally:
            MT.np = saved
        return r.growth_rate, np.zeros((1, 2)), np.zeros((1, 2)), curv.c_eq_alpha, curv.c_eq_beta
    m.therm = NS(getGrowthAndInterfacialComposition=ggic)
    Y = NS(composition=[np.array([0.08, 0.1])], drivingForce=[np.array([V('dGv', 9e7)], dtype=object)],
           temperature=[1073.0], precipitateDensity=[np.array([1.0])], Rcrit=np.array([[0.0]]))
    del ars[:]
    gr, _, _ = m._singleGrowthMulti(0, Y)
    pc = path()
    if pc != [('lt', False)]:
        raise RuntimeError('_singleGrowthMulti: guards changed: %s (expected only dGs[p] < 0)' % pc)
    if len(calls) != 1:
        raise RuntimeError('_singleGrowthMulti: growth law called %d times' % len(calls))
    ar_kwn = sorted(set(a for _, a in ars)); del ars[:]
    if ar_kwn != ar_gt:
        raise RuntimeError('_singleGrowthMulti: factors asked at aspect ratios %s, nucleation at %s' % (ar_kwn, ar_gt))
    emit('growthMultiKWN', ['kf', 'mc', 'R', 'dGv', 'Vm', 'E', 'f', 'gamma'], item(gr),
         'PrecipitateModel._singleGrowthMulti: growth rate of a size class of radius R')

    # ---------------------------------------------------------------- binary growth law
    out.append('/-! ### PrecipitateModel._singleGrowthBinary (KWNEuler.py): supersaturation growth law; xa, xb = interfacial\n'
               'compositions of the class (lookup table), Va, Vb = molar volumes of matrix and precipitate, D = interdiffusivity,\n'
               'eff = effectiveDiffusion(superSaturation) -/\n\n')
    with warnings.catch_warnings():
        warnings.simplefilter('ignore')
        mb = KE.PrecipitateModel(phases=['P'], elements=['B'])
    mb.precipitateParameters[0] = make_prec()
    mb.precipitateParameters[0].volume.Vm = V('Vb', 1.1e-5)
    mb.matrixParameters.volume.Vm = V('Va', 1e-5)
    mb.PBM[0].PSDbounds = np.array([V('R0', 1e-9), V('R', 3e-9)], dtype=object)
    mb.PBM[0].bins = 1
    mb.removeCache = False
    mb.RdrivingForceIndex = np.zeros(1, dtype=np.int32)
    mb.PSDXalpha = [np.array([[V('xa0', 0.003)], [V('xa', 0.002)]], dtype=object)]
    mb.PSDXbeta = [np.array([[V('xb0', 0.25)], [V('xb', 0.25)]], dtype=object)]
    mb.therm = NS(getInterdiffusivity=lambda x, T, removeCache=False: V('D', 1e-19))
    seenS = []

    def effdiff(S):
        seenS.append(S)
        return np.array([V('eff0', 0.9), V('eff', 0.8)], dtype=object)
    mb.matrixParameters.effectiveDiffusion = effdiff
    Yb = NS(composition=[np.array([V('x', 0.004)], dtype=object)], temperature=[700.0])
    del sym.PATH[:]
    grb = mb._singleGrowthBinary(0, Yb)
    path()
    if len(seenS) != 1 or len(grb) != 2:
        raise RuntimeError('_singleGrowthBinary: unexpected shape of the trace')
    emit('superSat', ['x', 'xa', 'xb', 'Va', 'Vb'], Sym.const(seenS[0][1]), '_singleGrowthBinary: superSaturation of a size class')
    emit('growthBinary', ['kf', 'D', 'eff', 'x', 'xa', 'xb', 'Va', 'Vb', 'R'], Sym.const(grb[1]),
         '_singleGrowthBinary: growth rate of a size class of radius R (stable branch: RdrivingForceIndex + 1 < number of class boundaries)')
    del sym.PATH[:]

    text = sym.HEADER + '\nnamespace KawinV.Gen.C12\n\n' + ''.join(out) + 'end KawinV.Gen.C12\n'
    changed = vlib.write_if_changed(GEN_FILE, text)
    return [os.path.relpath(GEN_FILE, vlib.VERIF)] if changed else []
