"""C04 — diffusion conserves every component and honours boundary conditions.

Correspondence  kawin.diffusion.{Diffusion,SinglePhase,Homogenization,DiffusionParameters} + solver.Iterators
            <-> KawinV.Diffusion (lean/KawinV/Model/Diffusion.lean)
The REAL SinglePhaseModel / HomogenizationModel are driven with duck-typed thermodynamics stubs; every
`_getFluxes` evaluation is logged by wrapping methods at run time (raw fluxes before the boundary conditions, fluxes
after them, dXdt, iterator input/output, postProcess output, setup output) and replayed through the model driver.
The direct oracle evaluates the property on the logged implementation states, independently of the Lean model.

Round 4: (a) described profile / boundary values are also drawn from every regime relative to minComposition (0, below min, min,
inside (min,(n+1)min), the ends of that window, just above it, near 1-min, 1) for minComposition 1e-10..1e-3; oracle at t = 0 on
model.x after setup() and on the first recorded profile (every component, the dependent one included), and the budget over the first
postProcess when the state handed to it was out of bounds.  (b) boundary conditions are entered through HISTORIES of calls of every
public entry point (setBoundaryCondition with constants or strings, setLeft/RightBoundaryCondition, DiffusionModel.setBC, on the object
the model made or on one passed to the constructor; earlier calls overwritten, foreign names, invalid arguments); the stored
dictionaries are compared with the specification after every call and with the Lean model (verb dif.bcops); `entry_cases` runs such
histories alone on a bare DiffusionModel."""
import contextlib, io, math, os, random, traceback, warnings
import numpy as np
import vlib
from vlib import Result, enc_list, enc_ilist, f2b, Toks, close

PROP = 'C04'
META = {
    'level_text': 'Lean 4 theorems, for every mesh size, element count, interior face fluxes (any function of call history and state), step list and boundary-condition mix, about an executable model of getdXdt / applyBoundaryConditionsToFluxes / the Euler and RK4 iterators / postProcess clip / setup / the volume-fixed-frame line: telescoping budget, one-step budget for Euler and RK4 (b-weighted stage boundary fluxes), budget and closed-system constancy over any number of steps and any number of consecutive solve calls (induction), fixed-composition nodes pinned through every stage and step, flux conditions written to the right face per side and element, bounds after postProcess and after setup, setup idempotent (after the repair recorded in known_findings.txt; the unrepaired setup is proved to drift by exactly len(elements)*minComposition per call), volume-fixed fluxes sum to zero; setup keeps every component, the dependent one included, within [min, 1-min] for every described value, element count and minimum composition (setup_ge_min, setup_dependent_bounds; the merged single-np.where form of the shift/clamp pair is proved to end below min on the whole window (min, (n+1)min): shiftClampMerged_below, setupMerged_violates_bounds); the boundary-condition entry points (setBoundaryCondition, setLeft/RightBoundaryCondition, DiffusionModel.setBC, constructor object) as functions into the four dictionaries: each helper writes its own side and key only (setRight_writes_right, setLeft_writes_left, setBC_writes_both; witness setRightSwapped_wrong/_witness), invalid side/type raise and write nothing, last write wins over any history of calls (last_write_left/right), and an entered condition reaches the run on that side (entered_*_comp_pinned, entered_*_flux_face).  The model is tied to the code on every run by replaying logged runs of the real model classes; the property predicate is also evaluated directly on the logged states.',
    'level_note': 'Trusted: Lean kernel + Mathlib (axioms propext/Classical.choice/Quot.sound); the hand model equals the NumPy code only as far as this run compared them. Exact-field arithmetic instead of IEEE doubles (sums compared with rtol 1e-9 of the summed magnitudes plus a few ulp of the mesh sum). Interior fluxes, the time-step choice (getDt) and the profile builders are inputs of the model, not modelled: the budget holds for any of them. The budget after postProcess is claimed only for steps where the clip is inactive (clip-active steps are counted in the histogram; the pre-clip budget is checked on every step). Real thermodynamics (pycalphad) only in the thorough tier.',
    'technique': 'Lean 4 proof over ordered fields + logged-run replay correspondence + direct oracle on the implementation',
    'design_ref': 'DESIGN.md section 6, C04',
}
LEAN_MODULES = ['KawinV.Props.C04']
MONITORED = [
    'profile builders (step, linear, single, bounded, function, data) produce the documented initial profile (independent Python reference; the built profile is an input of the Lean model)',
    'lattice-frame homogenization fluxes recomputed from the logged average mobilities / chemical potentials (independent Python reference) reproduce the implementation volume-frame fluxes',
    'budget after postProcess on steps where the clip is active is not claimed (counted as clip-active-steps)',
    'bounds of the DEPENDENT component after a step (postProcess clips the independent components only): violation on real thermodynamics (thorough tier), observation count on the stub diffusivities, whose fluxes are not consistent as the reference element runs out; at t = 0 it is proved (setup_dependent_bounds) and a hard oracle',
]
ASSUMPTIONS = [
    'finite compositions, fluxes and temperatures (NaN/inf outside the statement)',
    'minComposition <= 1/2; mesh of at least 2 nodes (the constructor rejects 1 node)',
    'exact-field theorems vs IEEE doubles: mesh sums compared with rtol 1e-9 scaled by the summed node changes, plus 64 ulp of the mesh sum',
    'the budget after the clip is claimed for clip-inactive steps only',
]
TRUSTED = ['NumPy slicing/negative-index/np.clip/np.sum semantics as modelled in KawinV.Diffusion (compared on every run)',
           'duck-typed thermodynamics stubs stand in for pycalphad in the quick tier']

EPS = 2.220446049250313e-16


class HarnessError(Exception):
    """a thermodynamics stub of this harness failed (not the code under test)"""


def _arrh(Q, T):
    """bounded Arrhenius factor: temperature schedules may leave the physical range"""
    if not (T == T) or T <= 0:
        return 1.0
    return math.exp(max(-40.0, min(40.0, -Q / R_GAS * (1 / T - 1 / 1200.0))))
R_GAS = 8.314
SUBST = ['FE', 'CR', 'NI', 'AL', 'CO', 'MO', 'W', 'TI']
INTER = ['C', 'N']
INTERSTITIALS = ['C', 'N', 'O', 'H', 'B']


# ============================================================================ case generation
def _val(rng, vmax):
    return round(rng.uniform(0.02, vmax), 6)


LOW_REGIMES = ['zero', 'below-min', 'at-min', 'window-low', 'window-mid', 'window-n', 'window-high', 'at-window-end',
               'just-above-window', 'above-window', 'far-above']
HIGH_REGIMES = ['one', 'half-min-below-one', 'at-max', 'window-below-max', 'below-max']


def regime_value(reg, minC, nAll, rng=None):
    """a described composition in a regime relative to minComposition (nAll = len(allElements))"""
    u = rng.random() if rng is not None else 0.5
    return {'zero': 0.0, 'below-min': (0.1 + 0.8 * u) * minC, 'at-min': minC, 'window-low': (1 + 1e-6 + 0.5 * u) * minC,
            'window-mid': (1.5 + u) * minC, 'window-n': nAll * minC, 'window-high': (nAll + 0.2 + 0.7 * u) * minC,
            'at-window-end': (nAll + 1) * minC, 'just-above-window': (nAll + 1) * minC * (1 + 1e-3 * (0.1 + u)),
            'above-window': (nAll + 1.5 + 3 * u) * minC, 'far-above': (10 + 40 * u) * nAll * minC,
            'one': 1.0, 'half-min-below-one': 1 - 0.5 * minC, 'at-max': 1 - minC, 'window-below-max': 1 - (1 + nAll * u) * minC,
            'below-max': 1 - (nAll + 1 + 3 * u) * minC}[reg]


def classify_value(v, minC, nAll):
    """regime of a described value (for violation keys)"""
    if v == 0: return 'zero'
    if v < minC: return 'below-min'
    if v == minC: return 'at-min'
    if v < (nAll + 1) * minC: return 'in-window(min,(n+1)min)'
    if v == (nAll + 1) * minC: return 'at-window-end'
    if v > 1 - minC: return 'above-1-min'
    if v >= 1 - (nAll + 1) * minC: return 'near-1-min'
    return 'above-window'


def _tval(rng, minC, nAll, vmax, cap=None):
    if rng.random() < 0.75:
        v = regime_value(rng.choice(LOW_REGIMES), minC, nAll, rng)
    else:
        v = _val(rng, vmax)
    return v if cap is None or v <= cap else 0.0


def gen_profile(rng, E, z0, L, kind, minC=1e-8):
    vmax = 0.9 / E
    nAll = E + 1
    prof = []
    if kind == 'extreme':
        zm = z0 + L * rng.uniform(0.3, 0.7)
        for e in range(E):
            if e == 0:
                prof.append([['step', 0.0, 1.0, zm]] if E == 1 else [['step', 1.0, 0.0, zm]])
            elif e == 1:
                prof.append([['step', 0.0, 1.0, zm]])
            else:
                prof.append([['linear', 0.0, 0.0]])
        return prof
    if kind == 'rich-inflow':
        # one element rich everywhere (no node near the minimum composition), the others small but well above the minimum: a strong
        # inflow of the rich element then drives boundary nodes towards and past 1 - minComposition while NO node is below the minimum
        big = rng.randrange(E)
        hi = rng.uniform(0.88, 0.995)
        room = (1.0 - hi) / max(1, E)
        for e in range(E):
            if e == big:
                prof.append([['linear', hi, hi * rng.uniform(0.97, 1.0)]] if rng.random() < 0.5 else [['linear', hi * rng.uniform(0.97, 1.0), hi]])
            else:
                v = room * rng.uniform(0.2, 0.6)
                prof.append([['linear', v, v]])
        return prof
    if kind == 'sum>1':
        for e in range(E):
            prof.append([['linear', 0.5, 1.2]] if E == 1 else [['linear', 0.6, 0.55]])
        return prof
    if kind == 'trace-high':
        # one element close to 1 / 1-min on part of the mesh, the others in the low regimes that still fit under a node sum of 1
        hi = regime_value(rng.choice(HIGH_REGIMES), minC, nAll, rng)
        room = max(0.0, 1.0 - hi) / max(1, E - 1)
        big = rng.randrange(E)
        for e in range(E):
            if e == big:
                lowv = _tval(rng, minC, nAll, 0.3)
                k = rng.choice(['step', 'linear', 'bounded', 'data'])
                if k == 'step':
                    st = [['step', hi, lowv, z0 + L * rng.uniform(0.2, 0.8)]] if rng.random() < 0.5 else [['step', lowv, hi, z0 + L * rng.uniform(0.2, 0.8)]]
                elif k == 'linear':
                    st = [['linear', hi, lowv]] if rng.random() < 0.5 else [['linear', lowv, hi]]
                elif k == 'bounded':
                    a = z0 + L * rng.uniform(0.0, 0.6)
                    st = [['linear', lowv, lowv], ['bounded', hi, a, a + L * rng.uniform(0.1, 0.4)]]
                else:
                    st = [['data', [hi, hi, lowv, lowv], [z0, z0 + 0.3 * L, z0 + 0.6 * L, z0 + L]]]
                prof.append(st)
            else:
                v = _tval(rng, minC, nAll, 0.0, cap=room)
                prof.append([['linear', v if v <= room else 0.0, v if v <= room else 0.0]])
        return prof
    tv = (lambda: _tval(rng, minC, nAll, vmax)) if kind == 'trace' else (lambda: _val(rng, vmax))
    for e in range(E):
        k = rng.choice(['step', 'step', 'linear', 'linear', 'bounded', 'single', 'function', 'data'])
        if k == 'step':
            steps = [['step', tv(), tv(), z0 + L * rng.uniform(-0.1, 1.1)]]
        elif k == 'linear':
            steps = [['linear', tv(), tv()]]
        elif k == 'bounded':
            a = z0 + L * rng.uniform(-0.1, 0.8)
            steps = [['linear', tv(), tv()], ['bounded', tv(), a, a + L * rng.uniform(0.0, 0.6)]]
        elif k == 'single':
            steps = [['step', tv(), tv(), z0 + L * rng.uniform(0, 1)], ['single', tv(), z0 + L * rng.uniform(-0.2, 1.2)]]
        elif k == 'function':
            if kind == 'trace':
                mid = tv()
                steps = [['function', mid, rng.uniform(0.0, 0.9) * mid, rng.uniform(0.5, 6.0), z0, L]]
            else:
                mid = rng.uniform(0.1, 0.7) * vmax + 0.02
                steps = [['function', mid, rng.uniform(0.1, 0.9) * min(mid - 0.01, vmax - mid), rng.uniform(0.5, 6.0), z0, L]]
        else:
            n = rng.randint(2, 6)
            zs = sorted(z0 + L * rng.uniform(-0.2, 1.2) for _ in range(n))
            steps = [['data', [tv() for _ in range(n)], zs]]
        prof.append(steps)
    return prof


def gen_bc(rng, E, minC=None):
    vmax = 0.9 / E
    bcs = []
    for e in range(E):
        sides = []
        for side in range(2):
            k = rng.choice(['default', 'default', 'default', 'flux0', 'flux0', 'flux', 'flux', 'flux', 'comp', 'comp', 'comp'])
            if k == 'flux':
                sides.append(['flux', rng.choice([-1, 1]) * 10 ** rng.uniform(-1.3, 0.7)])   # relative to the case's flux scale
            elif k == 'comp':
                sides.append(['comp', _tval(rng, minC, E + 1, vmax) if minC is not None else _val(rng, vmax)])
            else:
                sides.append([k, 0.0])
        bcs.append(sides)
    return bcs


# ---- entering boundary conditions: every public entry point
# op = [entry, side, side_repr, kind, value, type_repr, element_index]          entry in set / setLeft / setRight
#      ['setBC', lkind, lvalue, rkind, rvalue, type_repr, element_index]         DiffusionModel.setBC(…, element=name)
#      ['setBC-none', lkind, lvalue, rkind, rvalue, type_repr, 0]                DiffusionModel.setBC(…) without element
# side L / R / bad; side_repr const / str; kind flux / flux0 / comp / badtype; type_repr int / str;
# element_index e < E: the e-th independent element, E: a name that is not an element of the model
FOREIGN = 'ZZ'


def _rand_side_op(rng, e, side, E, kinds=('flux', 'flux0', 'comp')):
    k = rng.choice(kinds)
    v = rng.choice([-1, 1]) * 10 ** rng.uniform(-1.3, 0.7) if k == 'flux' else (_val(rng, 0.9 / E) if k == 'comp' else 0.0)
    ep = rng.choice(['set', 'set', 'helper', 'helper'])
    if ep == 'helper':
        return [['setLeft', 'setRight'][side], 'LR'[side], 'const', k, v, rng.choice(['int', 'str']), e]
    return ['set', 'LR'[side], rng.choice(['const', 'str']), k, v, rng.choice(['int', 'str']), e]


def gen_bcops(rng, bc, E, noise_p=0.3, malformed=False, none_key=False):
    """a history of entering calls whose last writes per (element, side) are `bc`"""
    noise, final = [], []
    for e, sides in enumerate(bc):
        touched = [k != 'default' for k, _ in sides]
        for side in range(2):
            if touched[side]:
                while rng.random() < noise_p:
                    noise.append(_rand_side_op(rng, e, side, E))
        if touched[0] and touched[1] and rng.random() < noise_p:
            noise.append(['setBC', rng.choice(['flux', 'comp']), _val(rng, 0.9 / E), rng.choice(['flux', 'comp']), _val(rng, 0.9 / E), rng.choice(['int', 'str']), e])
        use_setbc = (touched[0] and touched[1] and rng.random() < 0.4) or ((touched[0] != touched[1]) and rng.random() < 0.15)
        if use_setbc:
            l, r = [sd if sd[0] != 'default' else ['flux0', 0.0] for sd in sides]
            ep = 'setBC-none' if (none_key and e == 0 and rng.random() < 0.5) else 'setBC'
            final.append([ep, l[0], l[1], r[0], r[1], rng.choice(['int', 'str']), e])
        else:
            for side in range(2):
                if touched[side]:
                    op = _rand_side_op(rng, e, side, E, kinds=(sides[side][0],))
                    op[4] = sides[side][1]
                    final.append(op)
    if rng.random() < 0.25:
        noise.append(_rand_side_op(rng, E, rng.randrange(2), E))            # a name that is not an element of the model
    if malformed:
        for _ in range(rng.randint(1, 2)):
            e = rng.randrange(E); side = rng.randrange(2)
            m = rng.choice(['badside', 'badtype', 'setBC-badright', 'setBC-badleft', 'helper-badtype'])
            if m == 'badside':
                noise.append(['set', 'bad', rng.choice(['const', 'str']), rng.choice(['flux', 'comp']), 0.1, rng.choice(['int', 'str']), e])
            elif m == 'badtype':
                noise.append(['set', 'LR'[side], rng.choice(['const', 'str']), 'badtype', 0.1, 'str', e])
            elif m == 'helper-badtype':
                noise.append([['setLeft', 'setRight'][side], 'LR'[side], 'const', 'badtype', 0.1, 'str', e])
            elif m == 'setBC-badright':
                # writes the LEFT entry, then raises: only where a later call decides the left side of e
                if bc[e][0][0] != 'default':
                    noise.append(['setBC', 'comp', 0.2, 'badtype', 0.1, 'str', e])
            else:
                noise.append(['setBC', 'badtype', 0.2, 'comp', 0.1, 'str', e])
    rng.shuffle(noise); rng.shuffle(final)
    return noise + final


def ref_bc_tables(ops, E):
    """SPECIFICATION of the entering calls, plain Python: per key (element index, E = foreign name) and side the (type, value)
    of the last valid call that names it; invalid side / type string raise ValueError and write nothing (setBC: the left
    entry is written before the right one is validated); setBC without element means the first independent element.
    Returns the list of (tables, raised) after every call; tables = {(key, side): (kind, value)}."""
    cur, out = {}, []
    for op in ops:
        raised = False
        if op[0] in ('setBC', 'setBC-none'):
            _, lk, lv, rk, rv, _, e = op
            if lk == 'badtype':
                raised = True
            else:
                cur[(e, 0)] = (lk, lv)
                if rk == 'badtype':
                    raised = True
                else:
                    cur[(e, 1)] = (rk, rv)
        else:
            ep, sd, _, k, v, _, e = op
            if k == 'badtype' or sd == 'bad':
                raised = True
            else:
                cur[(e, 'LR'.index(sd))] = (k, v)
        out.append((dict(cur), raised))
    return out


def spec_from_tables(tab, E, fs):
    """[ltype, lval, rtype, rval] per element (0 = flux, 1 = composition), defaults flux 0"""
    spec = []
    for e in range(E):
        row = []
        for side in range(2):
            k, v = tab.get((e, side), ('flux0', 0.0))
            row += [1 if k == 'comp' else 0, float(v * fs if k == 'flux' else (v if k == 'comp' else 0.0))]
        spec.append(row)
    return spec


def legacy_bcops(case):
    """cases stored before the entering calls were part of the case (bcapi = setBC / object / object-str)"""
    ops = []
    for e, sides in enumerate(case['bc']):
        if case.get('bcapi', 'setBC') == 'setBC':
            if sides[0][0] != 'default' or sides[1][0] != 'default':
                l, r = [sd if sd[0] != 'default' else ['flux0', 0.0] for sd in sides]
                ops.append(['setBC', l[0], l[1], r[0], r[1], 'int', e])
        else:
            for side, (k, v) in enumerate(sides):
                if k != 'default':
                    rp = 'str' if case['bcapi'] == 'object-str' else 'const'
                    ops.append(['set', 'LR'[side], rp, k, v, 'str' if rp == 'str' else 'int', e])
    return ops


def gen_case(rng, thorough=False):
    model = rng.choice(['single', 'single', 'single', 'homog', 'homog'])
    ncomp = rng.choice([2, 2, 3, 3, 4])
    E = ncomp - 1
    size = rng.choice(['tiny', 'small', 'small', 'medium', 'large'])
    N = {'tiny': rng.randint(3, 5), 'small': rng.randint(6, 20), 'medium': rng.randint(21, 80), 'large': rng.randint(81, 200)}[size]
    names = rng.sample(SUBST, ncomp)
    if model == 'homog' and ncomp >= 3 and rng.random() < 0.3:
        names[rng.randint(1, ncomp - 1)] = rng.choice(INTER)
    L = 10 ** rng.uniform(-5, -2)
    z0 = rng.choice([0.0, -L / 2, rng.uniform(-1, 1) * L])
    pk = rng.choice(['normal'] * 12 + ['trace'] * 6 + ['trace-high'] * 2 + ['extreme'] * 2 + ['sum>1'])
    minC = rng.choice([1e-8] * 6 + [1e-6, 1e-4, 1e-10, 1e-3, 1e-3, 1e-5])
    bc = gen_bc(rng, E, minC if pk == 'trace' and rng.random() < 0.5 else None) if pk not in ('extreme', 'trace-high') else [[[rng.choice(['default', 'flux0']), 0.0] for _ in range(2)] for _ in range(E)]
    ncalls = rng.randint(1, 5)
    smax = 3 if N > 80 else 8
    ops = []
    for _ in range(ncalls):
        if rng.random() < 0.12:
            ops.append(['setup'])
        ops.append(['solve', rng.randint(1, smax), round(rng.uniform(0.8, 1.2), 4)])
    tk = rng.choice(['iso', 'iso', 'array', 'func'])
    T0 = round(rng.uniform(900, 1500), 2)
    case = dict(
        model=model, names=names, N=N, z0=z0, L=L,
        minC=minC,
        profile=gen_profile(rng, E, z0, L, pk, minC), pkind=pk,
        bc=bc, bcops=gen_bcops(rng, bc, E, none_key=rng.random() < 0.2), ctor=rng.random() < 0.4,
        scheme=rng.choice(['euler', 'rk4']), ops=ops,
        temp=[tk, T0, round(rng.uniform(-80, 80), 2), 10 ** rng.uniform(-4, -1) * rng.choice([-1, 1])],
        therm=rng.choice(['const', 'linear', 'table', 'arrhenius']), tseed=rng.getrandbits(32),
        scale=10 ** (rng.uniform(-16, -11) if model == 'single' else rng.uniform(-21, -17)),
        maxDtFrac=rng.choice([1, 1, 1, 0.5]), record=rng.random() < 0.7,
        hfunc=rng.choice(['wiener upper', 'wiener lower', 'hashin upper', 'hashin lower', 'lab']),
        heps=rng.choice([0.05, 0.05, 0.01, 0.0]), nphases=rng.choice([1, 2, 2]), hpost=rng.choice(['none', 'none', 'majority']),
        mobless=rng.random() < 0.2,
    )
    # round 7: about one case in twelve becomes a 'rich-inflow' case - drawn from a generator of its own (seeded by the case) so that
    # the stream of the cases above is what it was.  One element rich at every node, nothing near the minimum composition, and a
    # strong inflow of the rich element (left: positive flux, right: negative flux) - the upper bound 1 - minComposition is then the
    # only bound postProcess has to enforce
    r2 = random.Random(case['tseed'] ^ 0x5EED7)
    if r2.random() < 0.085:
        prof = gen_profile(r2, E, z0, L, 'rich-inflow', minC)
        big = max(range(E), key=lambda e: max(prof[e][0][1], prof[e][0][2]))
        bc2 = [[[r2.choice(['default', 'flux0']), 0.0] for _ in range(2)] for _ in range(E)]
        for sd in r2.choice([[0], [1], [0, 1]]):
            bc2[big][sd] = ['flux', (1 if sd == 0 else -1) * 10 ** r2.uniform(1.5, 3.0)]
        case.update(profile=prof, pkind='rich-inflow', bc=bc2, bcops=gen_bcops(r2, bc2, E, none_key=False))
    return case


# ============================================================================ thermodynamics stubs
class SingleStub:
    """duck-typed thermodynamics for SinglePhaseModel: clearCache, getInterdiffusivity(x, T, phase=)"""
    def __init__(self, kind, E, seed, D0):
        r = np.random.default_rng(seed)
        self.kind, self.E, self.D0 = kind, E, D0
        self.base = np.eye(E) * r.uniform(0.4, 1.0, E) + (r.uniform(-0.15, 0.15, (E, E)) * (1 - np.eye(E)) if E > 1 else 0)
        self.slope = r.uniform(-0.5, 0.5, (E, E, E))
        self.table = r.uniform(0.3, 1.0, (16, E, E)) * (np.eye(E) + 0.15 * (1 - np.eye(E)) * r.choice([-1, 1], (E, E)))
        self.Q = r.uniform(5e4, 1.5e5)
        self.cleared = 0
        self.ncalls = 0

    def clearCache(self):
        self.cleared += 1

    def getInterdiffusivity(self, x, T, phase=None):
        self.ncalls += 1
        x = np.atleast_1d(np.asarray(x, dtype=float))
        if self.kind == 'const':
            D = self.base
        elif self.kind == 'linear':
            D = self.base * (1 + np.tensordot(self.slope, x, axes=([2], [0])))
        elif self.kind == 'table':
            D = self.table[int(abs(x[0]) * 15.999) % 16 if x[0] == x[0] else 0]
        else:
            D = self.base * (1 + 0.3 * x[0]) * _arrh(self.Q, T)
        D = self.D0 * D
        return float(D[0, 0]) if self.E == 1 else np.array(D)


class _PR:
    def __init__(self, name, els):
        self.phase_name = name
        self.nonvacant_elements = sorted(els)


class _CS:
    def __init__(self, pr, NP, X, dof):
        self.phase_record, self.NP, self.X, self.dof = pr, NP, X, dof


class _EqR:
    def __init__(self, MU):
        self.MU = MU


class _Wks:
    def __init__(self, MU, css):
        self.eq = _EqR(MU)
        self._css = css

    def get_composition_sets(self):
        return self._css


class HomStub:
    """duck-typed thermodynamics for HomogenizationModel: getEq -> workspace-like (eq.MU, composition sets),
    mobCallables per phase and element, elements (with 'VA'), numElements, phases."""
    def __init__(self, kind, allElements, seed, M0, nphases, mobless):
        r = np.random.default_rng(seed)
        self.kind = kind
        self.elements = list(allElements) + ['VA']
        self.numElements = len(allElements)
        self.phases = ['ALPHA', 'BETA'][:nphases]
        n = self.numElements
        self.alpha_order = list(np.argsort(allElements))             # alphabetical position -> therm index
        self.sorted_names = sorted(allElements)
        self.mu0 = r.uniform(-5e4, -1e4, n)
        self.Lint = r.uniform(-2e4, 2e4, (n, n))
        self.mtab = r.uniform(0.2, 1.0, (len(self.phases), n))
        self.mslope = r.uniform(-0.5, 0.5, (len(self.phases), n))
        self.Q = r.uniform(5e4, 1.5e5)
        self.M0 = M0
        self.mobility_correction = None if r.random() < 0.5 else {el: 1 for el in allElements}
        self.mobCallables = {}
        for p, ph in enumerate(self.phases):
            if mobless and p == 1:
                self.mobCallables[ph] = None
            else:
                self.mobCallables[ph] = {el: self._mk(p, k) for k, el in enumerate(self.sorted_names)}
        self.cleared = 0

    def _mk(self, p, k):
        # dof = [T, X (alphabetical)]; mobility of the k-th alphabetical element in phase p
        def f(dof):
            T = dof[0]; X = dof[1:]
            v = self.M0 * self.mtab[p, k] * (1 + self.mslope[p, k] * X[k])
            if self.kind == 'arrhenius':
                v *= _arrh(self.Q, T)
            elif self.kind == 'table':
                v *= 1 + 0.5 * ((int(X[0] * 16) % 3) if X[0] == X[0] else 0)
            return v
        return f

    def clearCache(self):
        self.cleared += 1

    def getEq(self, x, T, gExtra=0, precPhase=None):
        x = np.atleast_1d(np.asarray(x, dtype=float))
        xfull = np.concatenate(([1 - np.sum(x)], x))                  # therm order
        xs = np.clip(xfull, 1e-12, None)
        if self.kind == 'const':
            mu = self.mu0 + 1e4 * xfull
        else:
            mu = self.mu0 + R_GAS * T * np.log(xs) + self.Lint @ xfull
        X_alpha = xfull[self.alpha_order]
        MU_alpha = mu[self.alpha_order]
        dof = np.concatenate(([T], X_alpha))
        css = []
        if len(self.phases) == 1:
            fr = [1.0]
        else:
            w = min(max(0.5 + 1.5 * (x[0] - 0.2), 0.0), 1.0)
            fr = [w, 1 - w]
        for p, ph in enumerate(self.phases):
            if fr[p] > 0:
                css.append(_CS(_PR(ph, self.sorted_names), fr[p], X_alpha, dof))
        return _Wks(np.array([[MU_alpha]]), css)


# ============================================================================ building a real model
def _flux_scale(case, dz):
    """magnitude of a 'natural' boundary flux for the case (BC flux values are multiples of it)"""
    if case['model'] == 'single':
        return case['scale'] / dz * 2.5e-4 / 0.4 * 1.0          # ~2.5e-4 composition change per stable step
    return case['scale'] * 1e4 / dz


def _profile_fn(step):
    _, mid, amp, k, z0, L = step
    return lambda z: mid + amp * np.sin(k * (np.asarray(z) - z0) / L)


def build(case):
    vlib.use_repo()
    from kawin.diffusion import SinglePhaseModel, HomogenizationModel
    from kawin.diffusion.DiffusionParameters import BoundaryConditions, CompositionProfile, TemperatureParameters
    from kawin.diffusion.HomogenizationParameters import HomogenizationParameters
    names = case['names']; E = len(names) - 1; N = case['N']
    zlim = [case['z0'], case['z0'] + case['L']]
    cp = CompositionProfile()
    for e, steps in enumerate(case['profile']):
        el = names[e + 1]
        for st in steps:
            if st[0] == 'step':
                cp.addStepCompositionStep(el, st[1], st[2], st[3])
            elif st[0] == 'linear':
                cp.addLinearCompositionStep(el, st[1], st[2])
            elif st[0] == 'bounded':
                cp.addBoundedCompositionStep(el, st[1], st[2], st[3])
            elif st[0] == 'single':
                cp.addSingleCompositionStep(el, st[1], st[2])
            elif st[0] == 'function':
                cp.addFunctionCompositionStep(el, _profile_fn(st))
            else:
                cp.addProfileCompositionStep(el, st[1], st[2])
    fs = _flux_scale(case, mesh_dz(case))
    bc0, pending = enter_first(case, names, fs)
    tk, T0, grad, rate = case['temp']
    if tk == 'iso':
        tp = TemperatureParameters(T0)
    elif tk == 'array':
        tp = TemperatureParameters([0, abs(rate), 3 * abs(rate)], [T0, T0 + grad, T0 - grad / 2])
    else:
        z0, L = case['z0'], case['L']
        tp = TemperatureParameters(lambda z, t: T0 + grad * (np.asarray(z) - z0) / L + rate * t * 1e-3)
    # a model built WITHOUT a boundary-condition object is built without the keyword (passing None explicitly would bypass the
    # constructor's default, and with it any state a mutable default shares between models)
    bckw = {} if bc0 is None else {'boundaryConditions': bc0}
    if case['model'] == 'single':
        therm = SingleStub(case['therm'], E, case['tseed'], case['scale'])
        m = SinglePhaseModel(zlim, N, names, ['ALPHA'], thermodynamics=therm, temperatureParameters=tp,
                             compositionProfile=cp, record=case['record'], **bckw)
    else:
        therm = HomStub(case['therm'], names, case['tseed'], case['scale'], case['nphases'], case['mobless'] and case['nphases'] == 2)
        hf = case['hfunc']
        if case['mobless'] and case['nphases'] == 2 and hf not in ('wiener upper', 'lab'):
            hf = 'wiener upper'
        hp = HomogenizationParameters(hf, eps=case['heps'], postProcessFunction=case['hpost'])
        m = HomogenizationModel(zlim, N, names, therm.phases, thermodynamics=therm, temperatureParameters=tp,
                                compositionProfile=cp, homogenizationParameters=hp, record=case['record'], **bckw)
    m.constraints.minComposition = case['minC']
    entry = enter_rest(pending, m, m.boundaryConditions)
    spec = spec_from_tables(ref_bc_tables(bcops_of(case), E)[-1][0] if bcops_of(case) else {}, E, fs)
    m._verif_entry = entry
    return m, spec, therm


def bcops_of(case):
    return case['bcops'] if 'bcops' in case else legacy_bcops(case)


def mesh_dz(case):
    z = np.linspace(case['z0'], case['z0'] + case['L'], case['N'])
    return float(z[1] - z[0])


def _key_name(names, e):
    return names[e + 1] if e + 1 < len(names) else FOREIGN


def snapshot(bc):
    return dict(leftBCtype=dict(bc.leftBCtype), leftBC=dict(bc.leftBC), rightBCtype=dict(bc.rightBCtype), rightBC=dict(bc.rightBC))


def do_entry(op, bc, m, names, fs):
    """one entering call on the real objects; returns True when it raised ValueError"""
    from kawin.diffusion.DiffusionParameters import BoundaryConditions as B
    def ty(kind, repr_):
        if kind == 'badtype':
            return 'neumann'
        t = 1 if kind == 'comp' else 0
        return ['flux', 'composition'][t] if repr_ == 'str' else [B.FLUX_BC, B.COMPOSITION_BC][t]
    def val(kind, v):
        return float(v * fs) if kind == 'flux' else (float(v) if kind in ('comp', 'badtype') else 0.0)
    try:
        if op[0] in ('setBC', 'setBC-none'):
            _, lk, lv, rk, rv, tr, e = op
            if op[0] == 'setBC':
                m.setBC(ty(lk, tr), val(lk, lv), ty(rk, tr), val(rk, rv), element=_key_name(names, e))
            else:
                m.setBC(ty(lk, tr), val(lk, lv), ty(rk, tr), val(rk, rv))
        else:
            ep, sd, sr, k, v, tr, e = op
            el = _key_name(names, e)
            if ep == 'setLeft':
                bc.setLeftBoundaryCondition(ty(k, tr), val(k, v), el)
            elif ep == 'setRight':
                bc.setRightBoundaryCondition(ty(k, tr), val(k, v), el)
            else:
                side = ('top' if sr == 'str' else 7) if sd == 'bad' else (['left', 'right'] if sr == 'str' else [B.LEFT, B.RIGHT])['LR'.index(sd)]
                bc.setBoundaryCondition(side, ty(k, tr), val(k, v), el)
    except ValueError:
        return True
    return False


def enter_first(case, names, fs):
    """constructor path: a BoundaryConditions object filled by the calls that do not need the model (those before the first
    setBC call), to be passed as `boundaryConditions=`; returns (object or None, state for enter_rest)"""
    from kawin.diffusion.DiffusionParameters import BoundaryConditions
    ops = bcops_of(case)
    st = dict(ops=ops, done=0, raised=[], snaps=[], names=names, fs=fs)
    if not case.get('ctor', False):
        return None, st
    bc = BoundaryConditions()
    while st['done'] < len(ops) and ops[st['done']][0] not in ('setBC', 'setBC-none'):
        st['raised'].append(do_entry(ops[st['done']], bc, None, names, fs))
        st['snaps'].append(snapshot(bc))
        st['done'] += 1
    return bc, st


def enter_rest(st, m, bc):
    ops = st['ops']
    while st['done'] < len(ops):
        st['raised'].append(do_entry(ops[st['done']], bc, m, st['names'], st['fs']))
        st['snaps'].append(snapshot(bc))
        st['done'] += 1
    return dict(raised=st['raised'], snaps=st['snaps'])


# ============================================================================ logged run of the real code
def run_real(case, factory=None):
    """drive the real model over the case's history with run-time wrappers; returns a log dict"""
    build = factory or globals()['build']
    vlib.use_repo()
    import kawin.solver.Solver as S
    import kawin.solver.Iterators as IT
    import kawin.diffusion.Homogenization as HM
    from kawin.solver.Solver import SolverType
    sink = io.StringIO()
    # probe instance: estimate of the natural time step
    dt0 = None
    try:
        with contextlib.redirect_stdout(sink):
            pm, _, _ = build(case)
            pm.setup()
            t, x = pm.getCurrentX()
            dt0 = float(pm.getDt(pm.getdXdt(t, x)))
    except Exception as e:
        dt0 = None
    if dt0 is None or not (dt0 > 0) or math.isinf(dt0):
        dt0 = 1.0
    m, spec, therm = build(case)
    E, N = len(case['names']) - 1, case['N']
    log = dict(raw=[], after=[], dxdt=[], hom=[], steps=[], ops=[], built=None, spec=spec, dz=float(m.dz), z=m.z.copy(),
               nAll=len(m.allElements), dt0=dt0, E=E, N=N, entry=getattr(m, '_verif_entry', None), tables_setup=None, rec0=None)
    bc = m.boundaryConditions
    o_apply = bc.applyBoundaryConditionsToFluxes

    def w_apply(elements, fluxes):
        log['raw'].append(np.array(fluxes, dtype=float, copy=True))
        r = o_apply(elements, fluxes)
        log['after'].append(np.array(fluxes, dtype=float, copy=True))
        return r
    bc.applyBoundaryConditionsToFluxes = w_apply
    o_g = m.getdXdt

    def w_g(t, x):
        d = o_g(t, x)
        log['dxdt'].append(np.array(d[0], dtype=float, copy=True))
        return d
    m.getdXdt = w_g
    o_build = m.compositionProfile.buildProfile

    def w_build(elements, x, z):
        r = o_build(elements, x, z)
        log['built'] = np.array(x, dtype=float, copy=True)
        return r
    m.compositionProfile.buildProfile = w_build
    o_pp = m.postProcess

    def w_pp(time, x):
        r = o_pp(time, x)
        log['steps'][-1]['xnew'] = m.x.copy()
        log['steps'][-1]['t'] = float(m.t)
        return r
    m.postProcess = w_pp
    cur = {}
    o_setup = m.setup

    def w_setup():
        cur['x_before'] = m.x.copy()
        cur['was_setup'] = bool(m.isSetup)
        o_setup()
        cur['x_setup'] = m.x.copy()
        if not cur['was_setup']:
            log['tables_setup'] = snapshot(m.boundaryConditions)
            rx = getattr(m, '_recordedX', None)
            if getattr(m, '_record', False) and rx is not None and len(rx) >= 1:
                log['rec0'] = np.array(rx[0], dtype=float, copy=True)
    m.setup = w_setup

    def wrap_it(real):
        def it(f, t, X_old, updateX):
            c0 = len(log['raw'])
            xo = np.array(X_old, dtype=float, copy=True)
            X_new, dt = real(f, t, X_old, updateX)
            log['steps'].append(dict(c0=c0, ncalls=len(log['raw']) - c0, dt=float(dt), xold=xo.reshape(E, N),
                                     xraw=np.array(X_new, dtype=float, copy=True).reshape(E, N), arg_modified=not np.array_equal(xo, X_old)))
            return X_new, dt
        return it
    o_chf = HM.computeHomogenizationFunction

    def w_chf(therm_, x, T, hp, ht=None):
        am, mu = o_chf(therm_, x, T, hp, ht)
        log['hom'].append(dict(c=len(log['raw']), avg_mob=np.array(am, copy=True), mu=np.array(mu, copy=True), x=np.array(x, copy=True).T, T=np.array(T, copy=True)))
        return am, mu
    saved = (S.ExplicitEulerIterator, S.RK4Iterator, HM.computeHomogenizationFunction)
    S.ExplicitEulerIterator = wrap_it(IT.ExplicitEulerIterator)
    S.RK4Iterator = wrap_it(IT.RK4Iterator)
    HM.computeHomogenizationFunction = w_chf
    stype = SolverType.EXPLICITEULER if case['scheme'] == 'euler' else SolverType.RK4
    try:
        with contextlib.redirect_stdout(sink):
            for op in case['ops']:
                cur.clear()
                s0 = len(log['steps'])
                rec = dict(kind=op[0], status='ok', s0=s0)
                try:
                    if op[0] == 'setup':
                        m.setup()
                    else:
                        n = op[1]
                        m.solve(n * dt0 * op[2], solverType=stype, minDtFrac=1.0 / (3 * n), maxDtFrac=case['maxDtFrac'])
                except Exception as e:
                    fr = traceback.extract_tb(e.__traceback__)
                    if fr and os.path.abspath(fr[-1].filename) == os.path.abspath(__file__) and fr[-1].name in ('getInterdiffusivity', 'getEq', 'f', '_arrh', '<lambda>'):
                        raise HarnessError('stub %s raised %s: %s' % (fr[-1].name, type(e).__name__, e)) from None
                    rec['status'] = 'raised:%s:%s' % (type(e).__name__, str(e)[:80])
                    site = [l.strip() for l in traceback.format_exc().splitlines() if l.strip().startswith('File "%s' % vlib.REPO)]
                    rec['raised_at'] = site[-1] if site else None
                rec.update(x_before=cur.get('x_before'), x_setup=cur.get('x_setup'), was_setup=cur.get('was_setup'),
                           s1=len(log['steps']), x_after=m.x.copy(), t_after=float(m.t))
                log['ops'].append(rec)
                if rec['status'] != 'ok':
                    break
    finally:
        S.ExplicitEulerIterator, S.RK4Iterator, HM.computeHomogenizationFunction = saved
    log['cleared'] = getattr(therm, 'cleared', None)
    log['model'] = m
    return log


# ============================================================================ independent references
def ref_profile(case, z):
    """initial profile from the builder description, plain Python"""
    N = len(z); E = len(case['names']) - 1
    x = [[0.0] * N for _ in range(E)]
    for e, steps in enumerate(case['profile']):
        for st in steps:
            if st[0] == 'step':
                for i in range(N):
                    x[e][i] = st[1] if z[i] <= st[3] else st[2]
            elif st[0] == 'linear':
                for i in range(N):
                    x[e][i] = st[1] + (st[2] - st[1]) * i / (N - 1)
                x[e][N - 1] = st[2]
            elif st[0] == 'bounded':
                for i in range(N):
                    if st[2] <= z[i] <= st[3]:
                        x[e][i] = st[1]
            elif st[0] == 'single':
                best = min(range(N), key=lambda i: (abs(z[i] - st[2]), i))
                x[e][best] = st[1]
            elif st[0] == 'function':
                f = _profile_fn(st)
                for i in range(N):
                    x[e][i] = float(f(z[i]))
            else:
                xs, zs = st[1], st[2]
                for i in range(N):
                    if z[i] <= zs[0]:
                        x[e][i] = xs[0]
                    elif z[i] >= zs[-1]:
                        x[e][i] = xs[-1]
                    else:
                        for k in range(len(zs) - 1):
                            if zs[k] <= z[i] <= zs[k + 1]:
                                if zs[k + 1] == zs[k]:
                                    x[e][i] = xs[k + 1]
                                else:
                                    x[e][i] = xs[k] + (xs[k + 1] - xs[k]) * (z[i] - zs[k]) / (zs[k + 1] - zs[k])
                                break
    return x


def ref_shift_clamp(v, minC, nAll):
    if v > minC:
        v = v - nAll * minC
    if v < minC:
        v = minC
    return v


def ref_homog(h, names, dz, eps):
    """lattice-frame fluxes J (nAll, N-1), face u-fractions (nAll, N-1) and volume-frame fluxes from logged
    average mobilities and chemical potentials — scalar re-computation"""
    M = np.atleast_2d(h['avg_mob']); mu = np.atleast_2d(h['mu']); x = h['x']; T = h['T']
    nAll = len(names); N = x.shape[1]
    if M.shape[0] != N:
        M = M.T; mu = mu.T
    subst = [k for k in range(nAll) if names[k] not in INTERSTITIALS]
    J = np.zeros((nAll, N - 1)); U = np.zeros((nAll, N - 1)); Jv = np.zeros((nAll, N - 1))
    xf = np.vstack([1 - x.sum(axis=0), x])
    usum = np.array([sum(xf[k, i] for k in subst) for i in range(N)])
    u = xf / usum
    for j in range(N - 1):
        Tm = 0.5 * (T[j + 1] + T[j])
        for k in range(nAll):
            Mm = math.exp(0.5 * (math.log(M[j + 1, k]) + math.log(M[j, k])))
            au = 0.5 * (u[k, j + 1] + u[k, j])
            f = -Mm * (mu[j + 1, k] - mu[j, k]) / dz
            if au != 0:
                f += -eps * Mm * R_GAS * Tm * ((u[k, j + 1] - u[k, j]) / dz) / au
            J[k, j] = f; U[k, j] = au
        S = sum(J[k, j] for k in subst)
        for k in range(nAll):
            Jv[k, j] = J[k, j] - U[k, j] * S
    return J, U, Jv, subst


# ============================================================================ the check
def _desc(case, **kw):
    d = dict(case)
    d.update(kw)
    return d


def _bweights(n):
    return [1.0] if n == 1 else [1 / 6, 2 / 6, 2 / 6, 1 / 6]


ENTRY_NAME = {'set': 'setBoundaryCondition', 'setLeft': 'setLeftBoundaryCondition', 'setRight': 'setRightBoundaryCondition',
              'setBC': 'DiffusionModel.setBC', 'setBC-none': 'DiffusionModel.setBC(element=None)'}


def _norm_snapshot(snap, names):
    """{(key index, side): (type, value)} of a snapshot of the four dictionaries; None when a type/value pair of dictionaries
    does not hold the same keys"""
    idx = {n: k for k, n in enumerate(names[1:])}
    idx[FOREIGN] = len(names) - 1
    idx[None] = -1
    out = {}
    for side, (tn, vn) in enumerate([('leftBCtype', 'leftBC'), ('rightBCtype', 'rightBC')]):
        if set(snap[tn]) != set(snap[vn]):
            return None
        for k in snap[tn]:
            if k not in idx:
                return None
            out[(idx[k], side)] = (snap[tn][k], float(snap[vn][k]))
    return out


def _ref_entries(tab, fs):
    return {k: (1 if kind == 'comp' else 0, float(v * fs if kind == 'flux' else (v if kind == 'comp' else 0.0))) for k, (kind, v) in tab.items()}


def entry_oracle(res, case, entry, E, fs, tables_setup=None):
    """stored per-side / per-element tables = SPECIFICATION after every entering call (culprit = the first call after which
    they differ) and after setupDefaults.  Returns True when a table violation was reported."""
    ops = bcops_of(case)
    names = case['names']
    ref = ref_bc_tables(ops, E)
    for k, op in enumerate(ops):
        if k >= len(entry['snaps']):
            break
        want = _ref_entries(ref[k][0], fs)
        got = _norm_snapshot(entry['snaps'][k], names)
        ename = ENTRY_NAME[op[0]]
        d = _desc(case, entry_call=k, entry_op=op)
        res.count('entry:' + op[0])
        if op[0] == 'setBC-none':
            want0 = {kk: v for kk, v in want.items()}
            if got != want0:
                res.violate('bc-entry-setBC-element-None-not-stored',
                            'DiffusionModel.setBC called without element: the condition is not stored for the first independent element %s (stored under the key None)' % names[1],
                            d, {str(kk): v for kk, v in (got or {}).items()}, {str(kk): v for kk, v in want0.items()})
                return True
            continue
        if bool(entry['raised'][k]) != bool(ref[k][1]):
            res.violate('bc-entry-%s-%s' % (ename, 'invalid-argument-accepted' if ref[k][1] else 'raised-on-valid-arguments'),
                        'call %d (%s): ValueError %s' % (k, ename, 'expected, not raised' if ref[k][1] else 'raised for valid arguments'), d, bool(entry['raised'][k]), bool(ref[k][1]))
            return True
        if got != want:
            if got is None:
                what = 'type-and-value-dictionaries-out-of-step'
            else:
                sides = sorted({('left', 'right')[kk[1]] for kk in set(got) | set(want) if got.get(kk) != want.get(kk)})
                what = '+'.join(sides) + '-table'
            res.violate('bc-entry-%s-%s' % (ename, what),
                        'after call %d (%s, side %s, element %s) the stored boundary-condition tables are not what was entered'
                        % (k, ename, op[1] if op[0] not in ('setBC',) else 'both', _key_name(names, op[-1])),
                        d, {str(kk): v for kk, v in (got or {}).items()}, {str(kk): v for kk, v in want.items()})
            return True
    if tables_setup is not None:
        got = _norm_snapshot(tables_setup, names)
        want = _ref_entries(ref[-1][0] if ref else {}, fs)
        for e in range(E):
            for side in range(2):
                want.setdefault((e, side), (0, 0.0))
        if got != want:
            res.violate('bc-table-after-setup', 'after setup() (setupDefaults) the tables are not the entered conditions completed with flux 0 defaults',
                        _desc(case), {str(kk): v for kk, v in (got or {}).items()}, {str(kk): v for kk, v in want.items()})
            return True
    return False


def bounds_t0(res, case, d, x, rp, minC, nAll, tag, where):
    """min <= x <= 1-min for every component (the dependent one included) at t = 0"""
    lo, hi = minC, 1 - minC
    E, N = x.shape
    for e in range(E):
        for i in range(N):
            v = float(x[e, i])
            if not (lo <= v <= hi):
                res.violate('bounds-%s-%s:described-value-%s' % (tag, 'below-min' if v < lo else ('above-1-min' if v > hi else 'nan'), classify_value(rp[e][i], minC, nAll)),
                            '%s: element %d node %d is %.6e, outside [minC, 1-minC] (described value %.6e, minComposition %g, %d elements)'
                            % (where, e, i, v, rp[e][i], minC, nAll), d, v, [lo, hi])
                return
    for i in range(N):
        dep = 1 - math.fsum(float(x[e, i]) for e in range(E))
        if not (lo - 4 * EPS <= dep <= hi + 4 * EPS):
            res.violate('bounds-%s-dependent-%s' % (tag, 'below-min' if dep < lo else 'above-1-min'),
                        '%s: dependent component at node %d is %.6e, outside [minC, 1-minC]' % (where, i, dep), d, dep, [lo, hi])
            return


def oracle(res, case, log):
    """property predicate evaluated on the logged implementation states (independent of the Lean model)"""
    E, N, dz, spec, minC, nAll = log['E'], log['N'], log['dz'], log['spec'], case['minC'], log['nAll']
    names = case['names']
    rp = ref_profile(case, log['z'])
    for e in range(E):
        if spec[e][0] == 1: rp[e][0] = spec[e][1]
        if spec[e][2] == 1: rp[e][N - 1] = spec[e][3]
    colsum = [math.fsum(rp[e][i] for e in range(E)) for i in range(N)]
    expect_raise = max(colsum) > 1
    if any(abs(c - 1) < 1e-12 and c != 1 for c in colsum):
        res.near_tie_skipped += 1
        return
    first_setup = None
    # ---- the entering calls: stored tables = specification, after every call and after setupDefaults
    if log.get('entry') is not None:
        entry_oracle(res, case, log['entry'], E, _flux_scale(case, mesh_dz(case)), log.get('tables_setup'))
    # ---- operations / setup
    for k, op in enumerate(log['ops']):
        d = _desc(case, op_index=k)
        if op['status'] != 'ok':
            if 'sum up to above 1' in op['status'] and op['x_setup'] is None and (
                    expect_raise if not op['was_setup'] else float(np.max(np.sum(op['x_before'], axis=0))) > 1):
                res.count('setup-raised-sum>1' + ('-later-call' if op['was_setup'] else ''))
            elif 'zero-size array' in op['status'] and 'in getDt' in (op.get('raised_at') or ''):
                res.count('observation:getDt-raises-on-zero-dXdt')
            else:
                res.violate('raises:%s:%s' % (op['kind'], op['status'].split(':')[1]), 'the implementation raised in %s(): %s' % (op['kind'], op['status']),
                            _desc(case, op_index=k, raised_at=op.get('raised_at')), op['status'], 'no exception')
                return          # partial log: nothing else is evaluated on this case
            break
        if expect_raise and not op['was_setup']:
            res.violate('setup-accepts-sum>1', 'setup accepted a profile with a node sum above 1', d)
        if op['x_setup'] is None:
            continue
        if not op['was_setup']:
            first_setup = op['x_setup']
            # initial profile: builders + composition BC + shift/clamp, independent reference
            bad = None
            for e in range(E):
                for i in range(N):
                    want = ref_shift_clamp(rp[e][i], minC, nAll)
                    if not close(op['x_setup'][e, i], want, 1e-11, 1e-3):
                        bad = (e, i, float(op['x_setup'][e, i]), want); break
                if bad: break
            if bad:
                res.violate('setup-initial-profile', 'node (%d,%d) after the first setup is not the described profile shifted/clamped' % bad[:2], d, bad[2], bad[3])
            for reg in {classify_value(rp[e][i], minC, nAll) for e in range(E) for i in range(N)}:
                res.count('described-value:' + reg)
            # bounds at t = 0: model.x after setup() and the first recorded profile, every component
            bounds_t0(res, case, d, op['x_setup'], rp, minC, nAll, 'after-setup', 'model.x after setup()')
            if log.get('rec0') is not None:
                if not np.array_equal(log['rec0'], op['x_setup']):
                    res.violate('recorded-t0-differs-from-state', 'the profile recorded at t = 0 is not model.x after setup()', d)
                bounds_t0(res, case, d, log['rec0'], rp, minC, nAll, 'recorded-t0', 'the first recorded profile')
        else:
            # consecutive call: setup must leave the profile alone
            if not np.array_equal(op['x_setup'], op['x_before']):
                diff = op['x_setup'] - op['x_before']
                e, i = np.unravel_index(np.argmax(np.abs(diff)), diff.shape)
                res.violate('setup-reapplies-shift-on-repeated-call',
                            'call %d (%s) on a model that is already set up changed the profile: node (%d,%d) by %.3e, mesh sum of element %d by %.3e'
                            % (k, op['kind'], e, i, diff[e, i], e, math.fsum(diff[e])), d,
                            [float(op['x_before'][e, i]), float(op['x_setup'][e, i])], 'unchanged')
    if first_setup is None:
        return
    lo, hi = minC, 1 - minC
    # ---- per flux evaluation: boundary faces, interior untouched, dXdt is the face difference
    for c, (raw, aft) in enumerate(zip(log['raw'], log['after'])):
        d = _desc(case, flux_call=c)
        if raw.shape != (E, N + 1):
            res.violate('flux-table-shape', 'flux table has shape %s, expected %s' % (raw.shape, (E, N + 1)), d); break
        for e in range(E):
            lt, lv, rt, rv = spec[e]
            wl = lv if lt == 0 else raw[e, 1]
            wr = rv if rt == 0 else raw[e, N - 1]
            if aft[e, 0] != wl:
                res.violate('%s-bc-left-face' % ('flux' if lt == 0 else 'comp'), 'element %d: left end face is not %s' % (e, 'the left flux value' if lt == 0 else 'the neighbouring face'), d, float(aft[e, 0]), float(wl))
            if aft[e, N] != wr:
                res.violate('%s-bc-right-face' % ('flux' if rt == 0 else 'comp'), 'element %d: right end face is not %s' % (e, 'the right flux value' if rt == 0 else 'the neighbouring face'), d, float(aft[e, N]), float(wr))
            if not np.array_equal(aft[e, 1:N], raw[e, 1:N]):
                res.violate('interior-face-modified', 'element %d: boundary conditions changed an interior face' % e, d)
        if c < len(log['dxdt']):
            dx = log['dxdt'][c]
            for e in range(E):
                mag = math.fsum(abs(v) for v in aft[e]) * 2 / dz
                tot = math.fsum(dx[e]) * dz
                if not close(tot, aft[e, 0] - aft[e, N], 1e-9, mag * dz):
                    res.violate('budget-dxdt', 'element %d: dz*sum(dXdt) != J_0 - J_N' % e, d, tot, float(aft[e, 0] - aft[e, N]))
                for i in range(N):
                    if not close(dx[e, i], -(aft[e, i + 1] - aft[e, i]) / dz, 1e-12, 1e-300):
                        res.violate('dxdt-not-face-difference', 'element %d node %d: dXdt is not -(J[i+1]-J[i])/dz' % (e, i), d, float(dx[e, i]), float(-(aft[e, i + 1] - aft[e, i]) / dz)); break
    # ---- homogenization: volume-fixed frame
    if case['model'] == 'homog':
        for h in log['hom'][:: max(1, len(log['hom']) // 6)]:
            c = h['c']
            if c >= len(log['raw']):
                continue
            d = _desc(case, flux_call=c)
            try:
                J, U, Jv, subst = ref_homog(h, names, dz, case['heps'])
            except (ValueError, FloatingPointError):
                res.count('homog-ref-skipped'); continue
            raw = log['raw'][c]
            sc = float(np.abs(J).sum(axis=0).max()) if J.size else 0.0
            for k in range(1, len(names)):
                for j in range(N - 1):
                    if not close(raw[k - 1, j + 1], Jv[k, j], 1e-8, sc * 1e-3):
                        res.violate('vframe-flux', 'element %d face %d: volume-frame flux is not J_k - u_k*sum_subst(J)' % (k - 1, j + 1), d, float(raw[k - 1, j + 1]), float(Jv[k, j])); break
                else:
                    continue
                break
            for j in range(N - 1):
                tot = math.fsum(Jv[k, j] for k in subst)
                if abs(tot) > 1e-9 * math.fsum(abs(J[k, j]) for k in subst) * (1 + len(subst)):
                    res.violate('vframe-sum', 'face %d: substitutional volume-frame fluxes (reference included) do not sum to 0' % (j + 1), d, tot, 0.0); break
            res.count('vframe-face-sets-checked')
    # ---- per step
    expected_sum = [math.fsum(first_setup[e]) for e in range(E)]
    history_ok = [True] * E
    for s, st in enumerate(log['steps']):
        d = _desc(case, step=s, dt=st['dt'])
        if 'xnew' not in st:
            continue
        if st['arg_modified']:
            res.violate('iterator-modifies-state', 'the iterator modified its input state', d)
        nst = st['ncalls']
        if nst != (1 if case['scheme'] == 'euler' else 4):
            res.violate('stage-count', 'step used %d flux evaluations' % nst, d, nst)
            continue
        w = _bweights(nst)
        afts = log['after'][st['c0']: st['c0'] + nst]
        for e in range(E):
            lt, lv, rt, rv = spec[e]
            Jl = lv if lt == 0 else math.fsum(wi * a[e, 0] for wi, a in zip(w, afts))
            Jr = rv if rt == 0 else math.fsum(wi * a[e, N] for wi, a in zip(w, afts))
            want = (Jl - Jr) * st['dt'] / dz
            s_old = math.fsum(st['xold'][e])
            floor = 64 * EPS * math.fsum(abs(v) for v in st['xold'][e])
            # before the clip: always
            got = math.fsum(st['xraw'][e]) - s_old
            mag = math.fsum(abs(a - b) for a, b in zip(st['xraw'][e], st['xold'][e])) + abs(want)
            if abs(got - want) > 1e-9 * mag + floor:
                res.violate('budget-step-preclip', 'element %d: iterator output mesh sum changed by %.6e, boundary fluxes give %.6e' % (e, got, want), d, got, want)
            clip_active = bool(np.any(st['xraw'][e] < lo) or np.any(st['xraw'][e] > hi))
            pre_oob = bool(np.any(st['xold'][e] < lo) or np.any(st['xold'][e] > hi))
            if pre_oob:
                # the state handed to the step was already outside the bounds (never so after a correct setup / postProcess):
                # what the clip adds to those nodes is not boundary exchange
                history_ok[e] = False
                got = math.fsum(st['xnew'][e]) - s_old
                mag = math.fsum(abs(a - b) for a, b in zip(st['xnew'][e], st['xold'][e])) + abs(want)
                if abs(got - want) > 1e-9 * mag + floor:
                    closed = lt == 0 and rt == 0 and lv == 0 and rv == 0
                    res.violate(('closed-sum-changes-over-first-postProcess' if closed else 'budget-first-postProcess') if s == 0 else 'budget-step-from-out-of-bounds-state',
                                'element %d: the step started from a state outside [minC, 1-minC]; over the postProcess the mesh sum changed by %.6e, the boundary fluxes give %.6e'
                                % (e, got, want), d, got, want)
            elif clip_active:
                res.count('clip-active-steps')
                history_ok[e] = False
            else:
                res.count('clip-inactive-steps')
                got = math.fsum(st['xnew'][e]) - s_old
                mag = math.fsum(abs(a - b) for a, b in zip(st['xnew'][e], st['xold'][e])) + abs(want)
                if abs(got - want) > 1e-9 * mag + floor:
                    res.violate('budget-step', 'element %d: mesh sum changed by %.6e over the step, (J_left - J_right)*dt/dz = %.6e' % (e, got, want), d, got, want)
                expected_sum[e] += want
            # fixed nodes
            if lt == 1 and st['xnew'][e, 0] != first_setup[e, 0]:
                res.violate('fixed-node-left', 'element %d: left fixed-composition node moved' % e, d, float(st['xnew'][e, 0]), float(first_setup[e, 0]))
            if rt == 1 and st['xnew'][e, N - 1] != first_setup[e, N - 1]:
                res.violate('fixed-node-right', 'element %d: right fixed-composition node moved' % e, d, float(st['xnew'][e, N - 1]), float(first_setup[e, N - 1]))
        if np.any(st['xnew'] < lo) or np.any(st['xnew'] > hi):
            res.violate('bounds', 'composition outside [minC, 1-minC] after postProcess', d, [float(st['xnew'].min()), float(st['xnew'].max())], [lo, hi])
        dep = 1 - np.sum(st['xnew'], axis=0)
        if np.any(dep < lo - 4 * EPS) or np.any(dep > hi + 4 * EPS):
            i = int(np.argmin(dep)) if np.any(dep < lo - 4 * EPS) else int(np.argmax(dep))
            # postProcess clips the independent components only; whether their sum stays below 1 - minC is decided by the
            # flux consistency of the thermodynamics (sum of the number-fixed-frame fluxes -> 0 as the reference element runs out),
            # which the stub diffusivities of this harness do not have: a violation on real thermodynamics, an observation on stubs
            if case.get('therm') == 'pycalphad':
                res.violate('bounds-dependent-after-step', 'dependent component (1 - sum of the independent ones) outside [minC, 1-minC] at node %d after postProcess' % i, d, float(dep[i]), [lo, hi])
            else:
                res.count('observation:dependent-component-outside-bounds-after-step(stub-diffusivities)')
        # continuity: the state handed to the iterator is the previous postProcess / setup output
    # ---- whole history (all solve calls): mesh sum = sum after first setup + accumulated boundary exchange
    last = log['ops'][-1]
    if last['status'] == 'ok':
        xf = last['x_after']
        nsteps = len(log['steps'])
        for e in range(E):
            lt, lv, rt, rv = spec[e]
            if history_ok[e]:
                got = math.fsum(xf[e])
                moved = sum(math.fsum(abs(a - b) for a, b in zip(st['xnew'][e], st['xold'][e])) for st in log['steps'] if 'xnew' in st)
                tol = 1e-9 * (abs(expected_sum[e] - math.fsum(first_setup[e])) + moved) + (nsteps + 1) * 64 * EPS * math.fsum(abs(v) for v in xf[e])
                if abs(got - expected_sum[e]) > tol:
                    closed = lt == 0 and rt == 0 and lv == 0 and rv == 0
                    res.violate('budget-history-closed' if closed else 'budget-history',
                                'element %d: mesh sum after %d solve/setup calls (%d steps) is off the accumulated boundary exchange by %.3e'
                                % (e, len(log['ops']), nsteps, got - expected_sum[e]), _desc(case), got, expected_sum[e])
                res.count('history-closed-checked' if (lt == 0 and rt == 0 and lv == 0 and rv == 0) else 'history-open-checked')
            if lt == 1:
                want = ref_shift_clamp(lv, minC, nAll)
                if not close(xf[e, 0], want, 1e-12):
                    res.violate('fixed-node-left-history', 'element %d: left fixed node ends at %.12g, condition value (shifted) %.12g' % (e, xf[e, 0], want), _desc(case), float(xf[e, 0]), want)
            if rt == 1:
                want = ref_shift_clamp(rv, minC, nAll)
                if not close(xf[e, N - 1], want, 1e-12):
                    res.violate('fixed-node-right-history', 'element %d: right fixed node ends at %.12g, condition value (shifted) %.12g' % (e, xf[e, N - 1], want), _desc(case), float(xf[e, N - 1]), want)


def driver_line(case, log):
    """the whole logged history as one driver case"""
    E, N = log['E'], log['N']
    toks = ['dif.solve', str(N), str(E), f2b(log['dz']), f2b(case['minC']), f2b(float(log['nAll']))]
    for row in log['spec']:
        toks += [str(row[0]), f2b(row[1]), str(row[2]), f2b(row[3])]
    toks.append('0' if case['scheme'] == 'euler' else '1')
    built = log['built'] if log['built'] is not None else np.zeros((E, N))
    toks.append(enc_list(built.reshape(-1)))
    hist = []
    for op in log['ops']:
        hist.append([st['dt'] for st in log['steps'][op['s0']:op['s1']]])
    toks.append(str(len(hist)))
    for h in hist:
        toks.append(enc_list(h))
    toks.append(str(len(log['raw'])))
    for r in log['raw']:
        toks.append(enc_list(r.reshape(-1)))
    return ' '.join(toks)


def compare_model(res, case, log, answer):
    E, N = log['E'], log['N']
    t = Toks(answer)
    d = _desc(case)
    if not t.ok:
        res.disagree('dif.solve model error ' + str(t.err), d, 'ok', t.err); return
    scale = 1e-3
    for k, op in enumerate(log['ops']):
        tag = t.tok()
        raised = op['status'] != 'ok' and op['x_setup'] is None
        if tag == 'E':
            if not (raised and 'sum up to above 1' in op['status']):
                res.disagree('setup: model raises (sum>1), implementation does not', _desc(case, op_index=k), op['status'], 'E')
            return
        if raised:
            res.disagree('setup: implementation raised, model accepts', _desc(case, op_index=k), op['status'], 'K'); return
        xs = np.array(t.flts()).reshape(E, N)
        depm = np.array(t.flts())
        if op['x_setup'] is not None and not np.allclose(depm, 1 - np.sum(op['x_setup'], axis=0), rtol=1e-12, atol=4 * EPS):
            res.disagree('dependent component after setup (call %d)' % k, _desc(case, op_index=k), (1 - np.sum(op['x_setup'], axis=0)).tolist(), depm.tolist()); return
        if not np.allclose(xs, op['x_setup'], rtol=1e-12, atol=0) :
            diff = np.abs(xs - op['x_setup']); e, i = np.unravel_index(np.argmax(diff), diff.shape)
            res.disagree('x after setup (call %d, node (%d,%d))' % (k, e, i), _desc(case, op_index=k), float(op['x_setup'][e, i]), float(xs[e, i])); return
        for s in range(op['s0'], op['s1']):
            st = log['steps'][s]
            xm = np.array(t.flts()).reshape(E, N)
            if 'xnew' not in st:
                continue
            ref = st['xnew']
            tol = 1e-9 * np.maximum(np.abs(ref - st['xold']), 1e-6 * np.abs(ref)) + 4 * EPS * np.abs(ref)
            if np.any(np.abs(xm - ref) > tol):
                diff = np.abs(xm - ref) - tol; e, i = np.unravel_index(np.argmax(diff), diff.shape)
                res.disagree('x after step %d (node (%d,%d))' % (s, e, i), _desc(case, step=s), float(ref[e, i]), float(xm[e, i])); return
            res.traces += 1
        if op['status'] != 'ok':
            return
    tag = t.tok()
    if tag != 'S':
        res.disagree('solves: model reports an error for a history the implementation ran', d, 'ok', tag); return
    xm = np.array(t.flts()).reshape(E, N)
    ref = log['ops'][-1]['x_after']
    if np.any(np.abs(xm - ref) > 1e-9 * np.abs(ref)):
        res.disagree('final x through `solves`', d, ref.tolist(), xm.tolist())


def aux_lines(case, log, rng):
    """single-row rhs cases and volume-frame cases taken from the logged run"""
    E, N, dz = log['E'], log['N'], log['dz']
    out = []
    if log['raw'] and log['raw'][0].shape == (E, N + 1):
        for _ in range(min(3, len(log['raw']))):
            c = rng.randrange(len(log['raw'])); e = rng.randrange(E)
            if c >= len(log['dxdt']):
                continue
            row = log['spec'][e]
            line = 'dif.rhs %d %s %d %s %d %s %s' % (N, f2b(dz), row[0], f2b(row[1]), row[2], f2b(row[3]), enc_list(log['raw'][c][e]))
            out.append(('rhs', line, (log['after'][c][e], log['dxdt'][c][e], c, e)))
    if case['model'] == 'homog' and log['hom']:
        h = log['hom'][rng.randrange(len(log['hom']))]
        if h['c'] < len(log['raw']):
            try:
                J, U, Jv, subst = ref_homog(h, case['names'], dz, case['heps'])
                for _ in range(3):
                    j = rng.randrange(N - 1)
                    line = 'dif.vframe %s %s %s' % (enc_ilist(subst), enc_list(J[:, j]), enc_list(U[:, j]))
                    out.append(('vframe', line, (log['raw'][h['c']][:, j + 1], float(np.abs(J[:, j]).sum()), h['c'], j)))
            except (ValueError, FloatingPointError):
                pass
    if log.get('entry') is not None and log.get('tables_setup') is not None:
        out.append(('bcops', bcops_line(case, E), (log['entry'], log['tables_setup'])))
    return out


def bcops_line(case, E):
    """the entering calls of the case for the model driver (values as actually passed)"""
    fs = _flux_scale(case, mesh_dz(case)) if 'model' in case else case['fs']
    def val(kind, v):
        return float(v * fs) if kind == 'flux' else (float(v) if kind in ('comp', 'badtype') else 0.0)
    T = {'flux': 'F', 'flux0': 'F', 'comp': 'C', 'badtype': 'X'}
    ops = bcops_of(case)
    toks = ['dif.bcops', str(E), str(E + 1), vlib.enc_bool(bool(case.get('ctor', False))), str(len(ops))]
    for op in ops:
        if op[0] in ('setBC', 'setBC-none'):
            _, lk, lv, rk, rv, _, e = op
            toks += ['B', T[lk], f2b(val(lk, lv)), T[rk], f2b(val(rk, rv)), str(-1 if op[0] == 'setBC-none' else e)]
        else:
            ep, sd, _, k, v, _, e = op
            side = {'L': 'L', 'R': 'R', 'bad': 'X'}[sd]
            if ep == 'set':
                toks += ['S', side, T[k], f2b(val(k, v)), str(e)]
            else:
                toks += ['L' if ep == 'setLeft' else 'R', T[k], f2b(val(k, v)), str(e)]
    return ' '.join(toks)


def _read_store(t, K):
    out = {}
    for key in [-1] + list(range(K)):
        for side in range(2):
            ty = t.tok(); v = t.tok()
            if (ty == '-') != (v == 'none'):
                return None
            if ty != '-':
                out[(key, side)] = (int(ty), vlib.b2f(v) if v != 'nan' else float('nan'))
    return out


def compare_bcops(res, case, answer, entry, tables_setup, E):
    t = Toks(answer)
    d = _desc(case)
    if not t.ok:
        res.disagree('dif.bcops model error ' + str(t.err), d, 'ok', t.err); return
    ops = bcops_of(case)
    flags = [t.tok() == 'T' for _ in ops]
    if flags != [bool(r) for r in entry['raised']]:
        res.disagree('entering calls: which calls raise ValueError', d, entry['raised'], flags); return
    before = _read_store(t, E + 1)
    after = _read_store(t, E + 1)
    rows = [[int(t.tok()), vlib.b2f(t.tok()), int(t.tok()), vlib.b2f(t.tok())] for _ in range(E)]
    same = t.tok()
    names = case['names']
    impl_before = _norm_snapshot(entry['snaps'][-1], names) if entry['snaps'] else {}
    if before != impl_before:
        res.disagree('boundary-condition dictionaries after the entering calls', d, {str(k): v for k, v in (impl_before or {}).items()}, {str(k): v for k, v in (before or {}).items()}); return
    if tables_setup is not None:
        impl_after = _norm_snapshot(tables_setup, names)
        if after != impl_after:
            res.disagree('boundary-condition dictionaries after setupDefaults', d, {str(k): v for k, v in (impl_after or {}).items()}, {str(k): v for k, v in (after or {}).items()}); return
        for e in range(E):
            el = names[e + 1]
            impl_row = [tables_setup['leftBCtype'].get(el), tables_setup['leftBC'].get(el), tables_setup['rightBCtype'].get(el), tables_setup['rightBC'].get(el)]
            if impl_row != rows[e]:
                res.disagree('conditions read for element %d' % e, d, impl_row, rows[e]); return
    if same != 'T':
        res.disagree('applyOps (fold) differs from the call-by-call model state', d, 'T', same)
    res.count('entry-histories-vs-model')


def compare_aux(res, case, kind, answer, ref):
    if kind == 'bcops':
        compare_bcops(res, case, answer, ref[0], ref[1], len(case['names']) - 1); return
    t = Toks(answer)
    if not t.ok:
        res.disagree('dif.%s model error' % kind, _desc(case), 'ok', t.err); return
    if kind == 'rhs':
        aft, dx, c, e = ref
        mj = t.flts(); md = t.flts()
        if list(aft) != mj:
            res.disagree('BC-applied flux row', _desc(case, flux_call=c, element=e), list(map(float, aft)), mj)
        if not vlib.all_close(dx, md, 1e-12, 1e-300):
            res.disagree('dXdt row', _desc(case, flux_call=c, element=e), list(map(float, dx)), md)
    else:
        real, sc, c, j = ref
        mv = t.flts(); tot = t.flt()
        for k in range(1, len(mv)):
            if not close(real[k - 1], mv[k], 1e-8, sc * 1e-3):
                res.disagree('volume-frame flux (element %d face %d)' % (k - 1, j + 1), _desc(case, flux_call=c), float(real[k - 1]), mv[k])
        if abs(tot) > 1e-9 * sc * 4:
            res.disagree('model volume-frame sum not 0', _desc(case, flux_call=c), 0.0, tot)


def fingerprint(case, log):
    return (case['model'], case['scheme'], log['N'], log['E'], case['therm'], case['tseed'])


def one_case(ctx, case, factory, oracle_only):
    """everything for one generated case into a private Result (merged by `process` only when the whole case went through)"""
    res = Result()
    with warnings.catch_warnings():
        warnings.simplefilter('ignore')       # RK4 stage states below 0 give log(negative) in the real code: counted as nonfinite-run-skipped
        log = run_real(case, factory)
    log.pop('model')
    E, N = log['E'], log['N']
    nsteps = len(log['steps'])
    types = sorted({('comp' if r[0] else ('flux' if r[1] != 0 else 'closed')) for r in log['spec']} | {('comp' if r[2] else ('flux' if r[3] != 0 else 'closed')) for r in log['spec']})
    res.case(fingerprint(case, log), nsteps > 0 and case['pkind'] != 'sum>1')
    res.count('model:' + case['model']); res.count('scheme:' + case['scheme']); res.count('therm:' + case['therm'])
    res.count('E=%d' % E); res.count('N<=5' if N <= 5 else 'N<=20' if N <= 20 else 'N<=80' if N <= 80 else 'N>80')
    res.count('profile:' + case['pkind']); res.count('temp:' + case['temp'][0])
    for ty in types:
        res.count('bc:' + ty)
    for steps in case['profile']:
        res.count('builder:' + steps[-1][0])
    res.count('solve-calls=%d' % sum(1 for o in log['ops'] if o['kind'] == 'solve'))
    res.count('steps', nsteps); res.count('flux-evaluations', len(log['raw']))
    if case['model'] == 'homog':
        res.count('hfunc:' + case['hfunc'])
        if any(n in INTERSTITIALS for n in case['names']):
            res.count('homog-with-interstitial')
    if nsteps and log['ops'] and log['ops'][0]['x_setup'] is not None:
        res.sample(dict(case=_desc(case), steps=nsteps, dt=[s['dt'] for s in log['steps'][:3]],
                        sum_first=[float(v) for v in log['ops'][0]['x_setup'].sum(axis=1)],
                        sum_last=[float(v) for v in log['ops'][-1]['x_after'].sum(axis=1)]))
    raised = bool(log['ops']) and log['ops'][-1]['status'] != 'ok'
    finite = all(np.all(np.isfinite(r)) for r in log['raw']) and all(np.all(np.isfinite(st['xraw'])) for st in log['steps'])
    # NaN states are outside the statement; so are their consequences in later calls (NaN column sums trip the sum check,
    # the stub equilibrium returns no composition set for a NaN composition, ...)
    # (any logged non-finite value precedes a later raise, so such a raise is a consequence, not a finding)
    if not finite:
        res.count('nonfinite-run-skipped')
        return res, None
    oracle(res, case, log)
    item = None
    if not oracle_only and finite and not any(v['key'].startswith('raises:') for v in res.violations) and all(r.shape == (E, N + 1) for r in log['raw']) and all('xnew' in st for st in log['steps'][:-1]):
        aux = aux_lines(case, log, ctx.rng)
        item = (case, log, aux, [driver_line(case, log)] + [a[1] for a in aux])
    return res, item


def process(ctx, res, cases, oracle_only=False, factory=None):
    """run the real code on the cases, oracle, and (unless oracle_only) replay through the model driver.
    Every case runs in its own guard: an exception out of the code under test is a violation carrying the case, the run goes on;
    an exception of the harness is collected and re-raised by vlib.finish_guard only if nothing was found."""
    batch, lines = [], []
    for case in cases:
        ok, val = vlib.guarded(res, 'diffusion-run', _desc(case), one_case, ctx, case, factory, oracle_only)
        if not ok:
            res.case(('raised', case.get('model'), case.get('tseed')), False)
            res.count('case-raised')
            continue
        local, item = val
        res.merge(local)
        del res.samples[3:]
        if item is not None:
            c, lg, aux, ls = item
            batch.append((c, lg, len(lines), aux))
            lines += ls
        if len(batch) >= 40:
            vlib.guarded(res, 'driver-replay', None, _flush, res, batch, lines)
            batch, lines = [], []
    if batch:
        vlib.guarded(res, 'driver-replay', None, _flush, res, batch, lines)


def _flush(res, batch, lines):
    ans = vlib.run_driver(PROP, lines)
    for (c, lg, pos, aux) in batch:
        compare_model(res, c, lg, ans[pos])
        for q, a in enumerate(aux):
            compare_aux(res, c, a[0], ans[pos + 1 + q], a[2])


# ============================================================================ entering calls alone (no thermodynamics)
def gen_entry_case(rng):
    ncomp = rng.choice([2, 2, 3, 3, 4])
    E = ncomp - 1
    names = rng.sample(SUBST, ncomp)
    L = 10 ** rng.uniform(-5, -2)
    bc = gen_bc(rng, E)
    return dict(kind='bcentry', names=names, N=rng.randint(3, 12), z0=rng.choice([0.0, -L / 2]), L=L,
                minC=rng.choice([1e-8, 1e-8, 1e-6, 1e-3]), bc=bc,
                bcops=gen_bcops(rng, bc, E, noise_p=0.45, malformed=rng.random() < 0.25, none_key=rng.random() < 0.2),
                ctor=rng.random() < 0.5, fs=10 ** rng.uniform(-12, -6), fseed=rng.getrandbits(32),
                lin=[[_val(rng, 0.9 / E), _val(rng, 0.9 / E)] for _ in range(E)], via_model_setters=rng.random() < 0.5)


def run_entry(case):
    """entering calls on the real BoundaryConditions / DiffusionModel, then setup() and one applyBoundaryConditionsToFluxes"""
    vlib.use_repo()
    from kawin.diffusion.Diffusion import DiffusionModel
    names = case['names']; E = len(names) - 1; N = case['N']
    bc0, pending = enter_first(case, names, case['fs'])
    m = DiffusionModel([case['z0'], case['z0'] + case['L']], N, names, ['ALPHA'], boundaryConditions=bc0)
    m.constraints.minComposition = case['minC']
    for e in range(E):
        if case['via_model_setters']:
            m.setCompositionLinear(case['lin'][e][0], case['lin'][e][1], names[e + 1])
        else:
            m.compositionProfile.addLinearCompositionStep(names[e + 1], case['lin'][e][0], case['lin'][e][1])
    entry = enter_rest(pending, m, m.boundaryConditions)
    with contextlib.redirect_stdout(io.StringIO()):
        m.setup()
    tables = snapshot(m.boundaryConditions)
    raw = np.random.default_rng(case['fseed']).uniform(-1, 1, (E, N + 1)) * case['fs']
    aft = raw.copy()
    m.boundaryConditions.applyBoundaryConditionsToFluxes(m.elements, aft)
    rec0 = np.array(m._recordedX[0], copy=True) if m._recordedX is not None else None
    return dict(entry=entry, tables=tables, x=m.x.copy(), raw=raw, aft=aft, rec0=rec0, same_object=(bc0 is None or m.boundaryConditions is bc0), nAll=len(m.allElements))


def entry_case_oracle(res, case, out):
    names = case['names']; E = len(names) - 1; N = case['N']; minC = case['minC']
    if entry_oracle(res, case, out['entry'], E, case['fs'], out['tables']):
        return          # what the run does with wrongly stored tables is a consequence
    if not out['same_object']:
        res.violate('bc-entry-constructor-object-not-used', 'the BoundaryConditions object passed to the constructor is not the one the model uses', _desc(case))
    ref = ref_bc_tables(case['bcops'], E)
    spec = spec_from_tables(ref[-1][0] if ref else {}, E, case['fs'])
    d = _desc(case)
    x, raw, aft = out['x'], out['raw'], out['aft']
    for e in range(E):
        lt, lv, rt, rv = spec[e]
        a, b = case['lin'][e]
        wl = ref_shift_clamp(lv if lt == 1 else a, minC, out['nAll'])
        wr = ref_shift_clamp(rv if rt == 1 else b, minC, out['nAll'])
        if not close(x[e, 0], wl, 1e-12):
            res.violate('comp-bc-left-initial-node' if lt == 1 else 'left-initial-node-overwritten', 'element %d: left node after setup is %.12g, expected %.12g' % (e, x[e, 0], wl), d, float(x[e, 0]), wl)
        if not close(x[e, N - 1], wr, 1e-12):
            res.violate('comp-bc-right-initial-node' if rt == 1 else 'right-initial-node-overwritten', 'element %d: right node after setup is %.12g, expected %.12g' % (e, x[e, N - 1], wr), d, float(x[e, N - 1]), wr)
        want_l = lv if lt == 0 else raw[e, 1]
        want_r = rv if rt == 0 else raw[e, N - 1]
        if aft[e, 0] != want_l:
            res.violate('%s-bc-left-face' % ('flux' if lt == 0 else 'comp'), 'element %d: left end face is not %s' % (e, 'the left flux value' if lt == 0 else 'the neighbouring face'), d, float(aft[e, 0]), float(want_l))
        if aft[e, N] != want_r:
            res.violate('%s-bc-right-face' % ('flux' if rt == 0 else 'comp'), 'element %d: right end face is not %s' % (e, 'the right flux value' if rt == 0 else 'the neighbouring face'), d, float(aft[e, N]), float(want_r))
        if not np.array_equal(aft[e, 1:N], raw[e, 1:N]):
            res.violate('interior-face-modified', 'element %d: boundary conditions changed an interior face' % e, d)


def one_entry_case(ctx, case):
    res = Result()
    out = run_entry(case)
    ops = case['bcops']
    res.case(('bcentry', tuple(case['names']), case['fseed']), len(ops) > 0)
    res.count('entry-cases')
    res.count('entry-object:' + ('constructor-argument' if case['ctor'] else 'made-by-the-model'))
    if any(ref[1] for ref in ref_bc_tables(ops, len(case['names']) - 1)):
        res.count('entry-cases-with-invalid-calls')
    if any(op[-1] == len(case['names']) - 1 for op in ops):
        res.count('entry-cases-with-foreign-name')
    entry_case_oracle(res, case, out)
    return res, out


def entry_cases(ctx, res, n, oracle_only=False):
    batch, lines = [], []
    for _ in range(n):
        case = gen_entry_case(ctx.rng)
        ok, val = vlib.guarded(res, 'bc-entry', _desc(case), one_entry_case, ctx, case)
        if not ok:
            res.count('case-raised'); continue
        local, out = val
        res.merge(local)
        del res.samples[3:]
        if not oracle_only:
            batch.append((case, out)); lines.append(bcops_line(case, len(case['names']) - 1))
    if batch:
        def fl():
            ans = vlib.run_driver(PROP, lines)
            for (c, o), a in zip(batch, ans):
                compare_bcops(res, c, a, o['entry'], o['tables'], len(c['names']) - 1)
        vlib.guarded(res, 'driver-replay', None, fl)


_REAL = {}


def real_db_factory(case):
    """real pycalphad thermodynamics (kawin/tests/datasets): Ni-Cr-Al single-phase couple, Fe-Cr-Ni homogenization couple"""
    vlib.use_repo()
    from kawin.thermo import GeneralThermodynamics
    from kawin.tests.datasets import NICRAL_TDB, FECRNI_DB
    from kawin.diffusion import SinglePhaseModel, HomogenizationModel
    names, N = case['names'], case['N']
    zlim = [case['z0'], case['z0'] + case['L']]
    if case['real_db'] == 'NiCrAl-single':
        th = _REAL.get('nicral') or _REAL.setdefault('nicral', GeneralThermodynamics(NICRAL_TDB, names, ['FCC_A1']))
        m = SinglePhaseModel(zlim, N, names, ['FCC_A1'], thermodynamics=th)
    else:
        th = _REAL.get('fecrni') or _REAL.setdefault('fecrni', GeneralThermodynamics(FECRNI_DB, names, ['FCC_A1', 'BCC_A2']))
        m = HomogenizationModel(zlim, N, names, ['FCC_A1', 'BCC_A2'], thermodynamics=th)
        m.setMobilityFunction(case['hfunc']); m.setIdealEps(case['heps'])
    for e, steps in enumerate(case['profile']):
        st = steps[0]
        if st[0] == 'step':
            m.setCompositionStep(st[1], st[2], st[3], names[e + 1])
        else:
            m.setCompositionLinear(st[1], st[2], names[e + 1])
    m.setTemperature(case['temp'][1])
    spec = []
    for e, sides in enumerate(case['bc']):
        row = []
        for k, v in sides:
            row += [1 if k == 'comp' else 0, float(v)]
        spec.append(row)
        m.setBC(row[0], row[1], row[2], row[3], element=names[e + 1])
    return m, spec, th


def real_db_list():
    base = dict(minC=1e-8, pkind='normal', bcapi='setBC', maxDtFrac=1, record=True, therm='pycalphad', tseed=0, scale=0.0,
                nphases=2, hpost='none', mobless=False)
    a = dict(base, real_db='NiCrAl-single', model='single', names=['NI', 'CR', 'AL'], N=20, z0=-1e-3, L=2e-3,
             profile=[[['step', 0.077, 0.359, 0.0]], [['step', 0.054, 0.062, 0.0]]],
             bc=[[['flux0', 0.0], ['comp', 0.3]], [['flux', 1e-12], ['flux0', 0.0]]],
             scheme='rk4', ops=[['solve', 3, 1.0], ['solve', 2, 1.0], ['setup'], ['solve', 2, 1.0]], temp=['iso', 1473.15, 0, 0],
             hfunc='wiener upper', heps=0.05)
    b = dict(base, real_db='FeCrNi-homog', model='homog', names=['FE', 'CR', 'NI'], N=12, z0=-5e-4, L=1e-3,
             profile=[[['linear', 0.257, 0.423]], [['linear', 0.065, 0.276]]],
             bc=[[['flux0', 0.0], ['flux0', 0.0]], [['comp', 0.07], ['flux0', 0.0]]],
             scheme='euler', ops=[['solve', 3, 1.0], ['solve', 3, 1.0], ['solve', 2, 1.0]], temp=['iso', 1373.15, 0, 0],
             hfunc='hashin lower', heps=0.01)
    c = dict(a, scheme='euler', bc=[[['flux0', 0.0], ['flux0', 0.0]], [['default', 0.0], ['default', 0.0]]], ops=[['solve', 4, 1.0]] * 3)
    return [a, b, c]


def real_db_cases(ctx, res, oracle_only=False):
    """thorough: the full logged-run check on real pycalphad thermodynamics"""
    import time
    t0 = time.time()
    process(ctx, res, real_db_list(), oracle_only, factory=real_db_factory)
    res.count('real-db-cases', 3)
    res.extra['real_db_seconds'] = round(time.time() - t0, 1)


def corr(ctx, ncases=None, oracle_only=False):
    res = Result()
    res.rule = ('random diffusion couples on the real SinglePhaseModel/HomogenizationModel with stub thermodynamics: model kind x 2-4 components x 3-200 nodes x '
                'profile builders x per-element/side BC (default, flux 0, flux value, composition) x temperature kind x iterator x 1-5 solve calls (+ bare setup calls) x 1-8 steps each; '
                'non-trivial = at least one accepted step on a valid profile; distinct = (model, iterator, N, E, stub kind, stub seed). '
                'Profile values also drawn from the regimes relative to minComposition (0, below min, min, inside (min,(n+1)min), its ends, just above, near 1-min, 1) for minComposition 1e-10..1e-3; '
                'boundary conditions entered through histories of setBoundaryCondition (constants / strings), setLeft/RightBoundaryCondition, DiffusionModel.setBC, on an object made by the model or passed to the constructor, '
                'with overwritten earlier calls and names that are not elements; + histories of entering calls alone (incl. invalid side / type strings, setBC without element) on a bare DiffusionModel')
    res.monitored = list(MONITORED)
    n = ncases or ctx.n(420, 9000)
    cases = [gen_case(ctx.rng, ctx.thorough) for _ in range(n)]
    process(ctx, res, cases, oracle_only or not ctx.driver_ok)
    entry_cases(ctx, res, ctx.n(250, 4000) if ncases is None else max(100, ncases // 2), oracle_only or not ctx.driver_ok)
    if ctx.thorough and not oracle_only:
        try:
            real_db_cases(ctx, res, oracle_only or not ctx.driver_ok)
        except Exception as e:
            import traceback
            res.extra['real_db_error'] = traceback.format_exc()[-800:]
            res.count('real-db-error')
    vlib.finish_guard(res)
    return res


def search(ctx, broken):
    """something no longer checks: look for a failing input with the oracle alone on a larger sample"""
    return corr(ctx, ncases=ctx.n(400, 5000), oracle_only=True)


def replay(ctx, entry):
    c = entry['violation']['case']
    if 'model' not in c and isinstance(c.get('case'), dict):
        c = c['case']                      # violation made by vlib.guarded: {case, raised_at}
    if 'real_db' in c:
        r = Result(); ctx.driver_ok = False; real_db_cases(ctx, r, oracle_only=True)
    elif c.get('kind') == 'bcentry':
        keys = ['kind', 'names', 'N', 'z0', 'L', 'minC', 'bc', 'bcops', 'ctor', 'fs', 'fseed', 'lin', 'via_model_setters']
        case = {k: c[k] for k in keys}
        r = Result()
        ok, val = vlib.guarded(r, 'bc-entry', _desc(case), one_entry_case, ctx, case)
        if ok:
            r.merge(val[0])
    else:
        keys = ['model', 'names', 'N', 'z0', 'L', 'minC', 'profile', 'pkind', 'bc', 'bcapi', 'bcops', 'ctor', 'scheme', 'ops', 'temp', 'therm', 'tseed',
                'scale', 'maxDtFrac', 'record', 'hfunc', 'heps', 'nphases', 'hpost', 'mobless']
        case = {k: c[k] for k in keys if k in c}
        r = Result()
        ctx.driver_ok = False
        process(ctx, r, [case], oracle_only=True)
    for v in r.violations[:8]:
        print('  ', v['key'], v['what'], v['observed'], v['required'])
    vlib.finish_guard(r)
    return not r.violations
