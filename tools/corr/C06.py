"""C06 — integrator order.

regenerate(): runs the REAL ExplicitEulerIterator / RK4Iterator (through the real DESolver
`_getdXdt` / `_updateX` wrappers) on symbolic t, dt, X with a right-hand side that records the time
and state it is called with and returns a fresh symbol; the Butcher tableau (A, b, c) the code
implements is read off as exact rationals and written to lean/KawinV/Gen/C06Tableau.lean.  The
theorems in Props/C06.lean are about that generated tableau.

corr(): (1) the compiled tableau and the hand model of the iterators (KawinV.Solver.rk4Iter /
eulerIter / rkStep) against the real iterators on ordinary doubles (results, callback times and
states, input vector afterwards); (2) direct oracle: convergence-order estimation on autonomous
and non-autonomous problems with closed-form solutions through the real solver, the recorded
callback times, and "the iterator does not modify the vector it was given";
(3) through the solver (DESolver / GenericModel.solve / Couplers): composite vector valued systems
whose state list mixes scalars and arrays in every order ([x, v] as two floats, [float, array],
[array, float, array], NumPy scalars), step proposals L/(n + frac) so that the simulation time is
not a multiple of the step, minDtFrac from 1e-8 to 0.3 (incl. 1e-3, 2e-3, 4e-3), t0 != 0:
end-state/trajectory exactness at the time the solver reports (Euler on constants, Runge-Kutta on
polynomials in t up to degree 3: theorems solve_euler_exact_const / solve_rk4_exact_cubic about
the loop with the state carried along, compared through the driver verb rk.solve) and observed
order down to the finest step the minimum fraction permits;
(4) OWNERSHIP of the arrays a model hands back: getdXdt returning a fresh array / the SAME reused work array(s) on every
call / views of one internal buffer, through a bare DESolver (identity flatten), GenericModel with the default flattenX
(one 1-D array, several arrays, arrays and scalars), with a copying override and with DiffusionModel's np.reshape (view)
override on 2-D states, and as a Coupler sub-model: every stage argument and accepted state against ref_solve (the loop
and both schemes in plain Python floats on copies, 1e-13), observed order for every variant, the model's own state arrays
untouched; model: rk4IterBuf (rk.buf), theorems rk4IterBuf_any, witness rk4IterBufNoCopy_shared_*;
(5) SCALAR TYPES: getDt answering as float / np.float64 / np.float32 / np.float16 / 0-d arrays / int, start and
simulation time as float / int / np.float32 / np.float64: every time and step a callback sees is a double, the clock is
the double-precision sum of the steps that advanced the state (correctdXdt's dt; math.fsum), stage times are t, t+dt/2,
t+dt/2, t+dt of that dt, the run ends at tf, steps/stage arguments/states equal ref_solve on the VALUES, order per type;
model: solveXR rnd (rk.solvefmt 64|32|16), theorems clock_state_same_dt, solveXR_clock_sum, witness coarse_clock_drifts.
(6) SOLVER HISTORIES on ONE model object: 2-4 GenericModel.solve calls with solverType in {EXPLICITEULER, RK4, a user-supplied
iterator (explicit midpoint)}, each with its own simTime / minDtFrac / maxDtFrac / step proposal, with and without a model-level
reset in between, continuing from the model's current time, on a GenericModel subclass and on Couplers of 2 and 3 models, one or
two objects of the same class with interleaved calls: per call the stage pattern at the derivative callback (evaluations per
accepted step and their times), every stage argument and accepted state against ref_solve for the scheme REQUESTED IN THAT CALL
from the state the previous call left, and the observed order of the call's own segment; model: solveCalls / solveCall / Scheme
(rk.hist), theorems each_call_uses_its_scheme, call_is_single_run, call_rk4_exact_cubic, witness cached_solver_ignores_scheme.
(7) STATE DTYPES: the model's state in int64 / int32 / float32 / float16 / float64 arrays, Python lists of ints, Python / NumPy
integer scalars and mixtures, initial values whole numbers (dyadic for the float formats): trajectory = ref_solve on
float(values), solver-computed states are floating point, the model's own arrays untouched, order 1 / 4; model:
Flatten.unflattenTyped / deliver, rk4IterVia / eulerIterVia / passVia (rk.dtype), theorems deliver_eq,
iterators_through_typed_state, witness casting_unflatten_freezes.
"""
import math
import os
from fractions import Fraction
import numpy as np
import vlib
from vlib import Result, enc_list, f2b, Toks, close

PROP = 'C06'
META = {
    'level_text': 'Lean 4 theorems about the Butcher tableau that is extracted from the real iterators on every run (symbolic execution of ExplicitEulerIterator/RK4Iterator through DESolver._getdXdt/_updateX): stage times (0,1/2,1/2,1) and c_i = sum_j a_ij, all 8 order conditions up to order 4 (and failure of an order-5 / order-2 condition, so the orders are exactly 4 and 1), exact integration of y\'=t^k (k<=3) with error exactly dt^5/120 for k=4, the stability polynomial on y\'=lambda*y, equality of the hand model of the iterator code with the general Runge-Kutta step of the generated tableau for every right-hand side, and equality of the tableau seen by the getdXdt/postProcess callbacks of a model driven by GenericModel.solve and by every sub-model of a Coupler of 2 and of 3 differently shaped models (also generated by symbolic execution of the real glue: DESolver.solve/_getdXdt/_updateX, flattenX/unflattenX, Coupler.getdXdt/getDt/correctdXdt/postProcess) with the tableau of the iterator; exactness THROUGH the solve loop with the state carried along (KawinV.Solver.runX: the clock advances by the step the iterator was given): after any run, for every proposal function, min/max step fraction and stop schedule, Euler on y\'=c and Runge-Kutta on cubics in t give the exact solution at the time handed to postProcess (runX_telescope, solveX_telescope, solve_euler_exact_const, solve_rk4_exact_cubic); the compiled tableau and the hand model are compared with the real iterators on every run, the loop-with-state model with real runs through DESolver / GenericModel.solve / Couplers in state layouts mixing scalars and arrays (rk.solve), and the observed convergence order, callback times and input-vector preservation are checked directly on the real solver, through DESolver, GenericModel.solve and Couplers of 2-3 models (callback times of every sub-model). Ownership: rk4IterBuf models RK4Iterator for a right-hand side that evaluates into ONE reused work array, with the flatten function between model and iterator copying (np.hstack / np.concatenate, Flatten.flattenOwnership) or sharing (identity, reshape view): the iterator\'s private copy of k1 makes the step the Runge-Kutta step of the generated tableau in both cases (rk4IterBuf_any, rk4IterBuf_eq_rkStep); the iterator without that copy is first order with a shared array (witness rk4IterBufNoCopy_shared_linear/_defect/_quadrature: defect exactly z^2 y/12 per step). Number formats: solveXR rnd is the loop for a model that answers getDt in a format with rounding function rnd (the value is converted once by float(dt)); for EVERY rnd one dt advances clock, stage times and state (clock_state_same_dt), the clock is t0 + the sum of the accepted steps (solveXR_clock_sum, solveXR_state_clock) and exactness through the loop holds (solveXR_rk4_exact_cubic); a clock kept in a coarser format drifts from the sum of steps (witness coarse_clock_drifts over Q). Both are compared with the real code on every run (rk.buf on single steps with identity and np.hstack flatten; rk.solvefmt 64/32/16 on whole runs through DESolver, GenericModel.solve and a Coupler with getDt answering as float, np.float64, np.float32, np.float16, 0-d arrays, int). Histories: solveCalls is a history of GenericModel.solve calls on one model object (Scheme = what DESolver.setIterator dispatches on: the two built-in iterators or a user-supplied one; per call its own simulation time, step fractions, answers of the model, optional model-level reset): for EVERY history the model after call k is one run (solveX) of the scheme requested in call k from what call k-1 left (each_call_uses_its_scheme, call_is_single_run), a call that requests Runge-Kutta is exact on cubics over its own segment whatever was requested before (call_rk4_exact_cubic, call_euler_exact_const); a solver object cached from the first call integrates later calls with the first scheme (witness cached_solver_ignores_scheme / _continuation over Q; solveCallsCached_eq_of_same_scheme with the excluding hypothesis); compared with real histories on GenericModel subclasses and Couplers (rk.hist: model time, state, number of right-hand-side evaluations per call). State dtypes: Flatten.unflattenTyped is unflattenX for a reference state whose items carry a storage type (int64, int32, float32, float16, float64) - the type is not consulted, deliver (flattenX after unflattenX) is the identity on vectors of the state\'s length (deliver_eq), hence for every typed state the iterators as the callbacks see them (rk4IterVia / eulerIterVia / passVia of KawinV.Solver Part 7) are the iterators on the plain values (iterators_through_typed_state); a variant that casts arrays back to the reference type freezes an integer state (witness casting_unflatten_freezes over Q; deliverCast_f64 with the excluding hypothesis); compared with real runs on integer / reduced-precision / list / scalar-int states (rk.dtype).',
    'level_note': 'Trusted: Lean kernel + Mathlib, axioms propext/Classical.choice/Quot.sound; Butcher\'s theorem (order conditions => order of accuracy) is cited, not formalised; the symbolic extraction (tools/corr/C06.py Poly) is validated numerically against the real iterators on each run; "iterator does not modify its input" is a purity statement in the model (trivial theorem) and is enforced by the direct oracle on NumPy arrays, including right-hand sides that return their argument object; exact-field arithmetic instead of IEEE doubles.',
    'technique': 'symbolic extraction of the Butcher tableau from the code + Lean 4 proof on the generated data + differential correspondence + convergence-order oracle',
    'design_ref': 'DESIGN.md section 6, C06',
}
LEAN_MODULES = ['KawinV.Props.C06']
MONITORED = ['observed convergence order on the sampled problem family, also for vector valued systems in state layouts mixing scalars and arrays, minDtFrac 1e-8 ... 4e-3 and simulation times that are not multiples of the step (Butcher\'s theorem is cited, not formalised)',
             'input vector unchanged on NumPy arrays (aliasing is outside the pure model)',
             'which flatten functions hand back memory of their argument (np.shares_memory measured on the real functions on every run, histogram ownership-of-flatten:*; the model constants Flatten.flattenOwnership etc. are compared with it and a difference is counted, not flagged: after repair be993b1 the step no longer depends on it)',
             'Python types of the times and steps the callbacks receive (float / np.float64 required); bitwise-level agreement (4 ulp on times, 1e-13 on states) with the reference loop in Python floats',
             'histories of solve calls: stage pattern / stage arguments / accepted states of every call against the reference for the scheme requested in that call, order of every call\'s own segment (sampled histories of 2-4 calls, 1-2 objects of one class)',
             'storage type of the state handed to the FIRST callback of a run (it is the model\'s own state: integer for an integer array; counted in state-dtype:first-callback-gets:*, not flagged); all later states must be floating point']
ASSUMPTIONS = [
    'smooth right-hand sides, step sizes in the asymptotic regime and above round-off (order estimates from step-halving)',
    'the right-hand side does not overwrite the state arrays it is HANDED (a getdXdt that computes in place into its argument breaks the caller\'s state in any ODE library; such models are run and counted under observed-only:rhs-overwrites-argument, never flagged); reusing its own OUTPUT buffer between calls is allowed and checked',
    'correctdXdt is the default no-op when the order is measured (a correction changes the method)',
    'state-dtype cases: the model returns its derivative in double precision whatever storage type its state arrays have (a getdXdt that evaluates into an integer or float32 array rounds by itself)',
    'history cases: the model keeps the time and state postProcess hands it and returns them from getCurrentX; a model-level reset restores the initial time and state only (no solver settings live on the model)',
]
TRUSTED = ['Butcher (1963/2008): the 8 order conditions imply local error O(dt^5) for smooth right-hand sides']

GEN_FILE = os.path.join(vlib.LEAN, 'KawinV', 'Gen', 'C06Tableau.lean')


# ====================================================================== symbolic extraction
class TranslatorError(Exception):
    pass


def _lit(x):
    if isinstance(x, Fraction):
        return x
    if isinstance(x, (bool, int, np.integer)):
        return Fraction(int(x))
    if isinstance(x, (float, np.floating)):
        from py2lean.sym import lit_of_float
        fr = lit_of_float(float(x))
        if fr.denominator > 10 ** 6:
            g = Fraction(float(x)).limit_denominator(10 ** 5)
            if float(g) == float(x):
                return g
        return fr
    raise TypeError(type(x))


class Poly:
    """polynomial in named atoms with exact rational coefficients, plus the concrete double of the
    traced run (comparisons are decided on it, as in tools/py2lean/sym.py)"""
    __array_priority__ = 1000

    def __init__(self, terms, val):
        self.terms = {m: c for m, c in terms.items() if c != 0}
        self.val = float(val)

    @staticmethod
    def atom(name, val):
        return Poly({(name,): Fraction(1)}, val)

    @staticmethod
    def of(o):
        if isinstance(o, Poly):
            return o
        c = _lit(o)
        return Poly({(): c}, float(c))

    def _add(self, o, sign):
        try:
            o = Poly.of(o)
        except TypeError:
            return NotImplemented
        t = dict(self.terms)
        for m, c in o.terms.items():
            t[m] = t.get(m, 0) + sign * c
        return Poly(t, self.val + sign * o.val)

    def __add__(self, o): return self._add(o, 1)
    __radd__ = __add__
    def __sub__(self, o): return self._add(o, -1)
    def __rsub__(self, o): return (-self)._add(o, 1)
    def __neg__(self): return Poly({m: -c for m, c in self.terms.items()}, -self.val)
    def __pos__(self): return self

    def __mul__(self, o):
        try:
            o = Poly.of(o)
        except TypeError:
            return NotImplemented
        t = {}
        for m1, c1 in self.terms.items():
            for m2, c2 in o.terms.items():
                m = tuple(sorted(m1 + m2))
                t[m] = t.get(m, 0) + c1 * c2
        return Poly(t, self.val * o.val)
    __rmul__ = __mul__

    def __truediv__(self, o):
        o = Poly.of(o)
        if set(o.terms) - {()} or not o.terms:
            raise TranslatorError('division by a non-constant: not a Runge-Kutta form')
        c = o.terms[()]
        return Poly({m: v / c for m, v in self.terms.items()}, self.val / o.val)

    def _cmp(self, o, f):
        return f(self.val, Poly.of(o).val)
    def __lt__(self, o): return self._cmp(o, lambda a, b: a < b)
    def __le__(self, o): return self._cmp(o, lambda a, b: a <= b)
    def __gt__(self, o): return self._cmp(o, lambda a, b: a > b)
    def __ge__(self, o): return self._cmp(o, lambda a, b: a >= b)
    __hash__ = None

    def __float__(self):      # `float(dt)` in DESolver._getdXdt: the symbol is replaced by its concrete value
        return self.val

    def __repr__(self):
        return 'Poly(%s)' % ' + '.join('%s*%s' % (c, '*'.join(m) or '1') for m, c in sorted(self.terms.items()))


def _time_coeff(p, tq, dtq, what):
    """c of a time expression t + c*dt.  Both t and dt can appear as the symbol or as the concrete number of the traced run
    (DESolver.solve converts t0/tf with float(), _getdXdt the clamped step): tq, dtq are those numbers as exact rationals."""
    terms = dict(Poly.of(p).terms)
    tc = terms.pop(('t',), Fraction(0))
    dc = terms.pop(('dt',), Fraction(0))
    const = terms.pop((), Fraction(0))
    if terms or tc not in (0, 1):
        raise TranslatorError('%s is not t + c*dt: %r' % (what, p))
    return dc + (const if tc == 1 else const - tq) / dtq


def _trace_once(which, dtval):
    """run the real iterator on symbols; returns dict(c=[..], A=[[..]], b=[..]) of Fractions.
    t and X are symbols; the proposed step is a symbol too, but DESolver._getdXdt hands the clamped step on as
    `float(dt)`, so inside the iterator the step is the concrete dyadic number `dtval`: coefficients are read off
    both forms (symbol `dt` or multiples of dtval), and trace_iterator() repeats the run with another dtval and
    requires the same tableau (a genuine constant in the code would not scale with dt)."""
    vlib.use_repo()
    from kawin.solver.Solver import DESolver, SolverType
    s = DESolver({'euler': SolverType.EXPLICITEULER, 'rk4': SolverType.RK4}[which])
    t, dt, x = Poly.atom('t', 0.3125), Poly.atom('dt', dtval), Poly.atom('x', 1.75)
    dtq = _lit(dtval)
    calls = []

    def f(tt, xx):
        calls.append((Poly.of(tt), Poly.of(xx)))
        return Poly.atom('k%d' % (len(calls) - 1), 0.75 + 0.125 * len(calls))

    s.setdXdtFunctions(f, s.correctdXdtNotImplemented, lambda dXdt: dt, s.flattenXNotImplemented, s.unflattenXNotImplemented)
    s._dtmin, s._dtmax, s._X0 = 1e-8, 1.0, x
    xnew, dtret = s.iterator(s._getdXdt, t, x, s._updateX)
    if not ((isinstance(dtret, Poly) and dtret.terms == {('dt',): 1}) or (not isinstance(dtret, Poly) and float(dtret) == dtval)):
        raise TranslatorError('%s: returned step is not the proposed dt: %r' % (which, dtret))
    n = len(calls)
    ks = ['k%d' % i for i in range(n)]

    def stage_coeffs(p, upto, what):
        """p must be x + dt*sum_j coef_j k_j (j < upto)"""
        p = Poly.of(p)
        terms = dict(p.terms)
        if terms.pop(('x',), None) != 1:
            raise TranslatorError('%s: %s is not X_old + ...: %r' % (which, what, p))
        out = []
        for j in range(upto):
            out.append(terms.pop(tuple(sorted(('dt', ks[j]))), Fraction(0)) + terms.pop((ks[j],), Fraction(0)) / dtq)
        if terms:
            raise TranslatorError('%s: %s has terms outside the Runge-Kutta form: %r' % (which, what, terms))
        return out

    c, A = [], []
    for i, (tt, xx) in enumerate(calls):
        terms = dict(tt.terms)
        if terms.pop(('t',), None) != 1:
            raise TranslatorError('%s: stage %d time is not t + c*dt: %r' % (which, i, tt))
        ci = terms.pop(('dt',), Fraction(0)) + terms.pop((), Fraction(0)) / dtq
        if terms:
            raise TranslatorError('%s: stage %d time is not t + c*dt: %r' % (which, i, tt))
        c.append(ci)
        A.append(stage_coeffs(xx, i, 'stage %d state' % i))
    b = stage_coeffs(xnew, n, 'result')
    return {'c': c, 'A': A, 'b': b}


def trace_iterator(which):
    T1 = _trace_once(which, 0.25)
    T2 = _trace_once(which, 0.5)
    if T1 != T2:
        raise TranslatorError('%s: coefficients do not scale with dt (not a Runge-Kutta form): %r vs %r' % (which, T1, T2))
    return T1


# ---------------------------------------------------------------- the same, seen from the MODEL side of the glue
def _read_component(which, label, tcalls, xcalls, xnew, xname, ks, dtq, tq):
    """tableau from what ONE state component of a (sub-)model callback saw:
    tcalls[i] = time of call i, xcalls[i] = that component at call i, xnew = the component handed to postProcess,
    ks[i] = name of the symbol the callback returned for this component at call i"""
    def coeffs(p, upto, what):
        p = Poly.of(p)
        terms = dict(p.terms)
        if terms.pop((xname,), None) != 1:
            raise TranslatorError('%s %s: %s is not the component it started from + ...: %r' % (which, label, what, p))
        out = []
        for j in range(upto):
            out.append(terms.pop(tuple(sorted(('dt', ks[j]))), Fraction(0)) + terms.pop((ks[j],), Fraction(0)) / dtq)
        if terms:
            raise TranslatorError('%s %s: %s has terms outside the Runge-Kutta form (other components / other models leak in?): %r' % (which, label, what, terms))
        return out
    c, A = [], []
    for i, (tt, xx) in enumerate(zip(tcalls, xcalls)):
        c.append(_time_coeff(tt, tq, dtq, '%s %s: time of callback %d' % (which, label, i)))
        A.append(coeffs(xx, i, 'state at callback %d' % i))
    return {'c': c, 'A': A, 'b': coeffs(xnew, len(tcalls), 'state handed to postProcess')}


def _sym_model(mi, layout, t, dt, rec):
    """a GenericModel whose state components are symbols; layout = list of item sizes (0 = Python scalar item,
    n > 0 = 1-D array of n components); getdXdt records (time, state) and returns fresh symbols"""
    vlib.use_repo()
    from kawin.GenericModel import GenericModel
    names = [['x%d_%d_%d' % (mi, i, j) for j in range(max(1, n))] for i, n in enumerate(layout)]

    def build(fn):
        X = []
        for i, n in enumerate(layout):
            vals = [fn(i, j) for j in range(max(1, n))]
            if n == 0:
                X.append(vals[0])
            else:
                a = np.empty(n, dtype=object)
                for j, v in enumerate(vals):
                    a[j] = v
                X.append(a)
        return X

    class M(GenericModel):
        def __init__(self):
            super().__init__()
            self.X0 = build(lambda i, j: Poly.atom(names[i][j], 1.25 + 0.25 * i + 0.125 * j))
            rec[mi] = dict(names=names, calls=[], post=None, layout=layout)

        def getCurrentX(self):
            return t, self.X0

        def getdXdt(self, tt, x):
            r = rec[mi]
            k = len(r['calls'])
            r['calls'].append((tt, [[x[i]] if n == 0 else list(x[i]) for i, n in enumerate(layout)]))
            return build(lambda i, j: Poly.atom('k%d_%d_%d_%d' % (mi, i, j, k), 0.5 + 0.0625 * (i + j + k)))

        def getDt(self, dXdt):
            return dt

        def postProcess(self, time, x):
            rec[mi]['post'] = (time, [[x[i]] if n == 0 else list(x[i]) for i, n in enumerate(layout)])
            return x, True      # one step is enough
    return M()


def _glue_once(which, dtval, layouts):
    """drive the real iterator through GenericModel.solve (one layout) or through a Coupler (several);
    returns one tableau per (sub-)model, as its getdXdt/postProcess saw the step"""
    vlib.use_repo()
    from kawin.solver.Solver import SolverType
    from kawin.GenericModel import Coupler
    tval = 0.3125 + dtval / 4       # another start time in the second trace: a constant in a time expression does not pass for c*dt or for t
    t, dt = Poly.atom('t', tval), Poly.atom('dt', dtval)
    dtq, tq = _lit(dtval), _lit(tval)
    rec = {}
    ms = [_sym_model(mi, lay, t, dt, rec) for mi, lay in enumerate(layouts)]
    st = {'euler': SolverType.EXPLICITEULER, 'rk4': SolverType.RK4}[which]
    if len(ms) == 1:
        ms[0].solve(1.0, solverType=st)
        label = 'GenericModel.solve'
    else:
        cp = Coupler(ms)
        tm = np.empty(1, dtype=object); tm[0] = t
        cp.time = tm
        cp.solve(1.0, solverType=st)
        label = 'Coupler of %d' % len(ms)
    out = []
    for mi in range(len(ms)):
        r = rec[mi]
        if r['post'] is None:
            raise TranslatorError('%s %s: postProcess of sub-model %d was not called' % (which, label, mi))
        if _time_coeff(r['post'][0], tq, dtq, '%s %s: accepted time' % (which, label)) != 1:
            raise TranslatorError('%s %s: accepted time is not t + dt: %r' % (which, label, r['post'][0]))
        tabs = []
        for i, n in enumerate(r['layout']):
            for j in range(max(1, n)):
                ks = ['k%d_%d_%d_%d' % (mi, i, j, k) for k in range(len(r['calls']))]
                tabs.append(_read_component(which, '%s, sub-model %d item %d[%d]' % (label, mi, i, j),
                                            [c[0] for c in r['calls']], [c[1][i][j] for c in r['calls']],
                                            r['post'][1][i][j], r['names'][i][j], ks, dtq, tq))
        if any(T != tabs[0] for T in tabs):
            raise TranslatorError('%s %s: state components of sub-model %d are stepped with different tableaux: %r' % (which, label, mi, tabs))
        out.append(tabs[0])
    return out


GLUE_LAYOUTS = {'viaModel': [[0, 2, 1]], 'viaCoupler2': [[0], [3]], 'viaCoupler3': [[2, 0], [0], [1, 2]]}


def trace_glue(which):
    """{'viaModel': [T], 'viaCoupler2': [T, T], 'viaCoupler3': [T, T, T]}"""
    res = {}
    for name, lays in GLUE_LAYOUTS.items():
        T1 = _glue_once(which, 0.25, lays)
        T2 = _glue_once(which, 0.5, lays)
        if T1 != T2:
            raise TranslatorError('%s %s: coefficients do not scale with dt: %r vs %r' % (which, name, T1, T2))
        res[name] = T1
    return res


def _q(fr):
    if fr.denominator == 1:
        return str(fr.numerator) if fr >= 0 else '(%d)' % fr.numerator
    return '%d/%d' % (fr.numerator, fr.denominator) if fr > 0 else '(%d/%d)' % (fr.numerator, fr.denominator)


def _ql(xs):
    return '[' + ', '.join(_q(x) for x in xs) + ']'


def _tab(T, ind='  '):
    return '%s{ c := %s,\n%s  A := [%s],\n%s  b := %s }' % (ind, _ql(T['c']), ind, ', '.join(_ql(r) for r in T['A']), ind, _ql(T['b']))


def lean_source(tabs):
    out = ['/-',
           'GENERATED on every run by tools/corr/C06.py regenerate() — do not edit.',
           'Butcher tableaux read off the real kawin code by running it on symbolic t, dt, X with recording callbacks.',
           'Row i of A holds a_{i,0..i-1}; stage i is evaluated at time t + c_i*dt.',
           '`euler` / `rk4`: kawin/solver/Iterators.py driven through DESolver._getdXdt/_updateX directly.',
           '`*_viaModel`: what the getdXdt/postProcess callbacks of a GenericModel (nested state: scalar + arrays) see',
           'when the iterator is driven by GenericModel.solve (flattenX/unflattenX, DESolver.solve).',
           '`*_viaCoupler`: what each sub-model of a Coupler of 2 and of a Coupler of 3 differently shaped models sees',
           '(Coupler.getdXdt/getDt/correctdXdt/flattenX/unflattenX/postProcess), 5 entries.',
           '-/',
           'import KawinV.Model.Solver',
           'namespace KawinV.Gen.C06',
           'open KawinV.Solver',
           '']
    doc = {'euler': 'ExplicitEulerIterator', 'rk4': 'RK4Iterator'}
    for name in ('euler', 'rk4'):
        out.append('/-- %s as implemented -/' % doc[name])
        out.append('def %s : Tableau Rat :=' % name)
        out.append(_tab(tabs[name]))
        out.append('')
    for name in ('euler', 'rk4'):
        g = tabs[name + '_glue']
        out.append('/-- %s as seen by the callbacks of a model solved with GenericModel.solve -/' % doc[name])
        out.append('def %s_viaModel : Tableau Rat :=' % name)
        out.append(_tab(g['viaModel'][0]))
        out.append('')
        out.append('/-- %s as seen by every sub-model of a Coupler (2 models, then 3 models) -/' % doc[name])
        out.append('def %s_viaCoupler : List (Tableau Rat) :=' % name)
        out.append('  [' + ',\n   '.join(_tab(T, '').replace('\n', '\n   ') for T in g['viaCoupler2'] + g['viaCoupler3']) + ']')
        out.append('')
    out.append('end KawinV.Gen.C06')
    return '\n'.join(out) + '\n'


_TABS = {}


def tableaux():
    if not _TABS:
        for w in ('euler', 'rk4'):
            _TABS[w] = trace_iterator(w)
        for w in ('euler', 'rk4'):
            _TABS[w + '_glue'] = trace_glue(w)
    return _TABS


def regenerate(ctx):
    _TABS.clear()
    src = lean_source(tableaux())
    return [os.path.relpath(GEN_FILE, vlib.VERIF)] if vlib.write_if_changed(GEN_FILE, src) else []


# ====================================================================== test problems
# Right-hand sides exist twice: here (NumPy, called by the real iterators) and in Drv/C06.lean
# (Float); ids and operation order must match.
def _rhs(ode, p, q):
    if ode == 'lin':       # y' = p*y + q*t
        return lambda t, y: p * y + q * t
    if ode == 'logistic':  # y' = p*y*(1-y)
        return lambda t, y: p * y * (1.0 - y)
    if ode == 'rot':       # y1' = -p*y2, y2' = p*y1
        return lambda t, y: np.array([-(p * y[1]), p * y[0]])
    if ode == 'tcos':      # y' = p*y*cos(q*t)
        return lambda t, y: p * y * math.cos(q * t)
    if ode == 'gauss':     # y' = -2*p*t*y
        return lambda t, y: -2.0 * p * t * y
    if ode == 'chirp':     # y1' = -p*t*y2, y2' = p*t*y1
        return lambda t, y: np.array([-(p * t * y[1]), p * t * y[0]])
    if ode == 'ty2':       # y' = p*t*y*y
        return lambda t, y: p * t * y * y
    if ode == 'poly':      # y' = (q+1)*t^q, q in 0..4
        k = int(q)
        return lambda t, y: (k + 1.0) * t ** k + 0.0 * y
    if ode == 'quad':      # y' = p*cos(q*t)
        return lambda t, y: p * math.cos(q * t) + 0.0 * y
    if ode == 'forced':    # y' = -p*y + sin(t)
        return lambda t, y: -(p * y) + math.sin(t)
    if ode == 'ident':     # y' = y, returned as THE ARGUMENT OBJECT
        return lambda t, y: y
    if ode == 'const':     # y' = p
        return lambda t, y: p + 0.0 * y
    if ode == 'cubic':     # y' = q t^3 + p t^2 + t + p
        return lambda t, y: ((q * t + p) * t + 1.0) * t + p + 0.0 * y
    raise KeyError(ode)


ODE_ID = {'lin': 0, 'logistic': 1, 'rot': 2, 'tcos': 3, 'gauss': 4, 'chirp': 5, 'ty2': 6, 'poly': 7, 'quad': 8, 'forced': 9, 'ident': 10,
          'const': 11, 'cubic': 12}
VECTOR = {'rot', 'chirp'}
AUTONOMOUS = {'logistic', 'rot', 'ident'}


def _exact(ode, p, q, t0, y0, t):
    """closed-form solution"""
    y0 = np.asarray(y0, float)
    if ode == 'lin':       # y' = p y + q t
        if p == 0:
            return y0 + q * (t * t - t0 * t0) / 2
        # particular: -(q/p) t - q/p^2
        part = lambda s: -(q / p) * s - q / (p * p)
        return (y0 - part(t0)) * math.exp(p * (t - t0)) + part(t)
    if ode == 'logistic':
        return 1.0 / (1.0 + (1.0 / y0 - 1.0) * math.exp(-p * (t - t0)))
    if ode == 'rot':
        a = p * (t - t0); c, s = math.cos(a), math.sin(a)
        return np.array([c * y0[0] - s * y0[1], s * y0[0] + c * y0[1]])
    if ode == 'tcos':
        return y0 * math.exp(p * (math.sin(q * t) - math.sin(q * t0)) / q)
    if ode == 'gauss':
        return y0 * math.exp(-p * (t * t - t0 * t0))
    if ode == 'chirp':
        a = p * (t * t - t0 * t0) / 2; c, s = math.cos(a), math.sin(a)
        return np.array([c * y0[0] - s * y0[1], s * y0[0] + c * y0[1]])
    if ode == 'ty2':
        return 1.0 / (1.0 / y0 - p * (t * t - t0 * t0) / 2)
    if ode == 'poly':
        k = int(q)
        return y0 + t ** (k + 1) - t0 ** (k + 1)
    if ode == 'quad':
        return y0 + p * (math.sin(q * t) - math.sin(q * t0)) / q
    if ode == 'forced':    # y' = -p y + sin t ; particular (p sin t - cos t)/(p^2+1)
        part = lambda s: (p * math.sin(s) - math.cos(s)) / (p * p + 1)
        return (y0 - part(t0)) * math.exp(-p * (t - t0)) + part(t)
    if ode == 'ident':
        return y0 * math.exp(t - t0)
    if ode == 'const':
        return y0 + p * (t - t0)
    if ode == 'cubic':
        return y0 + q * (t ** 4 - t0 ** 4) / 4 + p * (t ** 3 - t0 ** 3) / 3 + (t * t - t0 * t0) / 2 + p * (t - t0)
    raise KeyError(ode)


def gen_problem(rng, allow=None):
    ode = rng.choice(allow or ['lin', 'logistic', 'rot', 'tcos', 'gauss', 'chirp', 'ty2', 'poly', 'quad', 'forced', 'ident'])
    t0 = rng.choice([0.0, 0.0, 0.25, 1.0, -0.5, rng.uniform(-1, 2)])
    L = rng.choice([1.0, 0.5, 2.0, rng.uniform(0.5, 2.0)])
    p = rng.uniform(0.3, 1.5) * rng.choice([1, 1, -1])
    q = rng.uniform(0.5, 2.0)
    y0 = [rng.uniform(0.5, 2.0)]
    if ode == 'logistic':
        p = abs(p); y0 = [rng.uniform(0.1, 0.6)]
    elif ode in VECTOR:
        y0 = [rng.uniform(0.5, 2.0), rng.uniform(-1.0, 1.0)]
        p = abs(p)
    elif ode == 'ty2':
        # keep far from the pole: |p| * (tf^2 - t0^2)/2 * y0 <= 0.5
        tf = t0 + L
        span = abs(tf * tf - t0 * t0) / 2 + 0.1
        p = rng.uniform(0.2, 0.5) / (span * y0[0]) * rng.choice([1, -1])
    elif ode == 'poly':
        q = float(rng.choice([0, 1, 1, 2, 3, 4]))
    elif ode == 'forced':
        p = abs(p)
    elif ode == 'gauss':
        p = abs(p) * 0.7
    return dict(ode=ode, p=p, q=q, t0=t0, L=L, y0=y0)


# ====================================================================== running the real code
def MidpointIterator(f, t, X_old, updateX):
    """a USER-SUPPLIED iterator written against the iterator API (DESolver.setIterator takes anything that is not a
    SolverType as the iterator itself): the explicit midpoint rule, 2 evaluations per step at t and t+dt/2, order 2"""
    dxdt, dt = f(t, X_old, True)
    X_k1 = updateX(X_old, dxdt, dt / 2)
    k2 = f(t + dt / 2, X_k1)
    return updateX(X_old, k2, dt), dt


def _solver_type(which):
    from kawin.solver.Solver import SolverType
    if which == 'mid':
        return MidpointIterator
    return {'euler': SolverType.EXPLICITEULER, 'rk4': SolverType.RK4}[which]


# companions of the problem under study when it is solved as one of 2-3 coupled models (differently shaped states,
# one of them time-dependent, one autonomous)
COMPANIONS = [dict(ode='gauss', p=0.4, q=1.0, y0=[1.0, 2.5]), dict(ode='logistic', p=0.8, q=1.0, y0=[0.3])]
VIAS = ['desolver', 'model', 'coupler2', 'coupler3']
LAST_SUBMODELS = []      # filled by integrate(): (problem, callback times, accepted times) of every (sub-)model of the last run


def via_site(via):
    return 'coupler' if via.startswith('coupler') else via


def integrate(which, prob, n, via):
    """n equal steps over [t0, t0+L] through the real solver; returns (y_end, t_end, calls, accepted, traj)
    calls = list of callback times in order, accepted = list of accepted times, traj = accepted states.
    via: 'desolver' (DESolver on a flat array), 'model' (GenericModel.solve), 'coupler2'/'coupler3' (the problem is one
    of 2/3 models solved together through kawin.GenericModel.Coupler; the returned data are those of the problem's
    own sub-model, LAST_SUBMODELS has all of them)"""
    vlib.use_repo()
    from kawin.solver.Solver import DESolver
    from kawin.GenericModel import GenericModel, Coupler
    t0, L = prob['t0'], prob['L']
    dt = L / n
    del LAST_SUBMODELS[:]
    if via == 'desolver':
        # DESolver used directly on a flat array (flatten/unflatten are the identity defaults)
        f = _rhs(prob['ode'], prob['p'], prob['q'])
        calls, accepted, traj = [], [], []
        s = DESolver(_solver_type(which), minDtFrac=1e-8, maxDtFrac=1)
        state = {}

        def ff(t, x):
            calls.append(float(t)); return f(t, x)

        def post(t, x):
            accepted.append(float(t)); state['x'] = x; traj.append(np.array(x, float)); return x, False
        s.setFunctions(postProcess=post)
        s.setdXdtFunctions(ff, s.correctdXdtNotImplemented, lambda dXdt: dt, s.flattenXNotImplemented, s.unflattenXNotImplemented)
        LAST_SUBMODELS.append((prob, calls, accepted))
        s.solve(t0, np.array(prob['y0'], float), t0 + L)
        return np.asarray(state['x'], float), accepted[-1], calls, accepted, traj

    class M(GenericModel):
        def __init__(m, pr):
            super().__init__(); m.t = t0; m.y = np.array(pr['y0'], float)
            m.f = _rhs(pr['ode'], pr['p'], pr['q'])
            m.calls, m.accepted, m.traj = [], [], []
            LAST_SUBMODELS.append((pr, m.calls, m.accepted))
        def getCurrentX(m): return m.t, [m.y]
        def getdXdt(m, t, x):
            m.calls.append(float(t)); return [m.f(t, x[0])]
        def getDt(m, dXdt): return dt
        def postProcess(m, time, x):
            m.t = time; m.y = x[0]; m.accepted.append(float(time)); m.traj.append(np.array(x[0], float)); return x, False
    if via == 'model':
        m = M(prob)
        m.solve(L, solverType=_solver_type(which), minDtFrac=1e-8, maxDtFrac=1)
    else:
        comp = [dict(c, t0=t0, L=L) for c in COMPANIONS]
        if via == 'coupler2':
            first = M(comp[0]); m = M(prob); ms = [first, m]
        else:
            first = M(comp[1]); m = M(prob); ms = [first, m, M(comp[0])]
        cp = Coupler(ms)
        cp.time = np.array([t0], float)
        cp.solve(L, solverType=_solver_type(which), minDtFrac=1e-8, maxDtFrac=1)
    return np.asarray(m.y, float), m.t, m.calls, m.accepted, m.traj


def guarded(res, site, case, fn, *a, **k):
    """no exception from the code under test may abort the run: it is a finding about this input"""
    try:
        return True, fn(*a, **k)
    except Exception as e:
        import traceback
        tb = traceback.extract_tb(e.__traceback__)
        where = next(('%s:%d' % (os.path.basename(fr.filename), fr.lineno) for fr in reversed(tb) if 'kawin' in fr.filename), '')
        res.violate('code-under-test-raised-' + site, '%s raised %s: %s %s' % (site, type(e).__name__, e, where and '(at %s)' % where),
                    case, '%s: %s' % (type(e).__name__, e), 'no exception')
        return False, None


def one_step(which, prob, t, x, dt, fvariant='plain'):
    """ONE call of the real iterator through the DESolver wrappers on a NumPy vector; returns
    (xnew, calls[(t, x copy)], x_after (the array object that was passed in), reference copy)"""
    vlib.use_repo()
    from kawin.solver.Solver import DESolver
    f = _rhs(prob['ode'], prob['p'], prob['q'])
    s = DESolver(_solver_type(which))
    calls = []

    def ff(tt, xx):
        calls.append((float(tt), np.array(xx, float, copy=True)))
        r = f(tt, xx)
        if fvariant == 'view' and isinstance(r, np.ndarray):
            return r[:]
        return r
    s.setdXdtFunctions(ff, s.correctdXdtNotImplemented, lambda dXdt: dt, s.flattenXNotImplemented, s.unflattenXNotImplemented)
    s._dtmin, s._dtmax = 0.0, math.inf
    xin = np.array(x, float)
    ref = xin.copy()
    s._X0 = xin
    xnew, dtret = s.iterator(s._getdXdt, t, xin, s._updateX)
    return np.asarray(xnew, float), calls, xin, ref, dtret


def ref_step(which, f, t, x, dt):
    """independent textbook step on copies"""
    x = np.array(x, float)
    F = lambda tt, xx: np.array(f(tt, np.array(xx, float)), float) + 0.0
    if which == 'euler':
        return x + dt * F(t, x)
    k1 = F(t, x)
    k2 = F(t + dt / 2, x + dt / 2 * k1)
    k3 = F(t + dt / 2, x + dt / 2 * k2)
    k4 = F(t + dt, x + dt * k3)
    return x + dt * (k1 + 2 * k2 + 2 * k3 + k4) / 6


NOMINAL = {'euler': 1, 'rk4': 4, 'mid': 2}
EXPECT_C = {'euler': [0.0], 'rk4': [0.0, 0.5, 0.5, 1.0], 'mid': [0.0, 0.5]}      # 'mid': the harness's user-supplied MidpointIterator


def order_case(res, which, prob, via, desc=None):
    """step-halving order estimate through the real solver.  The number of steps is doubled until the
    estimate from the last two levels reaches nominal - 0.3 (asymptotic regime), or the error reaches
    round-off (no estimate possible: counted, not flagged); a violation is an estimate that stays
    below nominal - 0.3 up to the finest level (6 halvings)."""
    nom = NOMINAL[which]
    n = 32 if which == 'euler' else 8
    y0 = prob['y0'] if prob['ode'] in VECTOR else prob['y0'][0]
    errs, ns, ps = [], [], []
    scale = 1.0
    verdict = None
    for lev in range(7):
        m = n * 2 ** lev
        y, tend, calls, acc, traj = integrate(which, prob, m, via)
        # error in the maximum norm over the whole trajectory (the error at one instant can pass
        # through zero for particular parameters, which would spoil a step-halving estimate)
        e = 0.0
        for tk, yk in zip(acc, traj):
            ex = np.atleast_1d(_exact(prob['ode'], prob['p'], prob['q'], prob['t0'], y0, tk))
            e = max(e, float(np.max(np.abs(np.atleast_1d(yk) - ex))))
            scale = max(scale, float(np.max(np.abs(ex))))
        errs.append(e); ns.append(m)
        if e <= 1e-12 * scale * max(1.0, m / 64):
            verdict = 'roundoff'; break
        if lev >= 1:
            ps.append(math.log2(errs[-2] / errs[-1]))
            if lev >= 2 and ps[-1] >= nom - 0.3:
                verdict = 'ok'; break
    desc = dict(desc or {}, iterator=which, via=via, n=ns, errors=errs, **prob)
    if verdict == 'roundoff':
        res.count('order:%s:exact-to-roundoff' % which)
        return None
    pobs = ps[-1]
    res.count('order:%s:%s' % (which, 'LOWER' if verdict is None else 'nominal' if abs(pobs - nom) <= 0.3 else 'higher'))
    res.count('order:levels-needed:%d' % len(ns))
    if verdict is None:
        kind = 'autonomous' if prob['ode'] in AUTONOMOUS else 'time-dependent'
        res.violate('order-%s-%s-rhs-via-%s' % (which, kind, via_site(via)),
                    '%s iterator, solved through %s: observed convergence order %.2f on %s problem %s (errors %s for %s steps)' % (
                        which, via, pobs, kind, prob['ode'], ['%.3g' % e for e in errs], ns),
                    dict(desc, kind='order'), round(pobs, 3), '>= %d - 0.3' % nom)
    return pobs


def times_case(res, which, prob, via, n=4):
    """callback times recorded through the real solver: every step evaluates the right-hand side of EVERY (sub-)model
    at t + c_i*dt with c = (0) / (0, 1/2, 1/2, 1)"""
    integrate(which, prob, n, via)
    s = len(EXPECT_C[which])
    for mi, (pr, calls, acc) in enumerate(list(LAST_SUBMODELS)):
        starts = [prob['t0']] + acc[:-1]
        ok = len(calls) == s * len(acc) and len(acc) >= 1
        bad = None
        if ok:
            for i, (a, b) in enumerate(zip(starts, acc)):
                dt = b - a
                for j, cj in enumerate(EXPECT_C[which]):
                    want = a + cj * dt
                    got = calls[s * i + j]
                    if abs(got - want) > 1e-12 * max(1.0, abs(want), abs(dt)) + 1e-9 * abs(dt):
                        bad = dict(step=i, stage=j, called_at=got, documented=want, t=a, dt=dt, submodel=mi, submodel_ode=pr['ode'])
                        break
                if bad:
                    break
        if not ok or bad:
            res.violate('stage-times-%s-via-%s' % (which, via_site(via)),
                        '%s iterator, solved through %s: the right-hand side of (sub-)model %d is evaluated at other times than documented (t, t+dt/2, t+dt/2, t+dt): %s; first callback times %s' % (
                            which, via, mi, bad or ('%d calls for %d steps' % (len(calls), len(acc))), calls[:2 * s]),
                        dict(prob, kind='times', iterator=which, via=via, n=n), bad or calls[:2 * s], EXPECT_C[which])
            break


def alias_case(res, which, x, t, dt, fvariant, ode='ident'):
    """the iterator must not modify the vector it was given (also when f returns that very object)"""
    prob = dict(ode=ode, p=1.0, q=1.0)
    xnew, calls, xin, ref, dtret = one_step(which, prob, t, x, dt, fvariant)
    want = ref_step(which, _rhs(ode, 1.0, 1.0), t, ref, dt)
    case = dict(kind='alias', iterator=which, x=list(map(float, ref)), t=t, dt=dt, f='returns its argument object' if fvariant == 'plain' else 'returns a view of its argument', ode=ode)
    if not np.array_equal(xin, ref):
        res.violate('%s-modifies-input-vector' % which,
                    '%s iterator modified the state vector it was given (right-hand side %s): %s -> %s' % (which, case['f'], ref.tolist(), xin.tolist()),
                    case, xin.tolist(), ref.tolist())
    if not vlib.all_close(xnew, want, 1e-12, float(np.max(np.abs(want)))):
        res.violate('%s-wrong-step-when-rhs-aliases-input' % which,
                    '%s iterator: step result differs from the Runge-Kutta formula when the right-hand side %s' % (which, case['f']),
                    case, xnew.tolist(), want.tolist())


# ====================================================================== through the solver: layouts, step options
# A composite system = independent blocks from the families above, its state the concatenation y of the block states.
# A LAYOUT cuts y into the entries of the model's state list: 0 = Python float, -1 = NumPy float64 scalar, n > 0 = 1-D array
# of n components — e.g. the oscillator [x, v] as two floats ([0, 0]), [float, array] ([0, 2]), [array, float, array].
# The step proposal is h = L/(n + frac), so the simulation time is NOT a multiple of the step, and minDtFrac / maxDtFrac are
# taken from a grid that includes coarse values (1e-3 ... 4e-3 and above).  Errors are measured against the closed form AT THE
# TIME THE SOLVER REPORTS to postProcess, so any choice of steps is fine as long as the state belongs to the reported time.
MIN_FRACS = [1e-8, 1e-5, 1e-3, 2e-3, 4e-3]
NAMED_SPLITS = {1: [[0], [-1], [1]], 2: [[0, 0], [0, 1], [1, 0], [-1, 0], [2]], 3: [[0, 2], [2, 0], [1, 0, 1], [0, 0, 0], [0, 1, 0], [0, 0, 1], [3]]}


def gen_split(rng, d):
    if d in NAMED_SPLITS and rng.random() < 0.7:
        return list(rng.choice(NAMED_SPLITS[d]))
    out, rem = [], d
    while rem:
        if rng.random() < 0.5:
            out.append(rng.choice([0, 0, -1])); rem -= 1
        else:
            n = rng.randint(1, rem); out.append(n); rem -= n
    return out


def block_dim(b):
    return len(b['y0'])


def blocks_rhs(blocks):
    fs = [(_rhs(b['ode'], b['p'], b['q']), block_dim(b)) for b in blocks]

    def F(t, y):
        out, k = [], 0
        for f, d in fs:
            out.append(np.atleast_1d(np.asarray(f(t, y[k:k + d]), float)) + np.zeros(d))
            k += d
        return np.concatenate(out)
    return F


def blocks_exact(blocks, t0, t):
    out = []
    for b in blocks:
        y0 = b['y0'] if b['ode'] in VECTOR else b['y0'][0]
        out.append(np.atleast_1d(np.asarray(_exact(b['ode'], b['p'], b['q'], t0, y0, t), float)))
    return np.concatenate(out)


def split_state(y, layout):
    X, k = [], 0
    for n in layout:
        if n == 0:
            X.append(float(y[k])); k += 1
        elif n == -1:
            X.append(np.float64(y[k])); k += 1
        else:
            X.append(np.array(y[k:k + n], float)); k += n
    return X


def join_state(X):
    return np.concatenate([np.atleast_1d(np.asarray(x, float)) for x in X])


def integrate2(which, blocks, layout, t0, L, h, mn, mx, via):
    """the composite system through the real solver with step proposal h and the given step options;
    returns (accepted times, accepted flat states, number of right-hand-side calls)"""
    vlib.use_repo()
    from kawin.solver.Solver import DESolver
    from kawin.GenericModel import GenericModel, Coupler
    y0 = np.concatenate([np.asarray(b['y0'], float) for b in blocks])
    if via == 'desolver':
        F = blocks_rhs(blocks)
        acc, traj, ncall = [], [], [0]
        s = DESolver(_solver_type(which), minDtFrac=mn, maxDtFrac=mx)

        def ff(t, x):
            ncall[0] += 1; return F(t, x)

        def post(t, x):
            acc.append(float(t)); traj.append(np.array(x, float)); return x, False
        s.setFunctions(postProcess=post)
        s.setdXdtFunctions(ff, s.correctdXdtNotImplemented, lambda dXdt: h, s.flattenXNotImplemented, s.unflattenXNotImplemented)
        s.solve(t0, y0, t0 + L)
        return acc, traj, ncall[0]

    class ML(GenericModel):
        def __init__(m, bl, lay):
            super().__init__(); m.t = t0; m.lay = lay; m.F = blocks_rhs(bl)
            m.X = split_state(np.concatenate([np.asarray(b['y0'], float) for b in bl]), lay)
            m.acc, m.traj, m.ncall = [], [], 0
        def getCurrentX(m): return m.t, m.X
        def getdXdt(m, t, x):
            m.ncall += 1
            return split_state(m.F(float(t), join_state(x)), m.lay)
        def getDt(m, dXdt): return h
        def postProcess(m, time, x):
            m.t = time; m.X = list(x); m.acc.append(float(time)); m.traj.append(join_state(x)); return x, False
    m = ML(blocks, layout)
    if via == 'model':
        m.solve(L, solverType=_solver_type(which), minDtFrac=mn, maxDtFrac=mx)
    else:
        comp = [dict(c, t0=t0, L=L) for c in COMPANIONS]
        if via == 'coupler2':
            ms = [ML([comp[0]], [0, 1]), m]
        else:
            ms = [ML([comp[1]], [-1]), m, ML([comp[0]], [1, 0])]
        cp = Coupler(ms)
        cp.time = np.array([t0], float)
        cp.solve(L, solverType=_solver_type(which), minDtFrac=mn, maxDtFrac=mx)
    return m.acc, m.traj, m.ncall


def gen_blocks(rng, kind):
    """kind: 'exact-euler' (constants), 'exact-rk4' (polynomials in t up to degree 3), 'order' (smooth, vector valued)"""
    t0 = rng.choice([0.0, 0.25, 3.0, -0.5, rng.uniform(-1, 2)])
    L = rng.choice([1.0, 0.5, 2.0, rng.uniform(0.5, 2.0)])
    bl = []
    if kind == 'exact-euler':
        for _ in range(rng.choice([1, 2, 3])):
            bl.append(dict(ode='const', p=rng.uniform(-2, 2), q=1.0, y0=[rng.uniform(-2, 2)]))
    elif kind == 'exact-rk4':
        for _ in range(rng.choice([1, 2, 3])):
            o = rng.choice(['cubic', 'cubic', 'poly', 'const'])
            bl.append(dict(ode=o, p=rng.uniform(-1.5, 1.5), q=float(rng.choice([0, 1, 2, 3])) if o == 'poly' else rng.uniform(-1.5, 1.5), y0=[rng.uniform(-2, 2)]))
    else:
        fam = rng.choice([['rot'], ['rot'], ['chirp'], ['rot', 'gauss'], ['logistic', 'lin'], ['lin', 'rot'], ['forced', 'logistic', 'gauss'], ['lin'], ['chirp', 'forced']])
        for o in fam:
            pr = gen_problem(rng, allow=[o])
            bl.append(dict(ode=o, p=pr['p'], q=pr['q'], y0=pr['y0']))
    return bl, t0, L


def tcase(blocks, layout, t0, L, mn, mx, via, which, **kw):
    return dict(kw, blocks=blocks, layout=layout, t0=t0, L=L, minDtFrac=mn, maxDtFrac=mx, via=via, iterator=which)


def exact_through_case(res, c):
    """Euler on constants / Runge-Kutta on polynomials in t up to degree 3, through the solver: EVERY state handed to
    postProcess is exact at the time handed to postProcess (theorems solve_euler_exact_const, solve_rk4_exact_cubic),
    for every step option and every remainder"""
    which, via = c['iterator'], c['via']
    h = c['L'] / c['nf']
    acc, traj, ncall = integrate2(which, c['blocks'], c['layout'], c['t0'], c['L'], h, c['minDtFrac'], c['maxDtFrac'], via)
    tf = c['t0'] + c['L']
    if not acc or abs(acc[-1] - tf) > 4 * math.ulp(abs(tf)) + 4 * math.ulp(abs(c['t0'])):
        res.violate('end-time-not-reached-via-' + via_site(via), '%s through %s: the run ended at %r instead of %r' % (which, via, acc[-1] if acc else c['t0'], tf),
                    dict(c, kind='exact-through'), acc[-1] if acc else None, tf)
        return None
    worst = (0.0, None)
    for k, (tk, yk) in enumerate(zip(acc, traj)):
        ex = blocks_exact(c['blocks'], c['t0'], tk)
        scale = max(1.0, float(np.max(np.abs(ex))), abs(tk) ** 4 if which == 'rk4' else abs(tk))
        e = float(np.max(np.abs(yk - ex))) / scale if yk.shape == ex.shape else math.inf
        if e > worst[0]:
            worst = (e, k)
    tol = 1e-12 * (1 + len(acc) / 16)
    if worst[0] > tol:
        k = worst[1]
        what = 'euler-not-exact-on-constant-rhs' if which == 'euler' else 'rk4-not-exact-on-cubic-in-t'
        res.violate('%s-via-%s' % (what, via_site(via)),
                    '%s iterator through %s (state layout %s, minDtFrac=%g, maxDtFrac=%g, t0=%g, %g steps of %.6g over %g): the state handed to postProcess at accepted step %d of %d '
                    '(time %r) differs from the exact solution at that time by %.3g (relative); %s' % (
                        which, via, c['layout'], c['minDtFrac'], c['maxDtFrac'], c['t0'], c['nf'], h, c['L'], k + 1, len(acc), acc[k], worst[0],
                        "Euler integrates y' = const exactly" if which == 'euler' else 'a 4th-order method integrates polynomials in t up to degree 3 exactly'),
                    dict(c, kind='exact-through'), traj[k].tolist(), blocks_exact(c['blocks'], c['t0'], acc[k]).tolist())
    return acc, traj


def order_through_case(res, c):
    """observed order through the solver for a composite (vector valued) system in a given state layout, step proposal
    L/(n 2^k + frac), with the given minDtFrac: error over the whole trajectory against the closed form at the reported times.
    Levels stay above the minimum step, so the proposal is the step used."""
    which, via = c['iterator'], c['via']
    nom = NOMINAL[which]
    n0 = 24 if which == 'euler' else 6
    errs, ns, ps = [], [], []
    verdict, scale = None, 1.0
    maxlev = 7
    for lev in range(maxlev):
        nf = n0 * 2 ** lev + c['frac']
        if nf * c['minDtFrac'] >= 0.8:      # the proposal would be clamped to the minimum step: no further halving
            break
        h = c['L'] / nf
        acc, traj, _ = integrate2(which, c['blocks'], c['layout'], c['t0'], c['L'], h, c['minDtFrac'], c['maxDtFrac'], via)
        e = 0.0
        for tk, yk in zip(acc, traj):
            ex = blocks_exact(c['blocks'], c['t0'], tk)
            e = max(e, float(np.max(np.abs(yk - ex))) if yk.shape == ex.shape else math.inf)
            scale = max(scale, float(np.max(np.abs(ex))))
        tf = c['t0'] + c['L']
        if not acc or abs(acc[-1] - tf) > 8 * math.ulp(abs(tf) + abs(c['t0'])):
            e = math.inf
        errs.append(e); ns.append(nf)
        if e <= 1e-12 * scale * max(1.0, nf / 64):
            verdict = 'roundoff'; break
        if lev >= 1:
            ps.append(math.log(errs[-2] / errs[-1]) / math.log(ns[-1] / ns[-2]) if math.isfinite(e) and errs[-2] > 0 else -math.inf)
            if lev >= 2 and ps[-1] >= nom - 0.3:
                verdict = 'ok'; break
    # the order must also hold down to the finest step the minimum fraction permits (a defect that only shows when the
    # remainder of the simulation time falls below the minimum step appears at FINE steps only): one more run there, its
    # error must follow from the last level by the nominal order (half an order and a factor 4 of slack, round-off floor)
    fine_bad = None
    if verdict == 'ok':
        cap = (1600 if which == 'euler' else 400) + c['frac']
        nf = min(cap, 0.8 / c['minDtFrac'] - 1.0)
        nf = math.floor(nf - c['frac']) + c['frac']
        if nf > 1.9 * ns[-1]:
            acc, traj, _ = integrate2(which, c['blocks'], c['layout'], c['t0'], c['L'], c['L'] / nf, c['minDtFrac'], c['maxDtFrac'], via)
            e = 0.0
            for tk, yk in zip(acc, traj):
                ex = blocks_exact(c['blocks'], c['t0'], tk)
                e = max(e, float(np.max(np.abs(yk - ex))) if yk.shape == ex.shape else math.inf)
            bound = 4 * errs[-1] * (ns[-1] / nf) ** (nom - 0.5) + 1e-11 * scale * max(1.0, nf / 64)
            res.count('order-through:finest-level-checked')
            if not e <= bound:
                fine_bad = (nf, e, bound)
                errs.append(e); ns.append(nf); ps.append(math.log(errs[-2] / e) / math.log(nf / ns[-2]) if e > 0 and math.isfinite(e) else -math.inf)
                verdict = None
    desc = dict(c, kind='order-through', n=ns, errors=errs)
    if verdict == 'roundoff' or len(ns) < 3:
        res.count('order-through:%s:%s' % (which, 'exact-to-roundoff' if verdict == 'roundoff' else 'too-few-levels'))
        return None
    pobs = ps[-1]
    res.count('order-through:%s:%s' % (which, 'LOWER' if verdict is None else 'nominal' if abs(pobs - nom) <= 0.3 else 'higher'))
    if verdict is None:
        auto = all(b['ode'] in AUTONOMOUS for b in c['blocks'])
        res.violate('order-%s-%s-rhs-via-%s' % (which, 'autonomous' if auto else 'time-dependent', via_site(via)),
                    '%s iterator through %s, system %s in state layout %s, minDtFrac=%g, step L/(n+%g): observed convergence order %.2f (errors %s for %s steps)' % (
                        which, via, [b['ode'] for b in c['blocks']], c['layout'], c['minDtFrac'], c['frac'], pobs, ['%.3g' % e for e in errs], ['%g' % v for v in ns]),
                    desc, round(pobs, 3) if math.isfinite(pobs) else repr(pobs), '>= %d - 0.3' % nom)
    return pobs


def through_witnesses():
    """fixed cases that run first on every run: the documented state formats for the oscillator ([x, v] as two floats,
    [float, array], [array, float]) and coarse minimum steps with a simulation time that is not a multiple of the step"""
    out = []
    osc = dict(ode='rot', p=1.0, q=1.0, y0=[1.0, 0.0])
    dec = dict(ode='lin', p=-1.0, q=0.0, y0=[1.0])
    for which in ('euler', 'rk4'):
        for lay, bl in (([0, 0], [osc]), ([0, 2], [dec, osc]), ([2, 0], [osc, dec]), ([-1, 0, 1], [osc, dec])):
            out.append(('order', tcase(bl, lay, 0.0, 2.0, 1e-8, 1.0, 'model', which, frac=0.0)))
        for mn in (1e-3, 4e-3):
            for t0 in (0.0, 3.0):
                out.append(('order', tcase([dec], [1], t0, 1.0, mn, 1.0, 'model', which, frac=0.1)))
                out.append(('exact', tcase([dict(ode='const', p=1.5, q=1.0, y0=[0.5])] if which == 'euler' else [dict(ode='cubic', p=0.5, q=-1.0, y0=[0.5])],
                                           [1], t0, 1.0, mn, 1.0, 'desolver', which, nf=20.1)))
    return out


def through_cases(ctx, res, oracle_only, nmul=1):
    rng = ctx.rng
    todo = through_witnesses()
    for k in range(ctx.n(90, 1500) * nmul):
        which = rng.choice(['euler', 'rk4'])
        bl, t0, L = gen_blocks(rng, 'exact-euler' if which == 'euler' else 'exact-rk4')
        d = sum(block_dim(b) for b in bl)
        via = VIAS[k % len(VIAS)]
        mn = rng.choice(MIN_FRACS + [1e-2, 0.05, 0.3])
        todo.append(('exact', tcase(bl, gen_split(rng, d), t0, L, mn, max(mn, rng.choice([1.0, 1.0, 0.5, 0.3, 0.1])), via, which,
                                    nf=rng.choice([3, 7, 12, 20, 33, 50, 80]) + rng.choice([0.1, 0.37, 0.5, 0.9, 0.0]))))
    for k in range(ctx.n(36, 600) * nmul):
        which = rng.choice(['euler', 'rk4', 'rk4'])
        bl, t0, L = gen_blocks(rng, 'order')
        d = sum(block_dim(b) for b in bl)
        todo.append(('order', tcase(bl, gen_split(rng, d), t0, L, MIN_FRACS[k % len(MIN_FRACS)], 1.0, VIAS[(k // 2) % len(VIAS)], which,
                                    frac=rng.choice([0.1, 0.37, 0.5, 0.9]))))
    lines, keep = [], []
    for kind, c in todo:
        site = 'solve-via-' + via_site(c['via'])
        if kind == 'exact':
            ok, r = guarded(res, site, dict(c, kind='exact-through'), exact_through_case, res, c)
            res.case(('exact-through', c['iterator'], c['via'], repr(c['layout']), c['minDtFrac'], c['nf'], round(c['t0'], 9)), True)
            res.count('exact-through:%s:%s' % (c['iterator'], via_site(c['via'])))
            res.count('exact-through:minDtFrac:' + ('1e-3..4e-3' if 1e-3 <= c['minDtFrac'] <= 4e-3 else '<1e-3' if c['minDtFrac'] < 1e-3 else '>4e-3'))
            if ok and r is not None:
                acc, traj = r
                lines.append('rk.solve %s %s %s %s %s %s %d %d %s' % ('E' if c['iterator'] == 'euler' else 'R', f2b(c['t0']), f2b(c['t0'] + c['L']), f2b(c['minDtFrac']),
                                                                      f2b(c['maxDtFrac']), f2b(c['L'] / c['nf']), 5000, len(c['blocks']),
                                                                      ' '.join('%d %s %s %s' % (ODE_ID[b['ode']], f2b(b['p']), f2b(b['q']), enc_list(b['y0'])) for b in c['blocks'])))
                keep.append((c, acc, traj))
        else:
            ok, r = guarded(res, site, dict(c, kind='order-through'), order_through_case, res, c)
            res.case(('order-through', c['iterator'], c['via'], repr(c['layout']), c['minDtFrac'], repr([b['ode'] for b in c['blocks']]), round(c['L'], 9)), True)
            res.count('order-through:%s' % via_site(c['via']))
        lay = c['layout']
        res.count('layout:' + ('flat-vector (DESolver)' if c['via'] == 'desolver' else 'scalars-only' if all(n <= 0 for n in lay) else 'arrays-only' if all(n > 0 for n in lay) else
                               'scalar-before-entry' if any(n <= 0 for n in lay[:-1]) else 'arrays-then-scalar'))
    if ctx.driver_ok and not oracle_only and lines:
        for (c, acc, traj), line in zip(keep, vlib.run_driver(PROP, lines)):
            t = Toks(line)
            if not t.ok:
                res.disagree('rk.solve model error', c, 'ok', t.err); continue
            n = t.nat(); cur = t.flt(); xf = t.flts()
            scale = float(np.max(np.abs(traj[-1]))) + 1.0
            if n != len(acc) or vlib.ulps(cur, acc[-1]) > 8 or not vlib.all_close(traj[-1], xf, 1e-11, scale):
                res.disagree('the solve loop with the state carried along (steps, final time, final state)', dict(c, kind='exact-through'),
                             dict(n=len(acc), t=acc[-1], x=traj[-1].tolist()), dict(n=n, t=cur, x=xf))
            else:
                res.traces += 1



# ====================================================================== ownership of arrays, scalar types
# (4) ALIASING / OWNERSHIP: the same composite systems, but the model's getdXdt hands its derivative back in one of the ways a
#     model may legitimately do it — 'fresh' (a new array per call), 'reuse' (it evaluates into ONE work array per state item
#     and returns those same objects on every call), 'view' (views of one internal buffer) — through every kind of flatten
#     function: a bare DESolver on a flat vector (identity flatten), GenericModel with the default flattenX (np.hstack; state
#     lists of one 1-D array, several arrays, arrays and scalars), GenericModel with an overridden copying flatten
#     (np.concatenate of ravel: 2-D arrays) and with DiffusionModel's own override pattern (np.reshape: a VIEW; 1-D or 2-D), and
#     as a sub-model of a Coupler.  'inplace' (getdXdt overwrites the array it was handed and returns it) breaks the model's
#     side of the contract: it is run and COUNTED only.
# (5) SCALAR TYPES: getDt answers as Python float / np.float64 / np.float32 / np.float16 / 0-d array (double, single) / int;
#     start time and simulation time as Python float / int / np.float32 / np.float64.
# Reference for both: ref_solve — the solve loop and both schemes in plain Python floats on copies.
FV_NAME = {'fresh': 'fresh-array', 'reuse': 'reuses-buffer', 'view': 'returns-buffer-view', 'inplace': 'overwrites-argument'}
SITE_NAME = {'desolver': 'desolver-identity-flatten', 'model': 'model-default-flatten', 'model-ravel': 'model-copying-flatten',
             'model-reshape': 'model-view-flatten', 'coupler2': 'coupler'}
DT_TYPES = ['float', 'float64', 'float32', 'float16', 'array0d', 'array0d32', 'int']
T_TYPES = ['float', 'int', 'float32', 'float64']
FMT_OF = {'float': 64, 'float64': 64, 'array0d': 64, 'int': 64, 'float32': 32, 'array0d32': 32, 'float16': 16}


def typed(v, ty):
    if ty == 'float':
        return float(v)
    if ty == 'float64':
        return np.float64(v)
    if ty == 'float32':
        return np.float32(v)
    if ty == 'float16':
        return np.float16(v)
    if ty == 'array0d':
        return np.array(float(v))
    if ty == 'array0d32':
        return np.array(float(v), dtype=np.float32)
    if ty == 'int':
        return int(round(v))
    raise KeyError(ty)


def item_size(n):
    return 1 if isinstance(n, int) and n <= 0 else n if isinstance(n, int) else int(np.prod(n))


def split_items(y, layout):
    """like split_state, an entry of the layout can also be a shape [r, c] (2-D array)"""
    X, k = [], 0
    for n in layout:
        sz = item_size(n)
        if n == 0:
            X.append(float(y[k]))
        elif n == -1:
            X.append(np.float64(y[k]))
        elif isinstance(n, int):
            X.append(np.array(y[k:k + sz], float))
        else:
            X.append(np.array(y[k:k + sz], float).reshape(tuple(n)))
        k += sz
    return X


def join_items(X):
    return np.concatenate([np.ravel(np.array(x, float)) for x in X])


def ref_solve(which, F, y0, t0, tf, h, mn, mx, cap=400000):
    """INDEPENDENT reference: DESolver.solve's loop (constant proposal h) and both schemes in plain Python floats, every
    array copied before it is handed on.  Returns accepted times, accepted states, steps, stage calls [(t, x)] per step."""
    t0, tf, h = float(t0), float(tf), float(h)
    dtmin, dtmax = mn * (tf - t0), mx * (tf - t0)
    cur, y = t0, np.array(y0, float)
    acc, traj, dts, calls = [], [], [], []
    G = lambda t, x: np.array(F(float(t), np.array(x, float)), float) + 0.0
    while cur < tf and len(acc) < cap:
        if dtmax > tf - cur:
            dtmax = tf - cur
        dt = h if h > dtmin else dtmin
        dt = dt if dt < dtmax else dtmax
        if which == 'euler':
            calls.append([(cur, y.copy())])
            y = y + G(cur, y) * dt
        elif which == 'mid':
            k1 = G(cur, y)
            x1 = y + k1 * (dt / 2)
            k2 = G(cur + dt / 2, x1)
            calls.append([(cur, y.copy()), (cur + dt / 2, x1)])
            y = y + k2 * dt
        else:
            k1 = G(cur, y)
            x1 = y + k1 * (dt / 2)
            k2 = G(cur + dt / 2, x1)
            x2 = y + k2 * (dt / 2)
            k3 = G(cur + dt / 2, x2)
            x3 = y + k3 * dt
            k4 = G(cur + dt, x3)
            calls.append([(cur, y.copy()), (cur + dt / 2, x1), (cur + dt / 2, x2), (cur + dt, x3)])
            y = y + (((k1 + 2 * k2) + 2 * k3) + k4) / 6 * dt
        cur += dt
        acc.append(cur); traj.append(y.copy()); dts.append(dt)
    return acc, traj, dts, calls


DOUBLE_TYPES = ('float', 'float64', 'array0d')      # double precision in another wrapping: not named in violation keys


def type_cause(c, full=False):
    """which of (getDt answer, start time, simulation time) is not a plain double — the failing class named in the keys"""
    parts = [k + '-' + c[k + '_type'] for k in ('dt', 't0', 'tf') if c.get(k + '_type', 'float') not in (('float',) if full else DOUBLE_TYPES)]
    return '+'.join(parts) or ('all-float' if full else 'all-double')


def run_through(c, h):
    """the composite system of case c through the real solver with the proposal value h (given to the solver in c['dt_type']).
    Everything a model can observe is recorded: (time, state copy) of every getdXdt call, (dt) of every correctdXdt call,
    (time, state copy) of every postProcess call, with the Python types of the times and steps."""
    vlib.use_repo()
    from kawin.solver.Solver import DESolver
    from kawin.GenericModel import GenericModel, Coupler
    which, site, fv = c['iterator'], c['site'], c.get('fv', 'fresh')
    blocks, layout = c['blocks'], c['layout']
    mn, mx = c['minDtFrac'], c['maxDtFrac']
    t0_obj = typed(c['t0'], c.get('t0_type', 'float'))
    if site == 'coupler2':      # the Coupler keeps its time in an array: the start time is a NumPy scalar of the array's type
        t0_obj = np.array([t0_obj], dtype={'float32': np.float32, 'int': np.int64}.get(c.get('t0_type', 'float'), np.float64))[-1]
    L_obj = typed(c['L'], c.get('tf_type', 'float'))
    tf_obj = t0_obj + L_obj                      # what the caller (DESolver) or GenericModel.setTimeInfo (currTime+simTime) computes
    h_obj = typed(h, c.get('dt_type', 'float'))
    y0 = np.concatenate([np.asarray(b['y0'], float) for b in blocks])
    d = len(y0)
    rec = dict(calls=[], post=[], cdt=[], step_dt=[], ttypes=set(), dtypes=set(), t0=float(t0_obj), tf=float(tf_obj), h=float(h_obj),
               own_state_changed=False, ownership=None)
    F = blocks_rhs(blocks)

    def note_t(t):
        rec['ttypes'].add(type(t).__name__)

    if site == 'desolver':
        work, buf = np.zeros(d), np.zeros(d + 2)

        def ff(t, x):
            note_t(t)
            rec['calls'].append((t, np.array(x, float)))
            dv = F(float(t), np.array(x, float))
            if fv == 'fresh':
                return dv
            if fv == 'reuse':
                work[:] = dv; return work
            if fv == 'view':
                buf[1:1 + d] = dv; return buf[1:1 + d]
            x[:] = dv; return x

        def cdx(dt, x, dXdt):
            rec['cdt'].append(dt)

        def post(t, x):
            note_t(t)
            rec['post'].append((t, np.array(x, float))); rec['step_dt'].append(rec['cdt'][-1] if rec['cdt'] else None)
            return x, False
        s = DESolver(_solver_type(which), minDtFrac=mn, maxDtFrac=mx)
        s.setFunctions(postProcess=post)
        s.setdXdtFunctions(ff, cdx, lambda dXdt: h_obj, s.flattenXNotImplemented, s.unflattenXNotImplemented)
        x0 = y0.copy()
        rec['ownership'] = 'shared' if np.shares_memory(s.flattenXNotImplemented(work), work) else 'fresh'
        s.solve(t0_obj, x0, tf_obj)
        rec['own_state_changed'] = not np.array_equal(x0, y0)
        return rec

    class MA(GenericModel):
        def __init__(m, bl, lay, fvar, record):
            super().__init__()
            m.lay, m.fv, m.F, m.record = lay, fvar, blocks_rhs(bl), record
            m.t = t0_obj
            m.y0 = np.concatenate([np.asarray(b['y0'], float) for b in bl])
            m.X = split_items(m.y0, lay)
            m.first = [x for x in m.X]
            m.work = [np.zeros(np.shape(x)) if isinstance(x, np.ndarray) else None for x in m.X]
            m.buf = np.zeros(len(m.y0) + 2)
            m.cdt = []

        def getCurrentX(m):
            return m.t, m.X

        def emit(m, dv, x):
            pieces = split_items(dv, m.lay)
            if m.fv == 'fresh':
                return pieces
            out, k = [], 1
            for i, pc in enumerate(pieces):
                sz = item_size(m.lay[i])
                if not isinstance(pc, np.ndarray):
                    out.append(pc)
                elif m.fv == 'reuse':
                    m.work[i][...] = pc; out.append(m.work[i])
                elif m.fv == 'view':
                    m.buf[k:k + sz] = np.ravel(pc); out.append(m.buf[k:k + sz].reshape(pc.shape))
                else:
                    x[i][...] = pc; out.append(x[i])
                k += sz
            return out

        def getdXdt(m, t, x):
            if m.record:
                note_t(t); rec['calls'].append((t, join_items(x)))
            return m.emit(m.F(float(t), join_items(x)), x)

        def getDt(m, dXdt):
            return h_obj

        def correctdXdt(m, dt, x, dXdt):
            m.cdt.append(dt)
            if m.record:
                rec['cdt'].append(dt)

        def postProcess(m, time, x):
            m.t = time; m.X = list(x)
            if m.record:
                note_t(time)
                rec['post'].append((time, join_items(x))); rec['step_dt'].append(m.cdt[-1] if m.cdt else None)
            return x, False

    class MAravel(MA):          # an override that copies (2-D arrays need one: np.hstack does not flatten them)
        def flattenX(m, X):
            return np.concatenate([np.ravel(np.asarray(x, float)) for x in X])

    class MAreshape(MA):        # the override pattern of kawin.diffusion.Diffusion.DiffusionModel: a VIEW of X[0]
        def flattenX(m, X):
            return np.reshape(X[0], (np.prod(X[0].shape)))

        def unflattenX(m, X_flat, X_ref):
            return [np.reshape(X_flat, X_ref[0].shape)]

    cls = {'model': MA, 'model-ravel': MAravel, 'model-reshape': MAreshape, 'coupler2': MA}[site]
    m = cls(blocks, layout, fv, True)
    arrs = [w for w in m.work if w is not None]
    if arrs:
        fl = m.flattenX([w if w is not None else 0.0 for w in m.work])
        rec['ownership'] = 'shared' if any(np.shares_memory(fl, w) for w in arrs) else 'fresh'
    first_copy = [np.array(x, float) for x in m.first]
    if site == 'coupler2':
        comp = dict(COMPANIONS[0])
        other = MA([comp], [0, 1], 'fresh', False)
        cp = Coupler([other, m])
        tt = c.get('t0_type', 'float')
        cp.time = np.array([t0_obj], dtype={'float32': np.float32, 'int': np.int64}.get(tt, np.float64))
        cp.solve(L_obj, solverType=_solver_type(which), minDtFrac=mn, maxDtFrac=mx)
        if arrs:
            fl = cp.flattenX([[0.0, np.zeros(1)], [w if w is not None else 0.0 for w in m.work]])
            rec['ownership'] = 'shared' if any(np.shares_memory(fl, w) for w in arrs) else 'fresh'
    else:
        m.solve(L_obj, solverType=_solver_type(which), minDtFrac=mn, maxDtFrac=mx)
    rec['own_state_changed'] = any(not np.array_equal(np.asarray(a, float), b) for a, b in zip(m.first, first_copy))
    return rec


def _is_f64(v):
    return isinstance(v, float)          # Python float or np.float64 (a subclass); np.float32/16, ints, arrays are not


def through_oracles(res, c, rec, ref, what_kinds):
    """direct oracles on ONE real run `rec` against the independent reference `ref`; returns True when all hold"""
    which, site = c['iterator'], c['site']
    sk, fk, cause = SITE_NAME[site], FV_NAME[c.get('fv', 'fresh')], type_cause(c)
    plain = type_cause(c, full=True) == 'all-float'      # an ownership case (all scalars plain Python floats)
    racc, rtraj, rdts, rcalls = ref
    s = len(EXPECT_C[which])
    post, calls = rec['post'], rec['calls']
    acc = [float(t) for t, _ in post]
    desc = 'rhs %s, %s, state layout %s, scalar types %s' % (fk, sk, c['layout'], cause)
    ok = True

    def bad(key, what, obs, req):
        res.violate(key, '%s iterator (%s): %s' % (which, desc, what), dict(c, kind='through2'), obs, req)
        return False

    # ---- number types the model gets to see
    if 'types' in what_kinds:
        odd = sorted(tn for tn in rec['ttypes'] if tn not in ('float', 'float64'))
        if odd:
            ok = bad('clock-not-float64-%s-via-%s' % (cause, sk),
                     'the times handed to getdXdt/postProcess are %s, not double precision floats (the clock of the run is kept in that type)' % odd,
                     sorted(rec['ttypes']), ['float', 'float64'])
        oddd = sorted({type(v).__name__ for v in rec['step_dt'] if v is not None and not _is_f64(v)})
        if oddd:
            ok = bad('step-not-float64-%s-via-%s' % (cause, sk), 'the step handed to correctdXdt is %s, not a double precision float' % oddd, oddd, ['float', 'float64'])
    # ---- the run ends at tf
    tf = rec['tf']
    if not acc or abs(acc[-1] - tf) > 4 * math.ulp(abs(tf)) + 4 * math.ulp(abs(rec['t0'])):
        ok = bad('end-time-not-tf-%s-via-%s' % (cause, sk), 'the run ended at %r instead of %r (%d steps)' % (acc[-1] if acc else rec['t0'], tf, len(acc)),
                 acc[-1] if acc else None, tf)
    # ---- the clock is the double-precision sum of the steps that advanced the state; stage times belong to that step
    if 'clock' in what_kinds and len(calls) == s * len(acc) and all(v is not None for v in rec['step_dt']):
        cur, dsum = rec['t0'], []
        for k, t in enumerate(acc):
            dt = float(rec['step_dt'][k])
            start = cur
            cur = cur + dt
            dsum.append(dt)
            exact = math.fsum([rec['t0']] + dsum)
            slack = (k + 2) * math.ulp(max(abs(exact), abs(rec['t0']), 1e-300))
            if vlib.ulps(t, cur) > 4 or abs(t - exact) > slack:
                ok = bad('clock-not-sum-of-steps-%s-via-%s' % (cause, sk),
                         'after accepted step %d the reported time is %r, the start time plus the steps that advanced the state is %r (exact sum %r)' % (k + 1, t, cur, exact), t, cur)
                break
            want = [start + cj * dt if cj not in (0.5,) else start + dt / 2 for cj in EXPECT_C[which]]
            got = [float(calls[s * k + j][0]) for j in range(s)]
            if any(vlib.ulps(a, b) > 2 for a, b in zip(got, want)):
                ok = bad('stage-times-not-float64-%s-%s-via-%s' % (which, cause, sk),
                         'step %d from t=%r with dt=%r calls the right-hand side at %s, in double precision t, t+dt/2, t+dt/2, t+dt are %s' % (k + 1, start, dt, got, want), got, want)
                break
            cur = t
    # ---- against the independent reference: steps, times, stage arguments, accepted states
    if 'ref' in what_kinds:
        if len(calls) != s * len(acc):
            ok = bad('alias-stage-args-%s-rhs-%s-via-%s' % (which, fk, sk), '%d right-hand-side calls for %d accepted steps' % (len(calls), len(acc)), len(calls), s * len(acc))
        elif len(acc) != len(racc):
            ok = bad('steps-%s-%s-via-%s' % (which, cause, sk), '%d accepted steps, the reference loop in Python floats takes %d' % (len(acc), len(racc)), len(acc), len(racc))
        else:
            done = False
            for k in range(len(acc)):
                if vlib.ulps(acc[k], racc[k]) > 4:
                    ok = bad('steps-%s-%s-via-%s' % (which, cause, sk), 'accepted time %d is %r, reference %r' % (k + 1, acc[k], racc[k]), acc[k], racc[k]); done = True
                for j in range(s):
                    tj, xj = calls[s * k + j]
                    rt, rx = rcalls[k][j]
                    scale = float(np.max(np.abs(rx))) + 1.0
                    if xj.shape != rx.shape or not vlib.all_close(xj, rx, 1e-13, scale) or vlib.ulps(float(tj), rt) > 4:
                        ok = bad('alias-stage-args-%s-rhs-%s-via-%s' % (which, fk, sk) if plain else 'stage-args-%s-%s-via-%s' % (which, cause, sk),
                                 'stage %d of step %d is evaluated at (t=%r, x=%s), the scheme computed on copies gives (t=%r, x=%s)' % (j + 1, k + 1, float(tj), xj.tolist(), rt, rx.tolist()),
                                 dict(t=float(tj), x=xj.tolist()), dict(t=rt, x=rx.tolist())); done = True
                        break
                if done:
                    break
                yk, ry = post[k][1], rtraj[k]
                scale = float(np.max(np.abs(ry))) + 1.0
                if yk.shape != ry.shape or not vlib.all_close(yk, ry, 1e-13, scale):
                    ok = bad('alias-step-%s-rhs-%s-via-%s' % (which, fk, sk) if plain else 'step-%s-%s-via-%s' % (which, cause, sk),
                             'the state accepted at step %d (t=%r) is %s, the scheme computed on copies gives %s' % (k + 1, acc[k], yk.tolist(), ry.tolist()), yk.tolist(), ry.tolist())
                    break
    if rec['own_state_changed']:
        ok = bad('solver-modifies-state-array-it-was-given-%s-via-%s' % (which, sk), 'the arrays the model supplied as its state were modified during the run', 'modified', 'unchanged')
    return ok


def through2_case(res, c):
    """one run of case c (c['nf'] proposals over L) + oracles; returns (rec, ref) for the correspondence"""
    h = c['L'] / c['nf']
    rec = run_through(c, h)
    y0 = np.concatenate([np.asarray(b['y0'], float) for b in c['blocks']])
    ref = ref_solve(c['iterator'], blocks_rhs(c['blocks']), y0, rec['t0'], rec['tf'], rec['h'], c['minDtFrac'], c['maxDtFrac'])
    if c.get('fv') == 'inplace':
        same = len(rec['post']) == len(ref[0]) and all(a[1].shape == b.shape and vlib.all_close(a[1], b, 1e-12, float(np.max(np.abs(b))) + 1.0) for a, b in zip(rec['post'], ref[1]))
        res.count('observed-only:rhs-overwrites-argument:%s:%s' % (SITE_NAME[c['site']], 'as-reference' if same else 'differs-from-reference'))
        return rec, ref, True
    ok = through_oracles(res, c, rec, ref, ('types', 'clock', 'ref'))
    return rec, ref, ok


def order2_case(res, c):
    """observed order by step halving for case c (any rhs variant / flatten kind / scalar types), error over the whole
    trajectory against the closed form at the reported times"""
    which = c['iterator']
    nom = NOMINAL[which]
    n0 = c.get('n0', 24 if which == 'euler' else 6)
    errs, ns, ps = [], [], []
    verdict, scale = None, 1.0
    for lev in range(7):
        nf = n0 * 2 ** lev + c.get('frac', 0.0)
        rec = run_through(c, c['L'] / nf)
        e = 0.0
        for tk, yk in rec['post']:
            ex = blocks_exact(c['blocks'], rec['t0'], float(tk))
            e = max(e, float(np.max(np.abs(yk - ex))) if yk.shape == ex.shape else math.inf)
            scale = max(scale, float(np.max(np.abs(ex))))
        if not rec['post'] or abs(float(rec['post'][-1][0]) - rec['tf']) > 8 * math.ulp(abs(rec['tf']) + abs(rec['t0'])):
            e = math.inf
        errs.append(e); ns.append(nf)
        if e <= 1e-12 * scale * max(1.0, nf / 64):
            verdict = 'roundoff'; break
        if lev >= 1:
            ps.append(math.log(errs[-2] / errs[-1]) / math.log(ns[-1] / ns[-2]) if math.isfinite(e) and errs[-2] > 0 and e > 0 else -math.inf)
            if lev >= 2 and ps[-1] >= nom - 0.3:
                verdict = 'ok'; break
    if verdict == 'roundoff' or len(ns) < 3:
        res.count('order2:%s:%s' % (which, 'exact-to-roundoff' if verdict == 'roundoff' else 'too-few-levels'))
        return None
    pobs = ps[-1]
    res.count('order2:%s:%s' % (which, 'LOWER' if verdict is None else 'nominal' if abs(pobs - nom) <= 0.3 else 'higher'))
    if verdict is None:
        cause = type_cause(c)
        key = ('alias-order-%s-rhs-%s-via-%s' % (which, FV_NAME[c.get('fv', 'fresh')], SITE_NAME[c['site']]) if type_cause(c, full=True) == 'all-float'
               else 'order-%s-%s-via-%s' % (which, cause, SITE_NAME[c['site']]))
        res.violate(key, '%s iterator, rhs %s, %s, system %s in state layout %s, scalar types %s: observed convergence order %.2f (errors %s for %s steps)' % (
            which, FV_NAME[c.get('fv', 'fresh')], SITE_NAME[c['site']], [b['ode'] for b in c['blocks']], c['layout'], cause, pobs,
            ['%.3g' % e for e in errs], ['%g' % v for v in ns]),
            dict(c, kind='order2', n=ns, errors=errs), round(pobs, 3) if math.isfinite(pobs) else repr(pobs), '>= %d - 0.3' % nom)
    return pobs


def gen_layout2(rng, d, site):
    """state layouts for the ownership cases: one 1-D array, several arrays, arrays and scalars, 2-D arrays"""
    if site == 'desolver':
        return [d]
    if site == 'model-reshape':
        return rng.choice([[d]] + [[[r, d // r]] for r in (2, 3) if d % r == 0 and d // r >= 1])
    if site == 'model-ravel':
        opts = [[[r, d // r]] for r in (2, 3) if d % r == 0] + [[d]]
        if d >= 3:
            opts += [[[1, d - 1], 0], [1, [1, d - 1]]]
        if d >= 5 and (d - 1) % 2 == 0:
            opts.append([[2, (d - 1) // 2], 1])
        return rng.choice(opts)
    r = rng.random()
    if r < 0.45:
        return [d]                                           # ONE 1-D array: the commonest model state
    if r < 0.75 and d >= 2:
        k = rng.randint(1, d - 1); return [k, d - k]         # several arrays
    return gen_split(rng, d)                                 # arrays and scalars in any order


def gen_order_blocks(rng, dim_even=False):
    fam = rng.choice([['rot'], ['rot', 'logistic'], ['chirp'], ['rot', 'gauss'], ['logistic', 'lin', 'forced'], ['lin', 'rot'], ['chirp', 'forced', 'logistic'], ['rot', 'rot']])
    bl = []
    for o in fam:
        pr = gen_problem(rng, allow=[o])
        bl.append(dict(ode=o, p=pr['p'], q=pr['q'], y0=pr['y0']))
    return bl


def alias_witnesses():
    """fixed cases that run first: a model with ONE 1-D state array that evaluates into its own work array (the oscillator +
    a nonlinear component), through every kind of flatten function"""
    bl = [dict(ode='rot', p=1.0, q=1.0, y0=[1.0, 0.5]), dict(ode='logistic', p=1.2, q=1.0, y0=[0.3])]
    bl4 = bl + [dict(ode='lin', p=-0.7, q=0.4, y0=[1.5])]
    out = []
    for site, lay, b in (('model', [3], bl), ('desolver', [3], bl), ('model-reshape', [[2, 2]], bl4), ('model-ravel', [[2, 2]], bl4), ('coupler2', [3], bl), ('model', [2, 1], bl)):
        for fv in ('reuse', 'view'):
            c = dict(blocks=b, layout=lay, t0=0.0, L=2.0, minDtFrac=1e-8, maxDtFrac=1.0, site=site, fv=fv, iterator='rk4')
            out.append(('order', dict(c, frac=0.0)))
            out.append(('exact', dict(c, nf=7.3)))
    return out


def scalar_witnesses():
    bl = [dict(ode='gauss', p=1.0, q=1.0, y0=[1.0]), dict(ode='quad', p=1.0, q=1.0, y0=[0.0]), dict(ode='lin', p=-1.0, q=0.0, y0=[1.0]), dict(ode='const', p=1.0, q=1.0, y0=[0.0])]
    out = []
    base = dict(blocks=bl, layout=[4], minDtFrac=1e-8, maxDtFrac=1.0, iterator='rk4', fv='fresh')
    for site in ('model', 'desolver', 'coupler2'):
        out.append(('order', dict(base, site=site, t0=0.0, L=3.0, dt_type='float32', frac=0.0, n0=75)))
        out.append(('exact', dict(base, site=site, t0=0.0, L=3.0, dt_type='float32', nf=300.0)))
        out.append(('order', dict(base, site=site, t0=0.25, L=1.0, t0_type='float32', tf_type='float32', frac=0.0, n0=125)))
        out.append(('exact', dict(base, site=site, t0=0.25, L=1.0, t0_type='float32', tf_type='float32', nf=1000.0)))
        out.append(('exact', dict(base, site=site, t0=0.25, L=1.0, tf_type='float32', nf=1000.0)))
        out.append(('exact', dict(base, site=site, t0=0.1, L=1.0, t0_type='float32', nf=1000.0)))
    return out


def through2_cases(ctx, res, oracle_only, nmul=1):
    rng = ctx.rng
    todo = alias_witnesses() + scalar_witnesses()
    sites = ['model', 'model', 'desolver', 'model-ravel', 'model-reshape', 'coupler2']
    # ---- ownership
    for k in range(ctx.n(60, 900) * nmul):
        which = rng.choice(['rk4', 'rk4', 'euler'])
        site = sites[k % len(sites)]
        fv = ['reuse', 'view', 'fresh', 'reuse', 'inplace', 'view', 'reuse'][k % 7]
        bl = gen_order_blocks(rng)
        dd = sum(block_dim(b) for b in bl)
        mn = rng.choice([1e-8, 1e-5, 1e-3])
        todo.append(('exact', dict(blocks=bl, layout=gen_layout2(rng, dd, site), t0=rng.choice([0.0, 0.25, -0.5, rng.uniform(-1, 2)]), L=rng.choice([1.0, 0.5, 2.0, rng.uniform(0.5, 2.0)]),
                                   minDtFrac=mn, maxDtFrac=rng.choice([1.0, 1.0, 0.3]), site=site, fv=fv, iterator=which,
                                   nf=rng.choice([3, 5, 8, 13]) + rng.choice([0.0, 0.3, 0.5, 0.9]))))
    for k in range(ctx.n(14, 240) * nmul):
        which = rng.choice(['rk4', 'rk4', 'euler'])
        site = sites[(k + 1) % len(sites)]
        fv = ['reuse', 'view', 'reuse', 'fresh'][k % 4]
        bl = gen_order_blocks(rng)
        dd = sum(block_dim(b) for b in bl)
        todo.append(('order', dict(blocks=bl, layout=gen_layout2(rng, dd, site), t0=rng.choice([0.0, 0.25, -0.5]), L=rng.choice([1.0, 2.0, rng.uniform(0.5, 2.0)]),
                                   minDtFrac=1e-8, maxDtFrac=1.0, site=site, fv=fv, iterator=which, frac=rng.choice([0.0, 0.37, 0.5]))))
    # ---- scalar types
    ssites = ['model', 'desolver', 'coupler2']
    for k in range(ctx.n(60, 900) * nmul):
        which = rng.choice(['rk4', 'rk4', 'euler'])
        site = ssites[k % 3]
        dt_type = DT_TYPES[k % len(DT_TYPES)]
        t0_type = rng.choice(['float', 'float', 'float', 'int', 'float32', 'float64'])
        tf_type = rng.choice(['float', 'float', 'float', 'int', 'float32', 'float64'])
        if k % 3 == 0:
            t0_type = tf_type = 'float'
        bl = gen_blocks(rng, 'exact-euler' if which == 'euler' else 'exact-rk4')[0] + [dict(ode='const', p=1.0, q=1.0, y0=[0.0])]
        if rng.random() < 0.5:
            bl = gen_order_blocks(rng) + [dict(ode='const', p=1.0, q=1.0, y0=[0.0])]
        dd = sum(block_dim(b) for b in bl)
        t0 = float(rng.choice([0, 1, 3, -1])) if t0_type == 'int' else rng.choice([0.0, 0.25, 0.1, 3.0, -0.5, rng.uniform(-1, 2)])
        L = float(rng.choice([1, 2, 3])) if tf_type == 'int' else rng.choice([1.0, 0.5, 2.0, rng.uniform(0.5, 2.0)])
        nf = rng.choice([7, 20, 50, 130, 400]) + rng.choice([0.0, 0.3, 0.5])
        if dt_type == 'int':
            L = float(rng.choice([5, 8, 12])) + (0.0 if tf_type == 'int' else rng.choice([0.0, 0.5, 0.25]))
            nf = L                      # proposal 1 as a Python int
        todo.append(('exact', dict(blocks=bl, layout=[dd] if site == 'desolver' else gen_split(rng, dd), t0=t0, L=L, minDtFrac=rng.choice([1e-8, 1e-5, 1e-3]), maxDtFrac=1.0,
                                   site=site, fv='fresh', iterator=which, nf=nf, dt_type=dt_type, t0_type=t0_type, tf_type=tf_type)))
    for k in range(ctx.n(14, 240) * nmul):
        which = rng.choice(['rk4', 'rk4', 'euler'])
        site = ssites[k % 3]
        dt_type = [t for t in DT_TYPES if t != 'int'][k % (len(DT_TYPES) - 1)]
        t0_type, tf_type = [('float', 'float'), ('float32', 'float'), ('float', 'float32'), ('int', 'int'), ('float32', 'float32')][(k // 2) % 5]
        bl = gen_order_blocks(rng)
        dd = sum(block_dim(b) for b in bl)
        t0 = float(rng.choice([0, 1])) if t0_type == 'int' else rng.choice([0.0, 0.25, 0.1])
        L = float(rng.choice([1, 2])) if tf_type == 'int' else rng.choice([1.0, 2.0, rng.uniform(0.5, 2.0)])
        todo.append(('order', dict(blocks=bl, layout=[dd] if site == 'desolver' else gen_split(rng, dd), t0=t0, L=L, minDtFrac=1e-8, maxDtFrac=1.0, site=site, fv='fresh',
                                   iterator=which, frac=0.0, dt_type=dt_type, t0_type=t0_type, tf_type=tf_type)))
    lines, keep, blines, bkeep = [], [], [], []
    for kind, c in todo:
        guard_site = 'solve-via-' + SITE_NAME[c['site']]
        cause = type_cause(c, full=True)
        fam = 'ownership' if cause == 'all-float' else 'scalar-type'
        if kind == 'exact':
            ok, r = guarded(res, guard_site, dict(c, kind='through2'), through2_case, res, c)
            res.case(('through2', c['iterator'], c['site'], c.get('fv'), repr(c['layout']), cause, c['nf'], round(c['t0'], 9)), True)
            if ok and r is not None:
                rec, ref, fine = r
                if rec['ownership']:
                    res.count('ownership-of-flatten:%s:%s' % (SITE_NAME[c['site']], rec['ownership']))
                if c.get('fv') != 'inplace' and len(rec['post']) and len(rec['post']) < 4000:
                    lines.append('rk.solvefmt %d %s %s %s %s %s %s %d %d %s' % (
                        FMT_OF[c.get('dt_type', 'float')], 'E' if c['iterator'] == 'euler' else 'R', f2b(rec['t0']), f2b(rec['tf']), f2b(c['minDtFrac']), f2b(c['maxDtFrac']),
                        f2b(float(typed(c['L'] / c['nf'], 'int' if c.get('dt_type') == 'int' else 'float'))), 5000, len(c['blocks']),
                        ' '.join('%d %s %s %s' % (ODE_ID[b['ode']], f2b(b['p']), f2b(b['q']), enc_list(b['y0'])) for b in c['blocks'])))
                    keep.append((c, rec))
        else:
            ok, r = guarded(res, guard_site, dict(c, kind='order2'), order2_case, res, c)
            res.case(('order2', c['iterator'], c['site'], c.get('fv'), repr(c['layout']), cause, repr([b['ode'] for b in c['blocks']]), round(c['L'], 9)), True)
        res.count('%s:%s:%s' % (fam, kind, SITE_NAME[c['site']]))
        if fam == 'ownership':
            res.count('ownership:rhs-%s' % FV_NAME[c.get('fv', 'fresh')])
            res.count('ownership:layout:' + ('flat-vector' if c['site'] == 'desolver' else 'one-1d-array' if c['layout'] == [item_size(c['layout'][0])] and isinstance(c['layout'][0], int) and c['layout'][0] > 0
                                             else '2d-array' if any(not isinstance(n, int) for n in c['layout']) else 'several-arrays' if all(isinstance(n, int) and n > 0 for n in c['layout']) else 'arrays-and-scalars'))
        else:
            res.count('scalar-type:' + cause)
    # ---- correspondence: the loop with a proposal in the number format of getDt (solveXR), and the ownership model
    if ctx.driver_ok and not oracle_only and lines:
        for (c, rec), line in zip(keep, vlib.run_driver(PROP, lines)):
            t = Toks(line)
            if not t.ok:
                res.disagree('rk.solvefmt model error', c, 'ok', t.err); continue
            n = t.nat(); cur = t.flt(); xf = t.flts(); times = t.flts(); dts = t.flts()
            acc = [float(a) for a, _ in rec['post']]
            last = rec['post'][-1][1]
            scale = float(np.max(np.abs(last))) + 1.0
            sd = [float(v) for v in rec['step_dt'] if v is not None]
            if (n != len(acc) or vlib.ulps(cur, acc[-1]) > 8 or not vlib.all_close(last, xf, 1e-11, scale) or any(vlib.ulps(a, b) > 8 for a, b in zip(acc, times))
                    or (len(sd) == len(dts) and any(not close(a, b, 1e-9, abs(b)) for a, b in zip(sd[:-1], dts[:-1])))):
                res.disagree('the solve loop for a step proposal in the number format of getDt (steps, accepted times, steps, final state)', dict(c, kind='through2'),
                             dict(n=len(acc), t=acc[-1], x=last.tolist(), dts=sd[:3]), dict(n=n, t=cur, x=xf, dts=dts[:3]))
            else:
                res.traces += 1
        own = vlib.run_driver(PROP, ['rk.own M', 'rk.own C', 'rk.own I'])
        model_own = {k: ('shared' if Toks(l).bool() else 'fresh') for k, l in zip(('model-default-flatten', 'coupler', 'desolver-identity-flatten'), own)}
        for k, v in model_own.items():
            seen = {h.split(':')[2] for h in res.hist if h.startswith('ownership-of-flatten:%s:' % k)}
            res.count('ownership-model-%s:%s' % ('agrees' if seen <= {v} else 'DIFFERS-from-measured', k))
    # the iterator for a right-hand side that reuses one work array (rk4IterBuf), both kinds of flatten, against one real step
    if ctx.driver_ok and not oracle_only:
        cases = []
        for _ in range(ctx.n(40, 600) * nmul):
            which = rng.choice(['rk4', 'rk4', 'euler'])
            prob = gen_problem(rng, allow=['lin', 'logistic', 'rot', 'tcos', 'gauss', 'chirp', 'ty2', 'forced'])
            x = [rng.uniform(0.2, 0.9) for _ in range(2 if prob['ode'] in VECTOR else rng.choice([1, 3]))]
            t, dt = rng.uniform(-1, 2), rng.choice([0.5, 0.1, rng.uniform(1e-3, 0.5)])
            shared = rng.random() < 0.5
            cases.append((which, prob, t, x, dt, shared))
            blines.append('rk.buf %s %s %d %s %s %s %s %s' % ('T' if shared else 'F', 'E' if which == 'euler' else 'R', ODE_ID[prob['ode']], f2b(prob['p']), f2b(prob['q']), f2b(t), f2b(dt), enc_list(x)))
        for (which, prob, t, x, dt, shared), line in zip(cases, vlib.run_driver(PROP, blines)):
            desc = dict(prob, kind='buf-step', iterator=which, t=t, x=x, dt=dt, shared=shared)
            ok, r = guarded(res, 'iterator-' + which, desc, buf_step, which, prob, t, x, dt, shared)
            if not ok:
                continue
            xnew, calls = r
            tk = Toks(line)
            if not tk.ok:
                res.disagree('rk.buf model error', desc, 'ok', tk.err); continue
            mxn = tk.flts(); mt = tk.flts(); ms = tk.flts()
            scale = float(np.max(np.abs(xnew))) + 1.0
            if not vlib.all_close(xnew, mxn, 1e-12, scale) or [c_[0] for c_ in calls] != mt or not vlib.all_close([v for c_ in calls for v in c_[1]], ms, 1e-12, scale):
                res.disagree('one step with a right-hand side that reuses ONE work array (%s flatten)' % ('sharing' if shared else 'copying'), desc,
                             dict(xnew=xnew.tolist(), times=[c_[0] for c_ in calls]), dict(xnew=mxn, times=mt))
            res.count('buf-step:%s:%s' % (which, 'shared' if shared else 'copied'))
            res.case(('buf', which, prob['ode'], round(dt, 9), shared), True)


def buf_step(which, prob, t, x, dt, shared):
    """ONE call of the real iterator through the DESolver wrappers, the right-hand side evaluating into one work array that
    it returns on every call; flatten = identity (shared) or np.hstack of the list (copying, GenericModel.flattenX)"""
    vlib.use_repo()
    from kawin.solver.Solver import DESolver
    from kawin.GenericModel import GenericModel
    f = _rhs(prob['ode'], prob['p'], prob['q'])
    s = DESolver(_solver_type(which))
    work = np.zeros(len(x))
    calls = []
    gm = GenericModel()

    def ff(tt, xx):
        xv = np.array(xx[0] if not shared else xx, float)
        calls.append((float(tt), xv.tolist()))
        work[:] = f(tt, xv)
        return work if shared else [work]
    if shared:
        s.setdXdtFunctions(ff, s.correctdXdtNotImplemented, lambda dXdt: dt, s.flattenXNotImplemented, s.unflattenXNotImplemented)
        s._X0 = np.array(x, float)
    else:
        s.setdXdtFunctions(ff, s.correctdXdtNotImplemented, lambda dXdt: dt, gm.flattenX, gm.unflattenX)
        s._X0 = [np.array(x, float)]
    s._dtmin, s._dtmax = 0.0, math.inf
    xnew, dtret = s.iterator(s._getdXdt, t, np.array(x, float), s._updateX)
    return np.asarray(xnew, float), calls


# ====================================================================== histories of solve calls on one model object
# (6) SOLVER HISTORIES: a model object lives through SEVERAL GenericModel.solve calls — solve(simTime, solverType, minDtFrac,
#     maxDtFrac) with solverType in {EXPLICITEULER, RK4, a user-supplied iterator}, with or without a model-level reset in
#     between, every call continuing from the model's current time.  Per call the oracle looks at what the derivative callback
#     saw (number of evaluations per accepted step and their times = the stage pattern of the scheme REQUESTED IN THAT CALL),
#     compares every stage argument and accepted state with ref_solve for the requested scheme started from the state the
#     previous call left, and estimates the order of the call's own segment (closed form from the segment's own start).
#     Sites: GenericModel subclass, Coupler of 2 and of 3 models; one or two objects of the same class with interleaved calls.
SCHEMES = ['euler', 'rk4', 'mid']
SCHEME_CODE = {'euler': 'E', 'rk4': 'R', 'mid': 'M'}
HIST_SITES = ['model', 'coupler2', 'coupler3']
_HCLS = {}


def hist_classes():
    """the model classes of the history cases, defined ONCE per process (all histories share them, so state kept on the
    class instead of the object would show as well)"""
    if _HCLS:
        return _HCLS
    vlib.use_repo()
    from kawin.GenericModel import GenericModel, Coupler

    class HM(GenericModel):
        def __init__(m, blocks, layout, t0, log, record):
            super().__init__()
            m.lay, m.F = layout, blocks_rhs(blocks)
            m.t0 = t0
            m.y0 = np.concatenate([np.asarray(b['y0'], float) for b in blocks])
            m.log, m.record, m.h = log, record, None
            m.reset()

        def reset(m):
            m.t = m.t0
            m.X = split_items(m.y0, m.lay)

        def getCurrentX(m):
            return m.t, m.X

        def getdXdt(m, t, x):
            if m.record:
                m.log.append(('f', t, join_items(x)))
            return split_items(m.F(float(t), join_items(x)), m.lay)

        def getDt(m, dXdt):
            return m.h

        def correctdXdt(m, dt, x, dXdt):
            if m.record:
                m.log.append(('c', dt, None))

        def postProcess(m, time, x):
            m.t = time
            m.X = list(x)
            if m.record:
                m.log.append(('p', time, join_items(x)))
            return x, False

    class HC(Coupler):
        def reset(cp):
            for mm in cp.models:
                mm.reset()
            cp.time = np.array([cp.models[0].t0], float)

    _HCLS.update(HM=HM, HC=HC)
    return _HCLS


def blocks_from(blocks, ys):
    """the same system started from the state ys"""
    out, k = [], 0
    for b in blocks:
        d = block_dim(b)
        out.append(dict(b, y0=[float(v) for v in ys[k:k + d]]))
        k += d
    return out


def run_history(c, mult=1.0):
    """the calls of history c on the real code (step proposals L/(nf*mult)); returns one record per call: scheme requested,
    scheme of the previous call on the same object, start (time, state) as the model reports it, everything the callbacks
    of the model under study saw during the call, the model's time and state afterwards"""
    K = hist_classes()
    site = c['site']
    objs = []
    for oi in range(c.get('nobj', 1)):
        log = []
        main = K['HM'](c['blocks'], c['layout'], c['t0'], log, True)
        if site == 'model':
            top, members = main, [main]
        else:
            comp = K['HM']([dict(COMPANIONS[0])], [0, 1], c['t0'], log, False)
            members = [comp, main]
            if site == 'coupler3':
                members = [K['HM']([dict(COMPANIONS[1])], [-1], c['t0'], log, False), main, comp]
            top = K['HC'](members)
            top.time = np.array([c['t0']], float)
        objs.append((top, main, members, log))
    segs, prev = [], {}
    for k, call in enumerate(c['calls']):
        oi = call.get('obj', 0)
        top, main, members, log = objs[oi]
        if call['reset']:
            top.reset()
        h = call['L'] / (call['nf'] * mult)
        for mm in members:
            mm.h = h
        ts = float(top.getCurrentX()[0])
        ys = join_items(main.X)
        del log[:]
        top.solve(call['L'], solverType=_solver_type(call['scheme']), minDtFrac=call['minDtFrac'], maxDtFrac=call['maxDtFrac'])
        segs.append(dict(k=k, obj=oi, scheme=call['scheme'], prev=prev.get(oi, 'none'), reset=call['reset'], ts=ts, ys=ys, h=h, L=call['L'],
                         mn=call['minDtFrac'], mx=call['maxDtFrac'], events=list(log), tend=float(main.t), yend=join_items(main.X)))
        prev[oi] = call['scheme']
    return segs


def group_steps(events):
    """[(stage calls [(t, x)], (accepted time, accepted state))] from the event stream of one call"""
    steps, cur = [], []
    for kind, a, b in events:
        if kind == 'f':
            cur.append((float(a), b))
        elif kind == 'p':
            steps.append((cur, (float(a), b)))
            cur = []
    return steps, cur


def classify_pattern(times, start, dt):
    """which scheme evaluates the right-hand side at these times within the step (start, dt)"""
    for s in SCHEMES:
        cs = EXPECT_C[s]
        if len(times) == len(cs) and all(abs(t - (start + cj * dt)) <= 1e-9 * abs(dt) + 4 * math.ulp(abs(start) + abs(dt)) for t, cj in zip(times, cs)):
            return s
    return 'other(%d calls)' % len(times)


def seg_desc(c, sg):
    return 'call %d of %d on one %s object%s (%s, simTime=%g, minDtFrac=%g, maxDtFrac=%g, proposal %.6g) requested %s, the previous call on this object requested %s' % (
        sg['k'] + 1, len(c['calls']), {'model': 'GenericModel', 'coupler2': 'Coupler-of-2', 'coupler3': 'Coupler-of-3'}[c['site']],
        ' (object %d of %d of the class)' % (sg['obj'] + 1, c['nobj']) if c.get('nobj', 1) > 1 else '',
        'after a model-level reset' if sg['reset'] else 'continuing from t=%r' % sg['ts'] if sg['k'] else 'first call', sg['L'], sg['mn'], sg['mx'], sg['h'], sg['scheme'], sg['prev'])


def history_oracles(res, c, segs):
    """per call: stage pattern of the requested scheme, stage arguments and accepted states against ref_solve for the
    requested scheme from the state the previous call left"""
    F = blocks_rhs(c['blocks'])
    sk = via_site(c['site'])
    allok = True
    for sg in segs:
        req, prev = sg['scheme'], sg['prev']
        case = dict(c, kind='history', call=sg['k'])
        what0 = seg_desc(c, sg)
        steps, dangling = group_steps(sg['events'])
        ref = ref_solve(req, F, sg['ys'], sg['ts'], sg['ts'] + sg['L'], sg['h'], sg['mn'], sg['mx'])
        racc, rtraj, rdts, rcalls = ref
        # ---- stage pattern at the derivative callback
        start, wrong = sg['ts'], None
        for i, (calls, (tp, xp)) in enumerate(steps):
            pat = classify_pattern([t for t, _ in calls], start, tp - start)
            res.count('history:pattern-seen:' + pat.split('(')[0])
            if pat != req and wrong is None:
                wrong = (i, pat, [round((t - start) / (tp - start), 9) if tp != start else None for t, _ in calls])
            start = tp
        if wrong or dangling or not steps:
            i, pat, offs = wrong if wrong else (len(steps), 'no accepted step' if not steps else 'calls after the last accepted step', [])
            ye = sg['yend'].tolist()
            res.violate('solver-type-of-call-ignored:%s-after-%s' % (req, prev),
                        '%s: in accepted step %d the right-hand side is evaluated at the offsets %s of the step = the stage pattern of %s, not of %s (%s); state after the call %s, '
                        'the requested scheme from the same start gives %s' % (what0, i + 1, offs, pat, req, EXPECT_C[req], ye, rtraj[-1].tolist() if rtraj else None),
                        case, dict(pattern=pat, offsets=offs, state=ye), dict(pattern=req, offsets=EXPECT_C[req], state=rtraj[-1].tolist() if rtraj else None))
            allok = False
            continue
        # ---- against the reference for the requested scheme
        if len(steps) != len(racc):
            res.violate('history-steps-%s-after-%s-via-%s' % (req, prev, sk), '%s: %d accepted steps, the reference loop takes %d' % (what0, len(steps), len(racc)), case, len(steps), len(racc))
            allok = False
            continue
        bad = None
        for i, (calls, (tp, xp)) in enumerate(steps):
            if vlib.ulps(tp, racc[i]) > 4:
                bad = ('history-steps', 'accepted time %d is %r, reference %r' % (i + 1, tp, racc[i]), tp, racc[i]); break
            for j, (tj, xj) in enumerate(calls):
                rt, rx = rcalls[i][j]
                if xj.shape != rx.shape or not vlib.all_close(xj, rx, 1e-13, float(np.max(np.abs(rx))) + 1.0) or vlib.ulps(tj, rt) > 4:
                    bad = ('history-stage-args', 'stage %d of step %d is evaluated at (t=%r, x=%s), the requested scheme gives (t=%r, x=%s)' % (j + 1, i + 1, tj, xj.tolist(), rt, rx.tolist()),
                           dict(t=tj, x=xj.tolist()), dict(t=rt, x=rx.tolist())); break
            if bad:
                break
            ry = rtraj[i]
            if xp.shape != ry.shape or not vlib.all_close(xp, ry, 1e-13, float(np.max(np.abs(ry))) + 1.0):
                bad = ('history-step', 'the state accepted at step %d (t=%r) is %s, the requested scheme gives %s' % (i + 1, tp, xp.tolist(), ry.tolist()), xp.tolist(), ry.tolist()); break
        if bad is None and (vlib.ulps(sg['tend'], racc[-1]) > 4 or not vlib.all_close(sg['yend'], rtraj[-1], 1e-13, float(np.max(np.abs(rtraj[-1]))) + 1.0)):
            bad = ('history-model-state', 'after the call the model is at (t=%r, x=%s), the last accepted step was (t=%r, x=%s)' % (sg['tend'], sg['yend'].tolist(), racc[-1], rtraj[-1].tolist()),
                   sg['yend'].tolist(), rtraj[-1].tolist())
        if bad:
            res.violate('%s-%s-after-%s-via-%s' % (bad[0], req, prev, sk), '%s: %s' % (what0, bad[1]), case, bad[2], bad[3])
            allok = False
    return allok


def history_order_case(res, c):
    """observed order of EVERY call's own segment by step halving of the whole history (all proposals halved together);
    error of a segment = max over its accepted states against the closed form started from the segment's own start"""
    ncall = len(c['calls'])
    st = [dict(errs=[], ns=[], ps=[], verdict=None, scale=1.0) for _ in range(ncall)]
    info = None
    for lev in range(7):
        segs = run_history(c, 2.0 ** lev)
        if lev == 0:
            history_oracles(res, c, segs)
        info = segs
        for sg, s in zip(segs, st):
            if s['verdict'] is not None:
                continue
            nom = NOMINAL[sg['scheme']]
            bl = blocks_from(c['blocks'], sg['ys'])
            e = 0.0
            for kind, a, b in sg['events']:
                if kind == 'p':
                    ex = blocks_exact(bl, sg['ts'], float(a))
                    e = max(e, float(np.max(np.abs(b - ex))) if b.shape == ex.shape else math.inf)
                    s['scale'] = max(s['scale'], float(np.max(np.abs(ex))))
            tf = sg['ts'] + sg['L']
            if abs(sg['tend'] - tf) > 8 * math.ulp(abs(tf) + abs(sg['ts'])):
                e = math.inf
            nf = c['calls'][sg['k']]['nf'] * 2.0 ** lev
            s['errs'].append(e); s['ns'].append(nf)
            if e <= 1e-12 * s['scale'] * max(1.0, nf / 64):
                s['verdict'] = 'roundoff'; continue
            if lev >= 1:
                s['ps'].append(math.log(s['errs'][-2] / e) / math.log(s['ns'][-1] / s['ns'][-2]) if math.isfinite(e) and s['errs'][-2] > 0 and e > 0 else -math.inf)
                if lev >= 2 and s['ps'][-1] >= nom - 0.3:
                    s['verdict'] = 'ok'
        if all(s['verdict'] is not None for s in st):
            break
    out = []
    for sg, s in zip(info, st):
        which = sg['scheme']
        if s['verdict'] == 'roundoff' or len(s['ns']) < 3:
            res.count('history-order:%s:%s' % (which, 'exact-to-roundoff' if s['verdict'] == 'roundoff' else 'too-few-levels'))
            out.append(None); continue
        pobs, nom = s['ps'][-1], NOMINAL[which]
        res.count('history-order:%s:%s' % (which, 'LOWER' if s['verdict'] is None else 'nominal' if abs(pobs - nom) <= 0.3 else 'higher'))
        res.count('history-order:%s-after-%s' % (which, sg['prev']))
        out.append(pobs)
        if s['verdict'] is None:
            res.violate('order-%s-call-after-%s-via-%s' % (which, sg['prev'], via_site(c['site'])),
                        '%s: observed convergence order of this call\'s segment %.2f, nominal %d (errors %s for %s steps; system %s in state layout %s)' % (
                            seg_desc(c, sg), pobs, nom, ['%.3g' % e for e in s['errs']], ['%g' % v for v in s['ns']], [b['ode'] for b in c['blocks']], c['layout']),
                        dict(c, kind='history-order', call=sg['k'], n=s['ns'], errors=s['errs']), round(pobs, 3) if math.isfinite(pobs) else repr(pobs), '>= %d - 0.3' % nom)
    return out


ORDER_N0 = {'euler': 24, 'rk4': 6, 'mid': 12}


def gen_history(rng, site, order):
    bl = gen_order_blocks(rng)
    dd = sum(block_dim(b) for b in bl)
    layout = [dd] if rng.random() < 0.4 else gen_split(rng, dd)
    ncalls = rng.choice([2, 2, 3, 4])
    nobj = 2 if (ncalls >= 3 and rng.random() < 0.3) else 1
    calls = []
    for k in range(ncalls):
        obj = rng.randrange(nobj)
        before = [cl['scheme'] for cl in calls if cl['obj'] == obj]
        sch = rng.choice(SCHEMES)
        if before and sch == before[-1] and rng.random() < 0.8:
            sch = rng.choice([s for s in SCHEMES if s != before[-1]])
        calls.append(dict(scheme=sch, L=rng.choice([0.5, 1.0, rng.uniform(0.3, 1.0)]), obj=obj, reset=bool(before) and rng.random() < 0.5,
                          nf=(ORDER_N0[sch] if order else rng.choice([3, 5, 8, 13])) + rng.choice([0.0, 0.3, 0.5]),
                          minDtFrac=1e-8 if order else rng.choice([1e-8, 1e-5, 1e-3]), maxDtFrac=1.0 if order else rng.choice([1.0, 1.0, 0.3])))
    return dict(site=site, blocks=bl, layout=layout, t0=rng.choice([0.0, 0.25, -0.5, 1.0]), nobj=nobj, calls=calls)


def history_witnesses():
    """fixed histories that run first: the sequence of kawin/tests/test_solver.py::test_iterators (Euler, reset, Runge-Kutta on
    the same object), the same as a continuation, the other direction, a user-supplied iterator in between, through a Coupler"""
    bl = [dict(ode='gauss', p=1.0, q=1.0, y0=[1.5]), dict(ode='logistic', p=1.0, q=1.0, y0=[0.25])]
    osc = [dict(ode='rot', p=1.0, q=1.0, y0=[1.0, 0.0])]

    def call(s, reset, L=1.0, nf=None):
        return dict(scheme=s, L=L, nf=float(nf or ORDER_N0[s]), minDtFrac=1e-8, maxDtFrac=1.0, reset=reset, obj=0)
    out = []
    for site, blocks, lay in (('model', bl, [2]), ('model', osc, [0, 0]), ('coupler2', bl, [2]), ('coupler3', osc, [2])):
        for seq in ([('euler', False), ('rk4', True)], [('euler', False), ('rk4', False)], [('rk4', False), ('euler', True)],
                    [('rk4', False), ('mid', False), ('euler', True), ('rk4', False)]):
            if site != 'model' and len(seq) > 2:
                continue
            out.append(dict(site=site, blocks=blocks, layout=lay, t0=0.0, nobj=1, calls=[call(s, r) for s, r in seq]))
    return out


def history_cases(ctx, res, oracle_only, nmul=1):
    rng = ctx.rng
    todo = [('order', c) for c in history_witnesses()]
    for k in range(ctx.n(40, 600) * nmul):
        todo.append(('exact', gen_history(rng, HIST_SITES[k % 3] if k % 2 else 'model', False)))
    for k in range(ctx.n(8, 120) * nmul):
        todo.append(('order', gen_history(rng, HIST_SITES[k % 3], True)))
    lines, keep = [], []
    for kind, c in todo:
        gsite = 'solve-history-via-' + via_site(c['site'])
        fp = (c['site'], repr(c['layout']), repr([(cl['scheme'], cl['reset'], cl['obj'], round(cl['L'], 9)) for cl in c['calls']]), repr([b['ode'] for b in c['blocks']]), c['t0'])
        if kind == 'exact':
            ok, segs = guarded(res, gsite, dict(c, kind='history'), run_history, c)
            res.case(('history',) + fp, True)
            if ok:
                history_oracles(res, c, segs)
        else:
            ok, r = guarded(res, gsite, dict(c, kind='history-order'), history_order_case, res, c)
            res.case(('history-order',) + fp, True)
            segs = None
            if ok:
                ok, segs = guarded(res, gsite, dict(c, kind='history'), run_history, c)
        res.count('history:%s:%s' % (kind, via_site(c['site'])))
        res.count('history:calls:%d' % len(c['calls']))
        res.count('history:objects:%d' % c.get('nobj', 1))
        for cl in c['calls']:
            before = [d['scheme'] for d in c['calls'][:c['calls'].index(cl)] if d['obj'] == cl['obj']]
            res.count('history:transition:%s-after-%s:%s' % (cl['scheme'], before[-1] if before else 'none', 'reset' if cl['reset'] else 'continue' if before else 'first'))
        # ---- correspondence: solveCalls (one line per model object: its calls in order)
        if ok and segs is not None and all(len(sg['events']) < 40000 for sg in segs):
            for oi in range(c.get('nobj', 1)):
                mine = [sg for sg in segs if sg['obj'] == oi]
                if not mine:
                    continue
                lines.append('rk.hist %s %d %s %d %s' % (
                    f2b(c['t0']), len(c['blocks']), ' '.join('%d %s %s %s' % (ODE_ID[b['ode']], f2b(b['p']), f2b(b['q']), enc_list(b['y0'])) for b in c['blocks']), len(mine),
                    ' '.join('%s %s %s %s %s %s %d' % (SCHEME_CODE[sg['scheme']], 'T' if sg['reset'] else 'F', f2b(sg['L']), f2b(sg['mn']), f2b(sg['mx']), f2b(sg['h']), 6000) for sg in mine)))
                keep.append((c, oi, mine))
    if ctx.driver_ok and not oracle_only and lines:
        for (c, oi, mine), line in zip(keep, vlib.run_driver(PROP, lines)):
            t = Toks(line)
            if not t.ok:
                res.disagree('rk.hist model error', dict(c, kind='history'), 'ok', t.err); continue
            cnt, good = 0, True
            for sg in mine:
                cur = t.flt(); xf = t.flts(); n = t.nat()
                cnt = (0 if sg['reset'] else cnt) + sum(1 for e in sg['events'] if e[0] == 'f')
                scale = float(np.max(np.abs(sg['yend']))) + 1.0
                if n != cnt or vlib.ulps(cur, sg['tend']) > 8 or not vlib.all_close(sg['yend'], xf, 1e-11, scale):
                    res.disagree('a history of solve calls on one model object (per call: model time, model state, right-hand-side evaluations since the last reset)',
                                 dict(c, kind='history', call=sg['k']), dict(t=sg['tend'], x=sg['yend'].tolist(), rhs_calls=cnt), dict(t=cur, x=xf, rhs_calls=n))
                    good = False
                    break
            if good:
                res.traces += 1


# ====================================================================== storage types of the model's state
# (7) STATE DTYPES: the model keeps its state in arrays of dtype int64 / int32 / float32 / float16 / float64, Python lists of
#     ints, Python / NumPy integer scalars, or mixtures — the initial values written as whole numbers (or dyadic fractions for
#     the reduced float formats), so float(values) is exactly the same initial value.  Oracles: every stage argument and every
#     accepted state equal ref_solve run on float(values) (1e-13), every state the SOLVER computed (all callbacks after the
#     very first of a run, which is the model's own state) is floating point, the model's own arrays are not modified,
#     observed order 1 / 4.
ARR_DTYPES = ['int64', 'int32', 'float32', 'float64', 'float16', 'pylist']
INT_SCALARS = ['pyint', 'npint64', 'npint32']
LEAN_DTYPE = {'int64': 'i64', 'int32': 'i32', 'float32': 'f32', 'float16': 'f16', 'float64': 'f64', 'pylist': 'i64', 'pyint': 'i64', 'npint64': 'i64', 'npint32': 'i32',
              'pyfloat': 'f64', 'npfloat32': 'f32'}
DT_SITES = ['model', 'model', 'desolver', 'coupler2']
DT_SITE_NAME = {'model': 'model-default-flatten', 'desolver': 'desolver-identity-flatten', 'coupler2': 'coupler'}


def typed_items(y, layout):
    """state list from the flat values y: layout = [[kind, n], ...], kind an array dtype / 'pylist' (n >= 1) or a scalar kind (n = 0)"""
    X, k = [], 0
    for kind, n in layout:
        sz = max(1, n)
        v = [float(u) for u in y[k:k + sz]]
        k += sz
        if n == 0:
            X.append({'pyint': lambda u: int(round(u)), 'npint64': lambda u: np.int64(round(u)), 'npint32': lambda u: np.int32(round(u)),
                      'pyfloat': float, 'npfloat32': np.float32}[kind](v[0]))
        elif kind == 'pylist':
            X.append([int(round(u)) for u in v])
        elif kind.startswith('int'):
            X.append(np.array([int(round(u)) for u in v], dtype=kind))
        else:
            X.append(np.array(v, dtype=kind))
    return X


def items_flat(X):
    return np.concatenate([np.ravel(np.asarray(x, dtype=float)) for x in X])


def items_kinds(X):
    return tuple(np.asarray(x).dtype.name for x in X)


def dtype_label(layout):
    return '+'.join(sorted({k for k, _ in layout}))


def run_dtype(c, h):
    """case c through the real solver; the state items are built in the storage types of c['layout'].  Records every
    callback: ('f' | 'p', time, values as float64, dtype names of the items)."""
    vlib.use_repo()
    from kawin.solver.Solver import DESolver
    from kawin.GenericModel import GenericModel, Coupler
    which, site = c['iterator'], c['site']
    blocks, layout = c['blocks'], c['layout']
    y0 = np.concatenate([np.asarray(b['y0'], float) for b in blocks])
    F = blocks_rhs(blocks)
    sizes = [max(1, n) for _, n in layout]
    rec = dict(events=[], t0=c['t0'], tf=c['t0'] + c['L'], own_state_changed=False)

    def split_like(dv):
        out, k = [], 0
        for (kind, n), sz in zip(layout, sizes):
            out.append(float(dv[k]) if n == 0 else np.array(dv[k:k + sz], float))
            k += sz
        return out

    if site == 'desolver':
        x0 = typed_items(y0, [[layout[0][0], len(y0)]])[0]
        if isinstance(x0, list):
            x0 = np.array(x0)
        keep = x0.copy()

        def ff(t, x):
            rec['events'].append(('f', float(t), np.array(x, float), (np.asarray(x).dtype.name,)))
            return F(float(t), np.array(x, float))

        def post(t, x):
            rec['events'].append(('p', float(t), np.array(x, float), (np.asarray(x).dtype.name,)))
            return x, False
        s = DESolver(_solver_type(which), minDtFrac=c['minDtFrac'], maxDtFrac=c['maxDtFrac'])
        s.setFunctions(postProcess=post)
        s.setdXdtFunctions(ff, s.correctdXdtNotImplemented, lambda dXdt: h, s.flattenXNotImplemented, s.unflattenXNotImplemented)
        s.solve(c['t0'], x0, c['t0'] + c['L'])
        rec['own_state_changed'] = not (x0.dtype == keep.dtype and np.array_equal(x0, keep))
        return rec

    class MT(GenericModel):
        def __init__(m, record):
            super().__init__()
            m.t, m.record = c['t0'], record

        def getCurrentX(m):
            return m.t, m.X

        def getdXdt(m, t, x):
            if m.record:
                rec['events'].append(('f', float(t), items_flat(x), items_kinds(x)))
                return split_like(F(float(t), items_flat(x)))
            return m.G(float(t), x)

        def getDt(m, dXdt):
            return h

        def postProcess(m, time, x):
            m.t = time
            m.X = list(x)
            if m.record:
                rec['events'].append(('p', float(time), items_flat(x), items_kinds(x)))
            return x, False
    m = MT(True)
    m.X = typed_items(y0, layout)
    first = list(m.X)
    first_copy = [np.array(x, copy=True) for x in first]
    if site == 'coupler2':
        comp = dict(COMPANIONS[0])
        other = MT(False)
        other.X = split_items(np.asarray(comp['y0'], float), [0, 1])
        Fo = blocks_rhs([comp])
        other.G = lambda t, x: split_items(Fo(t, join_items(x)), [0, 1])
        cp = Coupler([other, m])
        cp.time = np.array([c['t0']], float)
        cp.solve(c['L'], solverType=_solver_type(which), minDtFrac=c['minDtFrac'], maxDtFrac=c['maxDtFrac'])
    else:
        m.solve(c['L'], solverType=_solver_type(which), minDtFrac=c['minDtFrac'], maxDtFrac=c['maxDtFrac'])
    rec['own_state_changed'] = any(np.asarray(a).dtype != b.dtype or not np.array_equal(np.asarray(a), b) for a, b in zip(first, first_copy))
    return rec


def _representable(vals, label):
    """are all values representable in the (coarsest) storage type named in the label"""
    v = np.asarray(vals, float)
    if any(k in label for k in ('int', 'pylist')):
        return bool(np.all(v == np.round(v)))
    if 'float16' in label:
        return bool(np.all(v == v.astype(np.float16).astype(float)))
    if 'float32' in label:
        return bool(np.all(v == v.astype(np.float32).astype(float)))
    return False


def dtype_case(res, c):
    """one run + oracles; returns rec for the correspondence"""
    which, site = c['iterator'], c['site']
    label, sk = dtype_label(c['layout']), DT_SITE_NAME[site]
    h = c['L'] / c['nf']
    rec = run_dtype(c, h)
    y0 = np.concatenate([np.asarray(b['y0'], float) for b in c['blocks']])
    racc, rtraj, rdts, rcalls = ref_solve(which, blocks_rhs(c['blocks']), y0, c['t0'], c['t0'] + c['L'], h, c['minDtFrac'], c['maxDtFrac'])
    desc = '%s iterator, %s, state items %s (initial values %s)' % (which, sk, c['layout'], y0.tolist())
    case = dict(c, kind='dtype')
    steps, cur = [], []
    for ev in rec['events']:
        if ev[0] == 'f':
            cur.append(ev)
        else:
            steps.append((cur, ev)); cur = []
    s = len(EXPECT_C[which])

    def bad(key, what, obs, req):
        res.violate(key, '%s: %s' % (desc, what), case, obs, req)
        return False
    ok = True
    # ---- values against the float64 reference
    if len(steps) != len(racc) or any(len(cl) != s for cl, _ in steps):
        ok = bad('state-dtype-%s-steps-%s-via-%s' % (label, which, sk), '%d accepted steps with %s right-hand-side calls, the reference takes %d steps of %d calls' % (
            len(steps), sorted({len(cl) for cl, _ in steps}), len(racc), s), len(steps), len(racc))
    else:
        for i, (calls, pev) in enumerate(steps):
            hit = None
            for j, ev in enumerate(calls):
                rt, rx = rcalls[i][j]
                if ev[2].shape != rx.shape or not vlib.all_close(ev[2], rx, 1e-13, float(np.max(np.abs(rx))) + 1.0) or vlib.ulps(ev[1], rt) > 4:
                    hit = ('stage %d of step %d' % (j + 1, i + 1), ev, rt, rx); break
            if hit is None and (pev[2].shape != rtraj[i].shape or not vlib.all_close(pev[2], rtraj[i], 1e-13, float(np.max(np.abs(rtraj[i]))) + 1.0) or vlib.ulps(pev[1], racc[i]) > 4):
                hit = ('the state accepted at step %d' % (i + 1), pev, racc[i], rtraj[i])
            if hit:
                where, ev, rt, rx = hit
                trunc = _representable(ev[2], label) and not _representable(rx, label)
                ok = bad('state-dtype-%s-%s-%s-via-%s' % (label, 'truncated' if trunc else 'differs', which, sk),
                         '%s is (t=%r, x=%s, item types %s), the scheme computed in double precision from float(initial values) gives (t=%r, x=%s)%s' % (
                             where, ev[1], ev[2].tolist(), list(ev[3]), rt, rx.tolist(), ' — the values are those of the storage type of the model\'s initial arrays' if trunc else ''),
                         dict(t=ev[1], x=ev[2].tolist(), types=list(ev[3])), dict(t=rt, x=rx.tolist()))
                break
    # ---- every state the solver computed is floating point
    for n, ev in enumerate(rec['events']):
        if n == 0:
            res.count('state-dtype:first-callback-gets:' + '+'.join(sorted(set(ev[3]))))
            continue
        odd = [k for k in ev[3] if not k.startswith('float')]
        if odd:
            ok = bad('state-dtype-%s-callback-gets-non-float-%s-via-%s' % (label, which, sk),
                     'callback %d (%s at t=%r) receives state items of types %s: a state computed by the solver is handed on in the integer type of the initial array' % (
                         n + 1, 'getdXdt' if ev[0] == 'f' else 'postProcess', ev[1], list(ev[3])), list(ev[3]), 'floating point')
            break
    if rec['own_state_changed']:
        ok = bad('solver-modifies-state-array-it-was-given-%s-state-dtype-%s-via-%s' % (which, label, sk), 'the arrays the model supplied as its state were modified during the run', 'modified', 'unchanged')
    tf = rec['tf']
    if not steps or abs(steps[-1][1][1] - tf) > 4 * math.ulp(abs(tf)) + 4 * math.ulp(abs(rec['t0'])):
        ok = bad('end-time-not-tf-state-dtype-%s-via-%s' % (label, sk), 'the run ended at %r instead of %r' % (steps[-1][1][1] if steps else rec['t0'], tf), steps[-1][1][1] if steps else None, tf)
    return rec, steps, ok


def dtype_order_case(res, c):
    which = c['iterator']
    nom = NOMINAL[which]
    n0 = ORDER_N0[which]
    label = dtype_label(c['layout'])
    errs, ns, ps = [], [], []
    verdict, scale = None, 1.0
    for lev in range(7):
        nf = n0 * 2 ** lev + c.get('frac', 0.0)
        rec = run_dtype(c, c['L'] / nf)
        e, last = 0.0, None
        for ev in rec['events']:
            if ev[0] == 'p':
                ex = blocks_exact(c['blocks'], c['t0'], ev[1])
                e = max(e, float(np.max(np.abs(ev[2] - ex))) if ev[2].shape == ex.shape else math.inf)
                scale = max(scale, float(np.max(np.abs(ex))))
                last = ev[1]
        if last is None or abs(last - rec['tf']) > 8 * math.ulp(abs(rec['tf']) + abs(rec['t0'])):
            e = math.inf
        errs.append(e); ns.append(nf)
        if e <= 1e-12 * scale * max(1.0, nf / 64):
            verdict = 'roundoff'; break
        if lev >= 1:
            ps.append(math.log(errs[-2] / e) / math.log(ns[-1] / ns[-2]) if math.isfinite(e) and errs[-2] > 0 and e > 0 else -math.inf)
            if lev >= 2 and ps[-1] >= nom - 0.3:
                verdict = 'ok'; break
    if verdict == 'roundoff' or len(ns) < 3:
        res.count('state-dtype-order:%s:%s' % (which, 'exact-to-roundoff' if verdict == 'roundoff' else 'too-few-levels'))
        return None
    pobs = ps[-1]
    res.count('state-dtype-order:%s:%s' % (which, 'LOWER' if verdict is None else 'nominal' if abs(pobs - nom) <= 0.3 else 'higher'))
    if verdict is None:
        res.violate('order-%s-state-dtype-%s-via-%s' % (which, label, DT_SITE_NAME[c['site']]),
                    '%s iterator, %s, system %s with state items %s (initial values %s): observed convergence order %.2f (errors %s for %s steps)' % (
                        which, DT_SITE_NAME[c['site']], [b['ode'] for b in c['blocks']], c['layout'], [b['y0'] for b in c['blocks']], pobs, ['%.3g' % e for e in errs], ['%g' % v for v in ns]),
                    dict(c, kind='dtype-order', n=ns, errors=errs), round(pobs, 3) if math.isfinite(pobs) else repr(pobs), '>= %d - 0.3' % nom)
    return pobs


def gen_whole_blocks(rng, dyadic=False):
    """smooth systems whose initial values are whole numbers (dyadic fractions allowed for the float formats)"""
    fam = rng.choice([['rot'], ['rot', 'lin'], ['chirp'], ['rot', 'gauss'], ['lin', 'forced'], ['chirp', 'forced', 'lin'], ['rot', 'rot'], ['gauss', 'tcos']])
    bl = []
    for o in fam:
        pr = gen_problem(rng, allow=[o])
        if o in VECTOR:
            y0 = list(rng.choice([[1, 0], [2, -1], [0, 1], [3, 2], [1, 1]]))
        elif o == 'forced':
            y0 = [rng.choice([0, 1, 2])]
        else:
            y0 = [rng.choice([1, 2, 3, -1])]
        if dyadic and rng.random() < 0.5:
            y0 = [v + rng.choice([0.5, 0.25, -0.5, 0.0]) for v in y0]
        bl.append(dict(ode=o, p=pr['p'], q=pr['q'], y0=[float(v) for v in y0]))
    return bl


def gen_dtype_layout(rng, d, ty, site):
    if site == 'desolver':
        return [[ty, d]]
    r = rng.random()
    if r < 0.4:
        return [[ty, d]]                                                   # ONE 1-D array
    if r < 0.6 and d >= 2:
        k = rng.randint(1, d - 1)
        return [[ty, k], [rng.choice([ty, ty, 'float64', 'int64']), d - k]]                # several arrays, possibly of different types
    out = []
    for n in gen_split(rng, d):                                            # arrays and scalars in any order
        if n <= 0:
            out.append([rng.choice(INT_SCALARS + ['pyfloat']) if ty in ('int64', 'int32', 'pylist') else rng.choice(['pyfloat', 'npfloat32', 'pyint']), 0])
        else:
            out.append([ty, n])
    return out


INT_KINDS = ('int64', 'int32', 'pylist', 'pyint', 'npint64', 'npint32')


def whole_where_integer(blocks, layout):
    """initial values that go into integer-typed items are whole numbers (float(values) must BE the initial value)"""
    flat = [v for b in blocks for v in b['y0']]
    k = 0
    for kind, n in layout:
        for _ in range(max(1, n)):
            if kind in INT_KINDS:
                flat[k] = float(round(flat[k]))
            k += 1
    return blocks_from(blocks, flat)


def dtype_witnesses():
    """the oscillator x'=y, y'=-x (+ a decaying component) from the whole numbers [1, 0] kept as ONE integer array, as float32,
    as a Python list, as integer scalars — through GenericModel.solve, a bare DESolver and a Coupler"""
    osc = [dict(ode='rot', p=1.0, q=1.0, y0=[1.0, 0.0])]
    osc3 = osc + [dict(ode='lin', p=-1.0, q=0.5, y0=[2.0])]
    out = []
    for which in ('euler', 'rk4'):
        for site, bl, lay in (('model', osc, [['int64', 2]]), ('model', osc3, [['int32', 3]]), ('model', osc, [['pylist', 2]]), ('model', osc, [['pyint', 0], ['npint64', 0]]),
                              ('model', osc3, [['float32', 2], ['pyint', 0]]), ('desolver', osc, [['int64', 2]]), ('coupler2', osc3, [['int64', 3]]), ('model', osc3, [['float16', 3]])):
            base = dict(blocks=bl, layout=lay, t0=0.0, L=2.0, minDtFrac=1e-8, maxDtFrac=1.0, site=site, iterator=which)
            out.append(('exact', dict(base, nf=20.0)))
            if which == 'rk4' or site == 'model':
                out.append(('order', dict(base, frac=0.0)))
    return out


def dtype_cases(ctx, res, oracle_only, nmul=1):
    rng = ctx.rng
    todo = dtype_witnesses()
    for k in range(ctx.n(48, 700) * nmul):
        which = rng.choice(['rk4', 'rk4', 'euler'])
        site = DT_SITES[k % len(DT_SITES)]
        ty = ARR_DTYPES[k % len(ARR_DTYPES)]
        bl = gen_whole_blocks(rng, dyadic=ty.startswith('float'))
        dd = sum(block_dim(b) for b in bl)
        lay = gen_dtype_layout(rng, dd, ty, site)
        todo.append(('exact', dict(blocks=whole_where_integer(bl, lay), layout=lay, t0=rng.choice([0.0, 0.25, -0.5, 1.0]), L=rng.choice([1.0, 0.5, 2.0, rng.uniform(0.5, 2.0)]),
                                   minDtFrac=rng.choice([1e-8, 1e-5, 1e-3]), maxDtFrac=rng.choice([1.0, 1.0, 0.3]), site=site, iterator=which,
                                   nf=rng.choice([3, 5, 8, 13, 30]) + rng.choice([0.0, 0.3, 0.5]))))
    for k in range(ctx.n(10, 160) * nmul):
        which = rng.choice(['rk4', 'rk4', 'euler'])
        site = DT_SITES[(k + 1) % len(DT_SITES)]
        ty = ARR_DTYPES[k % len(ARR_DTYPES)]
        bl = gen_whole_blocks(rng, dyadic=ty.startswith('float'))
        dd = sum(block_dim(b) for b in bl)
        lay = gen_dtype_layout(rng, dd, ty, site)
        todo.append(('order', dict(blocks=whole_where_integer(bl, lay), layout=lay, t0=rng.choice([0.0, 0.25, -0.5]), L=rng.choice([1.0, 2.0, rng.uniform(0.5, 2.0)]),
                                   minDtFrac=1e-8, maxDtFrac=1.0, site=site, iterator=which, frac=rng.choice([0.0, 0.37, 0.5]))))
    lines, keep = [], []
    for kind, c in todo:
        gsite = 'solve-via-' + DT_SITE_NAME[c['site']]
        label = dtype_label(c['layout'])
        if kind == 'exact':
            ok, r = guarded(res, gsite, dict(c, kind='dtype'), dtype_case, res, c)
            res.case(('dtype', c['iterator'], c['site'], repr(c['layout']), c['nf'], round(c['t0'], 9), repr([b['ode'] for b in c['blocks']])), True)
            if ok and r is not None and r[1] and len(r[1]) < 4000:
                rec, steps, fine = r
                lines.append('rk.dtype %s %s %s %s %s %s %d %d %s %d %s' % (
                    'E' if c['iterator'] == 'euler' else 'R', f2b(c['t0']), f2b(c['t0'] + c['L']), f2b(c['minDtFrac']), f2b(c['maxDtFrac']), f2b(c['L'] / c['nf']), 5000, len(c['blocks']),
                    ' '.join('%d %s %s %s' % (ODE_ID[b['ode']], f2b(b['p']), f2b(b['q']), enc_list(b['y0'])) for b in c['blocks']),
                    len(c['layout']), ' '.join('%s %d' % (LEAN_DTYPE[kd], n) for kd, n in c['layout'])))
                keep.append((c, steps))
        else:
            guarded(res, gsite, dict(c, kind='dtype-order'), dtype_order_case, res, c)
            res.case(('dtype-order', c['iterator'], c['site'], repr(c['layout']), repr([b['ode'] for b in c['blocks']]), round(c['L'], 9)), True)
        res.count('state-dtype:%s:%s' % (kind, DT_SITE_NAME[c['site']]))
        res.count('state-dtype:items:' + label)
    if ctx.driver_ok and not oracle_only and lines:
        for (c, steps), line in zip(keep, vlib.run_driver(PROP, lines)):
            t = Toks(line)
            if not t.ok:
                res.disagree('rk.dtype model error', dict(c, kind='dtype'), 'ok', t.err); continue
            n = t.nat(); cur = t.flt(); xf = t.flts()
            last = steps[-1][1]
            scale = float(np.max(np.abs(last[2]))) + 1.0
            if n != len(steps) or vlib.ulps(cur, last[1]) > 8 or not vlib.all_close(last[2], xf, 1e-11, scale):
                res.disagree('the solve loop for a model whose state items have the given storage types (the type of the reference state is not consulted)', dict(c, kind='dtype'),
                             dict(n=len(steps), t=last[1], x=last[2].tolist()), dict(n=n, t=cur, x=xf))
            else:
                res.traces += 1


# ====================================================================== corr
def corr(ctx, oracle_only=False, nmul=1):
    res = Result()
    res.rule = ('random problems from 11 families (linear, logistic, rotation, y*cos t, Gaussian, chirp rotation, t*y^2, t^k, quadrature, forced, y\'=y returning its argument) x '
                'random t, dt, state x both iterators; one-step correspondence (hand model + generated tableau vs real iterator) and step-halving order estimates through '
                'DESolver / GenericModel.solve / Coupler of 2 and of 3 models (every sub-model\'s callback times checked); through-the-solver cases: composite systems of 1-3 blocks in state layouts '
                'mixing Python floats, NumPy scalars and arrays in every order, step proposal L/(n+frac), minDtFrac in {1e-8, 1e-5, 1e-3, 2e-3, 4e-3, 1e-2, 0.05, 0.3}, maxDtFrac in {1, 0.5, 0.3, 0.1}, t0 != 0: '
                'exactness at every reported time (Euler/constants, RK4/cubics in t) and order estimates checked down to the finest permitted step; '
                'ownership cases: composite smooth systems x rhs variant {fresh array, same reused work arrays, views of one internal buffer, (counted only) overwrites its argument} x site {bare DESolver/identity flatten, GenericModel default flatten, copying override, np.reshape view override, Coupler sub-model} '
                'x layout {one 1-D array, several arrays, arrays and scalars, 2-D arrays}: all stage arguments and accepted states against an independent loop in Python floats on copies + order; '
                'scalar-type cases: getDt answer in {float, np.float64, np.float32, np.float16, 0-d double, 0-d single, int} x start time / simulation time in {float, int, np.float32, np.float64} x the three sites: types seen by callbacks, clock = sum of steps, stage times, end time, reference, order; '
                'histories: 2-4 solve calls on one model object (scheme in {euler, rk4, user-supplied midpoint}, simTime, minDtFrac in {1e-8, 1e-5, 1e-3}, maxDtFrac in {1, 0.3}, proposal L/(n+frac), reset or continuation) x site {GenericModel, Coupler of 2, Coupler of 3} x 1-2 objects of the class: stage pattern, reference per call, order per call; '
                'state dtypes: initial state in {int64, int32, float32, float64, float16 arrays, Python lists of ints} x {one array, several arrays of possibly different types, arrays and Python/NumPy integer or float scalars} x site {GenericModel, bare DESolver, Coupler}: reference on float(values), float states, own arrays untouched, order; '
                'non-trivial = non-zero derivative; distinct = (iterator, family, parameters)')
    rng = ctx.rng
    vlib.use_repo()

    # ---------------- 0. the generated tableau, as compiled into the driver, against a numeric run of the real code
    tabs = None
    try:
        tabs = tableaux()
    except Exception as e:   # regenerate() already reported it; the oracle below still runs
        res.count('tableau-extraction-failed')
    model_tab = {}
    if ctx.driver_ok and not oracle_only:
        out = vlib.run_driver(PROP, ['rk.tableau E', 'rk.tableau R'])
        for which, line in zip(('euler', 'rk4'), out):
            t = Toks(line)
            if not t.ok:
                res.disagree('rk.tableau', which, 'ok', t.err); continue
            c = t.flts(); nA = t.nat(); A = [t.flts() for _ in range(nA)]; b = t.flts()
            model_tab[which] = (c, A, b)
            # numeric probe of the real iterator with plain doubles and fixed stage derivatives
            for _ in range(3):
                ks = [rng.uniform(-2, 2) for _ in c]
                tt, dt, x = rng.uniform(-1, 2), rng.uniform(0.01, 0.5), rng.uniform(-2, 2)
                from kawin.solver.Solver import DESolver
                seen = []
                def f(t_, x_, seen=seen, ks=ks):
                    seen.append((float(t_), float(x_))); return ks[len(seen) - 1]
                def probe():
                    s = DESolver(_solver_type(which))
                    s.setdXdtFunctions(f, s.correctdXdtNotImplemented, lambda d: dt, s.flattenXNotImplemented, s.unflattenXNotImplemented)
                    s._dtmin, s._dtmax, s._X0 = 0.0, math.inf, x
                    return s.iterator(s._getdXdt, tt, x, s._updateX)
                ok, r = guarded(res, 'iterator-' + which, dict(kind='probe', iterator=which, t=tt, dt=dt, x=x, ks=ks), probe)
                if not ok:
                    continue
                xnew = r[0]
                pred_t = [tt + ci * dt for ci in c]
                pred_x = [x + dt * sum(a * k for a, k in zip(Ai, ks)) for Ai in A]
                pred_new = x + dt * sum(bi * k for bi, k in zip(b, ks))
                got_t = [u for u, _ in seen]; got_x = [v for _, v in seen]
                if len(seen) != len(c) or not vlib.all_close(got_t, pred_t, 1e-12, 1.0) or not vlib.all_close(got_x, pred_x, 1e-12, 1.0) or not close(xnew, pred_new, 1e-12, 1.0):
                    res.disagree('generated tableau does not reproduce the real iterator numerically', dict(iterator=which, t=tt, dt=dt, x=x, ks=ks),
                                 dict(times=got_t, states=got_x, xnew=float(xnew)), dict(times=pred_t, states=pred_x, xnew=pred_new))
                res.case(('tab', which, round(tt, 6), round(dt, 6)), True)
            res.count('tableau-numeric-probe:' + which, 3)

    # ---------------- 1. one-step correspondence on doubles
    N = ctx.n(400, 6000) * nmul
    cases, lines = [], []
    for _ in range(N):
        which = rng.choice(['euler', 'rk4', 'rk4'])
        prob = gen_problem(rng)
        dim = 2 if prob['ode'] in VECTOR else rng.choice([1, 1, 3])
        x = [rng.uniform(0.2, 1.5) for _ in range(dim)]
        if prob['ode'] == 'logistic':
            x = [min(v, 0.9) for v in x]
        t = rng.choice([0.0, prob['t0'], rng.uniform(-1, 3)])
        dt = rng.choice([0.5, 0.25, 0.1, 1e-3, rng.uniform(1e-4, 0.5)])
        fv = rng.choice(['plain', 'plain', 'view'])
        cases.append((which, prob, t, x, dt, fv))
        lines.append('rk.iter %s %d %s %s %s %s %s' % ('E' if which == 'euler' else 'R', ODE_ID[prob['ode']], f2b(prob['p']), f2b(prob['q']), f2b(t), f2b(dt), enc_list(x)))
        if dim == 1:
            lines.append('rk.tabstep %s %d %s %s %s %s %s' % ('E' if which == 'euler' else 'R', ODE_ID[prob['ode']], f2b(prob['p']), f2b(prob['q']), f2b(t), f2b(dt), f2b(x[0])))
    model = vlib.run_driver(PROP, lines) if (ctx.driver_ok and not oracle_only) else None
    li = 0
    for which, prob, t, x, dt, fv in cases:
        desc = dict(prob, kind='step', iterator=which, t=t, x=x, dt=dt, fvariant=fv)
        ok, r = guarded(res, 'iterator-' + which, desc, one_step, which, prob, t, x, dt, fv)
        if not ok:
            li += 2 if len(x) == 1 else 1
            res.case((which, prob['ode'], round(prob['p'], 9), round(dt, 9), len(x)), False)
            continue
        xnew, calls, xin, ref, dtret = r
        f = _rhs(prob['ode'], prob['p'], prob['q'])
        nontriv = bool(np.any(np.asarray(f(t, ref.copy())) != 0))
        res.case((which, prob['ode'], round(prob['p'], 9), round(dt, 9), len(x)), nontriv)
        res.count('iter:' + which); res.count('ode:' + prob['ode']); res.count('dim:%d' % len(x))
        if len(res.samples) < 2:
            res.sample(dict(desc, xnew=xnew.tolist(), callback_times=[c[0] for c in calls]))
        scale = float(np.max(np.abs(xnew))) + 1.0
        # ---- direct oracle on this single step: textbook formula, callback times, input untouched
        want = ref_step(which, f, t, ref, dt)
        if not vlib.all_close(xnew, want, 1e-12, scale):
            key = 'step-%s-%s' % (which, 'autonomous' if prob['ode'] in AUTONOMOUS else 'time-dependent')
            res.violate(key, '%s iterator: one step differs from the documented scheme on %s' % (which, prob['ode']), desc, xnew.tolist(), want.tolist())
        want_t = [t + cj * dt for cj in EXPECT_C[which]]
        got_t = [c[0] for c in calls]
        if len(got_t) != len(want_t) or any(vlib.ulps(a, b) > 4 for a, b in zip(got_t, want_t)):
            res.violate('stage-times-%s' % which, '%s iterator evaluates the right-hand side at %s, documented %s' % (which, got_t, want_t),
                        desc, got_t, want_t)
        if not np.array_equal(xin, ref):
            res.violate('%s-modifies-input-vector' % which, '%s iterator modified the state vector it was given: %s -> %s' % (which, ref.tolist(), xin.tolist()),
                        desc, xin.tolist(), ref.tolist())
        # ---- correspondence
        if model is not None:
            tk = Toks(model[li]); li += 1
            if not tk.ok:
                res.disagree('rk.iter model error', desc, 'ok', tk.err)
            else:
                mx = tk.flts(); mt = tk.flts(); ms = tk.flts(); mold = tk.flts()
                if not vlib.all_close(xnew, mx, 1e-12, scale):
                    res.disagree('iterator result', desc, xnew.tolist(), mx)
                if len(mt) != len(got_t) or any(vlib.ulps(a, b) > 4 for a, b in zip(got_t, mt)):
                    res.disagree('callback times', desc, got_t, mt)
                flat_states = [v for c in calls for v in c[1].tolist()]
                if not vlib.all_close(flat_states, ms, 1e-12, scale):
                    res.disagree('callback states', desc, flat_states, ms)
                if not (list(map(float, xin)) == mold):
                    res.disagree('input vector after the call', desc, xin.tolist(), mold)
            if len(x) == 1:
                tk = Toks(model[li]); li += 1
                if not tk.ok or not close(float(xnew[0]), tk.flt(), 1e-12, scale):
                    res.disagree('general Runge-Kutta step with the generated tableau', desc, float(xnew[0]), model[li - 1])
        elif len(x) == 1:
            pass

    # ---------------- 2. direct oracle: aliasing, callback times over whole runs, convergence order
    #                     (through DESolver, GenericModel.solve and Couplers of 2 and 3 models)
    for _ in range(ctx.n(12, 200) * nmul):
        which = rng.choice(['euler', 'rk4', 'rk4'])
        x = [rng.uniform(0.5, 2.0) for _ in range(rng.choice([1, 2, 5]))]
        t, dt, fv = rng.uniform(0, 2), rng.choice([0.5, 0.1, rng.uniform(0.01, 0.5)]), rng.choice(['plain', 'view'])
        guarded(res, 'iterator-' + which, dict(kind='alias', iterator=which, x=x, t=t, dt=dt, f='returns its argument object' if fv == 'plain' else 'returns a view of its argument', ode='ident'),
                alias_case, res, which, x, t, dt, fv)
        res.count('alias-check:' + which)
    # designated witnesses first: y' = 2t, y(0) = 1, two steps of 0.5, stand-alone and as a coupled sub-model
    witness = dict(ode='poly', p=1.0, q=1.0, t0=0.0, L=1.0, y0=[1.0])
    for via in ('model', 'coupler2', 'coupler3'):
        wcase = dict(witness, kind='witness', iterator='rk4', via=via, n=2)
        ok, r = guarded(res, 'solve-via-' + via_site(via), wcase, integrate, 'rk4', witness, 2, via)
        if ok and not close(float(r[0][0]), 2.0, 1e-12):
            res.violate('rk4-not-exact-on-linear-in-t-via-' + via_site(via),
                        "RK4 on y'=2t, y(0)=1, two steps of 0.5, solved through %s gives %r, exact value 2.0 (a 4th-order method integrates polynomials in t up to degree 3 exactly)" % (via, float(r[0][0])),
                        wcase, float(r[0][0]), 2.0)
        res.case(('witness', via), True)
    vias_cycle = list(VIAS)
    for k in range(ctx.n(12, 160) * nmul):
        which = rng.choice(['euler', 'rk4', 'rk4'])
        via = vias_cycle[k % len(vias_cycle)]
        prob, n = gen_problem(rng), rng.choice([2, 4, 7])
        guarded(res, 'solve-via-' + via_site(via), dict(prob, kind='times', iterator=which, via=via, n=n), times_case, res, which, prob, via, n)
        res.count('times-check:%s:%s' % (which, via_site(via)))
    pobs_all = {'euler': [], 'rk4': []}
    for k in range(ctx.n(40, 700) * nmul):
        which = rng.choice(['euler', 'rk4', 'rk4'])
        prob = gen_problem(rng, allow=['lin', 'logistic', 'rot', 'tcos', 'gauss', 'chirp', 'ty2', 'poly', 'quad', 'forced'])
        via = vias_cycle[k % len(vias_cycle)]
        ok, pobs = guarded(res, 'solve-via-' + via_site(via), dict(prob, kind='order', iterator=which, via=via), order_case, res, which, prob, via)
        res.case(('order', which, via, prob['ode'], round(prob['p'], 9), round(prob['L'], 9)), True)
        res.count('order-check:%s:%s' % (which, via_site(via)))
        if pobs is not None:
            pobs_all[which].append(pobs)
    res.extra['observed_order'] = {w: dict(n=len(v), min=round(min(v), 3), max=round(max(v), 3), mean=round(sum(v) / len(v), 3)) for w, v in pobs_all.items() if v}
    res.traces = 0
    # ---------------- 3. through the solver: state layouts mixing scalars and arrays, step options, non-commensurate times
    through_cases(ctx, res, oracle_only, nmul)
    # ---------------- 4./5. ownership of the arrays a model hands back; scalar types of getDt / start time / simulation time
    through2_cases(ctx, res, oracle_only, nmul)
    # ---------------- 6. histories of solve calls on one model object (scheme of every call; resets; continuation)
    history_cases(ctx, res, oracle_only, nmul)
    # ---------------- 7. storage types of the model's state (integer / reduced-precision arrays, lists, integer scalars)
    dtype_cases(ctx, res, oracle_only, nmul)
    return res


def search(ctx, broken):
    """a proof or the correspondence broke: look for a failing input on the implementation"""
    return corr(ctx, oracle_only=True, nmul=3)


def replay(ctx, entry):
    c = entry['violation']['case']
    try:
        return _replay(c)
    except Exception as e:
        print('   the code under test raised %s: %s' % (type(e).__name__, e))
        return False


def _replay(c):
    res = Result()
    kind = c.get('kind')
    prob = {k: c[k] for k in ('ode', 'p', 'q', 't0', 'L', 'y0') if k in c}
    if kind == 'order':
        order_case(res, c['iterator'], prob, c['via'])
    elif kind == 'times':
        times_case(res, c['iterator'], prob, c['via'], n=c.get('n', 4))
    elif kind == 'alias':
        alias_case(res, c['iterator'], c['x'], c['t'], c['dt'], 'plain' if 'object' in c['f'] else 'view', c.get('ode', 'ident'))
    elif kind == 'witness':
        y, *_ = integrate('rk4', prob, 2, c.get('via', 'model'))
        if not close(float(y[0]), 2.0, 1e-12):
            res.violate('rk4-not-exact-on-linear-in-t', 'y(1) = %r, exact 2.0' % float(y[0]), c, float(y[0]), 2.0)
    elif kind == 'exact-through':
        exact_through_case(res, c)
    elif kind == 'order-through':
        order_through_case(res, {k: v for k, v in c.items() if k not in ('n', 'errors')})
    elif kind == 'through2':
        through2_case(res, {k: v for k, v in c.items() if k != 'kind'})
    elif kind == 'order2':
        order2_case(res, {k: v for k, v in c.items() if k not in ('kind', 'n', 'errors')})
    elif kind in ('history', 'history-order'):
        cc = {k: v for k, v in c.items() if k not in ('kind', 'call', 'n', 'errors')}
        if kind == 'history':
            history_oracles(res, cc, run_history(cc))
        else:
            history_order_case(res, cc)
    elif kind == 'dtype':
        dtype_case(res, {k: v for k, v in c.items() if k != 'kind'})
    elif kind == 'dtype-order':
        dtype_order_case(res, {k: v for k, v in c.items() if k not in ('kind', 'n', 'errors')})
    elif kind == 'buf-step':
        print('   (correspondence case: compare with `rk.buf` of drv_C06)')
    elif kind == 'step':
        which = c['iterator']
        xnew, calls, xin, ref, _ = one_step(which, prob, c['t'], c['x'], c['dt'], c['fvariant'])
        want = ref_step(which, _rhs(prob['ode'], prob['p'], prob['q']), c['t'], ref, c['dt'])
        if not vlib.all_close(xnew, want, 1e-12, float(np.max(np.abs(want))) + 1.0):
            res.violate('step', 'one step differs from the documented scheme', c, xnew.tolist(), want.tolist())
        want_t = [c['t'] + cj * c['dt'] for cj in EXPECT_C[which]]
        if [u[0] for u in calls] != want_t:
            res.violate('stage-times', 'callback times', c, [u[0] for u in calls], want_t)
        if not np.array_equal(xin, ref):
            res.violate('modifies-input', 'input vector modified', c, xin.tolist(), ref.tolist())
    for v in res.violations:
        print('  ', v['key'], v['what'], v['observed'], v['required'])
    return not res.violations
