"""C06 — integrator order.

regenerate(): runs the REAL ExplicitEulerIterator / RK4Iterator (through the real DESolver
`_getdXdt` / `_updateX` wrappers) on symbolic t, dt, X with a right-hand side that records the time
and state it is called with and returns a fresh symbol; the Butcher tableau (A, b, c) the code
implements is read off as exact rationals and written to lean/KawinV/Gen/C06Tableau.lean.  The
theorems in Props/C06.lean are about that generated tableau.

corr(): (1) the compiled tableau and the hand model of the iterators (KawinV.Solver.rk4Iter /
eulerIter / rkStep) against the real iterators on ordinary doubles (results, callback times and
states, input vector afterwards); (2) direct oracle: convergence-order estimation on autonomous
and non-autonomous problems with closed-form solutions through the real solver, the recorded
callback times, and "the iterator does not modify the vector it was given".
"""
import math
import os
from fractions import Fraction
import numpy as np
import vlib
from vlib import Result, enc_list, f2b, Toks, close

PROP = 'C06'
META = {
    'level_text': 'Lean 4 theorems about the Butcher tableau that is extracted from the real iterators on every run (symbolic execution of ExplicitEulerIterator/RK4Iterator through DESolver._getdXdt/_updateX): stage times (0,1/2,1/2,1) and c_i = sum_j a_ij, all 8 order conditions up to order 4 (and failure of an order-5 / order-2 condition, so the orders are exactly 4 and 1), exact integration of y\'=t^k (k<=3) with error exactly dt^5/120 for k=4, the stability polynomial on y\'=lambda*y, and equality of the hand model of the iterator code with the general Runge-Kutta step of the generated tableau for every right-hand side; the compiled tableau and the hand model are compared with the real iterators on every run, and the observed convergence order, callback times and input-vector preservation are checked directly on the real solver.',
    'level_note': 'Trusted: Lean kernel + Mathlib, axioms propext/Classical.choice/Quot.sound; Butcher\'s theorem (order conditions => order of accuracy) is cited, not formalised; the symbolic extraction (tools/corr/C06.py Poly) is validated numerically against the real iterators on each run; "iterator does not modify its input" is a purity statement in the model (trivial theorem) and is enforced by the direct oracle on NumPy arrays, including right-hand sides that return their argument object; exact-field arithmetic instead of IEEE doubles.',
    'technique': 'symbolic extraction of the Butcher tableau from the code + Lean 4 proof on the generated data + differential correspondence + convergence-order oracle',
    'design_ref': 'DESIGN.md section 6, C06',
}
LEAN_MODULES = ['KawinV.Props.C06']
MONITORED = ['observed convergence order on the sampled problem family (Butcher\'s theorem is cited, not formalised)',
             'input vector unchanged on NumPy arrays (aliasing is outside the pure model)']
ASSUMPTIONS = [
    'smooth right-hand sides, step sizes in the asymptotic regime and above round-off (order estimates from step-halving)',
    'the right-hand side returns an array it does not itself overwrite later (a model that reuses one output buffer for every call defeats any multi-stage method)',
    'correctdXdt is the default no-op when the order is measured (a correction changes the method)',
]
TRUSTED = ['Butcher (1963/2008): the 8 order conditions imply local error O(dt^5) for smooth right-hand sides']

GEN_FILE = os.path.join(vlib.LEAN, 'KawinV', 'Gen', 'C06Tableau.lean')


# ====================================================================== symbolic extraction
class TranslatorError(Exception):
    pass


def _lit(x):
    if isinstance(x, Fraction):
        return x
    if isinstance(x, (bool, int, np.integer)):
        return Fraction(int(x))
    if isinstance(x, (float, np.floating)):
        from py2lean.sym import lit_of_float
        fr = lit_of_float(float(x))
        if fr.denominator > 10 ** 6:
            g = Fraction(float(x)).limit_denominator(10 ** 5)
            if float(g) == float(x):
                return g
        return fr
    raise TypeError(type(x))


class Poly:
    """polynomial in named atoms with exact rational coefficients, plus the concrete double of the
    traced run (comparisons are decided on it, as in tools/py2lean/sym.py)"""
    __array_priority__ = 1000

    def __init__(self, terms, val):
        self.terms = {m: c for m, c in terms.items() if c != 0}
        self.val = float(val)

    @staticmethod
    def atom(name, val):
        return Poly({(name,): Fraction(1)}, val)

    @staticmethod
    def of(o):
        if isinstance(o, Poly):
            return o
        c = _lit(o)
        return Poly({(): c}, float(c))

    def _add(self, o, sign):
        try:
            o = Poly.of(o)
        except TypeError:
            return NotImplemented
        t = dict(self.terms)
        for m, c in o.terms.items():
            t[m] = t.get(m, 0) + sign * c
        return Poly(t, self.val + sign * o.val)

    def __add__(self, o): return self._add(o, 1)
    __radd__ = __add__
    def __sub__(self, o): return self._add(o, -1)
    def __rsub__(self, o): return (-self)._add(o, 1)
    def __neg__(self): return Poly({m: -c for m, c in self.terms.items()}, -self.val)
    def __pos__(self): return self

    def __mul__(self, o):
        try:
            o = Poly.of(o)
        except TypeError:
            return NotImplemented
        t = {}
        for m1, c1 in self.terms.items():
            for m2, c2 in o.terms.items():
                m = tuple(sorted(m1 + m2))
                t[m] = t.get(m, 0) + c1 * c2
        return Poly(t, self.val * o.val)
    __rmul__ = __mul__

    def __truediv__(self, o):
        o = Poly.of(o)
        if set(o.terms) - {()} or not o.terms:
            raise TranslatorError('division by a non-constant: not a Runge-Kutta form')
        c = o.terms[()]
        return Poly({m: v / c for m, v in self.terms.items()}, self.val / o.val)

    def _cmp(self, o, f):
        return f(self.val, Poly.of(o).val)
    def __lt__(self, o): return self._cmp(o, lambda a, b: a < b)
    def __le__(self, o): return self._cmp(o, lambda a, b: a <= b)
    def __gt__(self, o): return self._cmp(o, lambda a, b: a > b)
    def __ge__(self, o): return self._cmp(o, lambda a, b: a >= b)
    __hash__ = None

    def __float__(self):      # `float(dt)` in DESolver._getdXdt: the symbol is replaced by its concrete value
        return self.val

    def __repr__(self):
        return 'Poly(%s)' % ' + '.join('%s*%s' % (c, '*'.join(m) or '1') for m, c in sorted(self.terms.items()))


def _trace_once(which, dtval):
    """run the real iterator on symbols; returns dict(c=[..], A=[[..]], b=[..]) of Fractions.
    t and X are symbols; the proposed step is a symbol too, but DESolver._getdXdt hands the clamped step on as
    `float(dt)`, so inside the iterator the step is the concrete dyadic number `dtval`: coefficients are read off
    both forms (symbol `dt` or multiples of dtval), and trace_iterator() repeats the run with another dtval and
    requires the same tableau (a genuine constant in the code would not scale with dt)."""
    vlib.use_repo()
    from kawin.solver.Solver import DESolver, SolverType
    s = DESolver({'euler': SolverType.EXPLICITEULER, 'rk4': SolverType.RK4}[which])
    t, dt, x = Poly.atom('t', 0.3125), Poly.atom('dt', dtval), Poly.atom('x', 1.75)
    dtq = _lit(dtval)
    calls = []

    def f(tt, xx):
        calls.append((Poly.of(tt), Poly.of(xx)))
        return Poly.atom('k%d' % (len(calls) - 1), 0.75 + 0.125 * len(calls))

    s.setdXdtFunctions(f, s.correctdXdtNotImplemented, lambda dXdt: dt, s.flattenXNotImplemented, s.unflattenXNotImplemented)
    s._dtmin, s._dtmax, s._X0 = 1e-8, 1.0, x
    xnew, dtret = s.iterator(s._getdXdt, t, x, s._updateX)
    if not ((isinstance(dtret, Poly) and dtret.terms == {('dt',): 1}) or (not isinstance(dtret, Poly) and float(dtret) == dtval)):
        raise TranslatorError('%s: returned step is not the proposed dt: %r' % (which, dtret))
    n = len(calls)
    ks = ['k%d' % i for i in range(n)]

    def stage_coeffs(p, upto, what):
        """p must be x + dt*sum_j coef_j k_j (j < upto)"""
        p = Poly.of(p)
        terms = dict(p.terms)
        if terms.pop(('x',), None) != 1:
            raise TranslatorError('%s: %s is not X_old + ...: %r' % (which, what, p))
        out = []
        for j in range(upto):
            out.append(terms.pop(tuple(sorted(('dt', ks[j]))), Fraction(0)) + terms.pop((ks[j],), Fraction(0)) / dtq)
        if terms:
            raise TranslatorError('%s: %s has terms outside the Runge-Kutta form: %r' % (which, what, terms))
        return out

    c, A = [], []
    for i, (tt, xx) in enumerate(calls):
        terms = dict(tt.terms)
        if terms.pop(('t',), None) != 1:
            raise TranslatorError('%s: stage %d time is not t + c*dt: %r' % (which, i, tt))
        ci = terms.pop(('dt',), Fraction(0)) + terms.pop((), Fraction(0)) / dtq
        if terms:
            raise TranslatorError('%s: stage %d time is not t + c*dt: %r' % (which, i, tt))
        c.append(ci)
        A.append(stage_coeffs(xx, i, 'stage %d state' % i))
    b = stage_coeffs(xnew, n, 'result')
    return {'c': c, 'A': A, 'b': b}


def trace_iterator(which):
    T1 = _trace_once(which, 0.25)
    T2 = _trace_once(which, 0.5)
    if T1 != T2:
        raise TranslatorError('%s: coefficients do not scale with dt (not a Runge-Kutta form): %r vs %r' % (which, T1, T2))
    return T1


def _q(fr):
    if fr.denominator == 1:
        return str(fr.numerator) if fr >= 0 else '(%d)' % fr.numerator
    return '%d/%d' % (fr.numerator, fr.denominator) if fr > 0 else '(%d/%d)' % (fr.numerator, fr.denominator)


def _ql(xs):
    return '[' + ', '.join(_q(x) for x in xs) + ']'


def lean_source(tabs):
    out = ['/-',
           'GENERATED on every run by tools/corr/C06.py regenerate() — do not edit.',
           'Butcher tableaux read off the real kawin/solver/Iterators.py (through DESolver._getdXdt/_updateX)',
           'by running the iterators on symbolic t, dt, X with a recording right-hand side.',
           'Row i of A holds a_{i,0..i-1}; stage i is evaluated at time t + c_i*dt.',
           '-/',
           'import KawinV.Model.Solver',
           'namespace KawinV.Gen.C06',
           'open KawinV.Solver',
           '']
    doc = {'euler': 'ExplicitEulerIterator', 'rk4': 'RK4Iterator'}
    for name in ('euler', 'rk4'):
        T = tabs[name]
        out.append('/-- %s as implemented -/' % doc[name])
        out.append('def %s : Tableau Rat :=' % name)
        out.append('  { c := %s,' % _ql(T['c']))
        out.append('    A := [%s],' % ', '.join(_ql(r) for r in T['A']))
        out.append('    b := %s }' % _ql(T['b']))
        out.append('')
    out.append('end KawinV.Gen.C06')
    return '\n'.join(out) + '\n'


_TABS = {}


def tableaux():
    if not _TABS:
        for w in ('euler', 'rk4'):
            _TABS[w] = trace_iterator(w)
    return _TABS


def regenerate(ctx):
    _TABS.clear()
    src = lean_source(tableaux())
    return [os.path.relpath(GEN_FILE, vlib.VERIF)] if vlib.write_if_changed(GEN_FILE, src) else []


# ====================================================================== test problems
# Right-hand sides exist twice: here (NumPy, called by the real iterators) and in Drv/C06.lean
# (Float); ids and operation order must match.
def _rhs(ode, p, q):
    if ode == 'lin':       # y' = p*y + q*t
        return lambda t, y: p * y + q * t
    if ode == 'logistic':  # y' = p*y*(1-y)
        return lambda t, y: p * y * (1.0 - y)
    if ode == 'rot':       # y1' = -p*y2, y2' = p*y1
        return lambda t, y: np.array([-(p * y[1]), p * y[0]])
    if ode == 'tcos':      # y' = p*y*cos(q*t)
        return lambda t, y: p * y * math.cos(q * t)
    if ode == 'gauss':     # y' = -2*p*t*y
        return lambda t, y: -2.0 * p * t * y
    if ode == 'chirp':     # y1' = -p*t*y2, y2' = p*t*y1
        return lambda t, y: np.array([-(p * t * y[1]), p * t * y[0]])
    if ode == 'ty2':       # y' = p*t*y*y
        return lambda t, y: p * t * y * y
    if ode == 'poly':      # y' = (q+1)*t^q, q in 0..4
        k = int(q)
        return lambda t, y: (k + 1.0) * t ** k + 0.0 * y
    if ode == 'quad':      # y' = p*cos(q*t)
        return lambda t, y: p * math.cos(q * t) + 0.0 * y
    if ode == 'forced':    # y' = -p*y + sin(t)
        return lambda t, y: -(p * y) + math.sin(t)
    if ode == 'ident':     # y' = y, returned as THE ARGUMENT OBJECT
        return lambda t, y: y
    raise KeyError(ode)


ODE_ID = {'lin': 0, 'logistic': 1, 'rot': 2, 'tcos': 3, 'gauss': 4, 'chirp': 5, 'ty2': 6, 'poly': 7, 'quad': 8, 'forced': 9, 'ident': 10}
VECTOR = {'rot', 'chirp'}
AUTONOMOUS = {'logistic', 'rot', 'ident'}


def _exact(ode, p, q, t0, y0, t):
    """closed-form solution"""
    y0 = np.asarray(y0, float)
    if ode == 'lin':       # y' = p y + q t
        if p == 0:
            return y0 + q * (t * t - t0 * t0) / 2
        # particular: -(q/p) t - q/p^2
        part = lambda s: -(q / p) * s - q / (p * p)
        return (y0 - part(t0)) * math.exp(p * (t - t0)) + part(t)
    if ode == 'logistic':
        return 1.0 / (1.0 + (1.0 / y0 - 1.0) * math.exp(-p * (t - t0)))
    if ode == 'rot':
        a = p * (t - t0); c, s = math.cos(a), math.sin(a)
        return np.array([c * y0[0] - s * y0[1], s * y0[0] + c * y0[1]])
    if ode == 'tcos':
        return y0 * math.exp(p * (math.sin(q * t) - math.sin(q * t0)) / q)
    if ode == 'gauss':
        return y0 * math.exp(-p * (t * t - t0 * t0))
    if ode == 'chirp':
        a = p * (t * t - t0 * t0) / 2; c, s = math.cos(a), math.sin(a)
        return np.array([c * y0[0] - s * y0[1], s * y0[0] + c * y0[1]])
    if ode == 'ty2':
        return 1.0 / (1.0 / y0 - p * (t * t - t0 * t0) / 2)
    if ode == 'poly':
        k = int(q)
        return y0 + t ** (k + 1) - t0 ** (k + 1)
    if ode == 'quad':
        return y0 + p * (math.sin(q * t) - math.sin(q * t0)) / q
    if ode == 'forced':    # y' = -p y + sin t ; particular (p sin t - cos t)/(p^2+1)
        part = lambda s: (p * math.sin(s) - math.cos(s)) / (p * p + 1)
        return (y0 - part(t0)) * math.exp(-p * (t - t0)) + part(t)
    if ode == 'ident':
        return y0 * math.exp(t - t0)
    raise KeyError(ode)


def gen_problem(rng, allow=None):
    ode = rng.choice(allow or ['lin', 'logistic', 'rot', 'tcos', 'gauss', 'chirp', 'ty2', 'poly', 'quad', 'forced', 'ident'])
    t0 = rng.choice([0.0, 0.0, 0.25, 1.0, -0.5, rng.uniform(-1, 2)])
    L = rng.choice([1.0, 0.5, 2.0, rng.uniform(0.5, 2.0)])
    p = rng.uniform(0.3, 1.5) * rng.choice([1, 1, -1])
    q = rng.uniform(0.5, 2.0)
    y0 = [rng.uniform(0.5, 2.0)]
    if ode == 'logistic':
        p = abs(p); y0 = [rng.uniform(0.1, 0.6)]
    elif ode in VECTOR:
        y0 = [rng.uniform(0.5, 2.0), rng.uniform(-1.0, 1.0)]
        p = abs(p)
    elif ode == 'ty2':
        # keep far from the pole: |p| * (tf^2 - t0^2)/2 * y0 <= 0.5
        tf = t0 + L
        span = abs(tf * tf - t0 * t0) / 2 + 0.1
        p = rng.uniform(0.2, 0.5) / (span * y0[0]) * rng.choice([1, -1])
    elif ode == 'poly':
        q = float(rng.choice([0, 1, 1, 2, 3, 4]))
    elif ode == 'forced':
        p = abs(p)
    elif ode == 'gauss':
        p = abs(p) * 0.7
    return dict(ode=ode, p=p, q=q, t0=t0, L=L, y0=y0)


# ====================================================================== running the real code
def _solver_type(which):
    from kawin.solver.Solver import SolverType
    return {'euler': SolverType.EXPLICITEULER, 'rk4': SolverType.RK4}[which]


def integrate(which, prob, n, via):
    """n equal steps over [t0, t0+L] through the real solver; returns (y_end, t_end, calls, accepted, traj)
    calls = list of callback times in order, accepted = list of accepted times, traj = accepted states"""
    vlib.use_repo()
    from kawin.solver.Solver import DESolver
    from kawin.GenericModel import GenericModel
    f = _rhs(prob['ode'], prob['p'], prob['q'])
    t0, L = prob['t0'], prob['L']
    dt = L / n
    calls, accepted, traj = [], [], []
    if via == 'desolver':
        # DESolver used directly on a flat array (flatten/unflatten are the identity defaults)
        s = DESolver(_solver_type(which), minDtFrac=1e-8, maxDtFrac=1)
        state = {}

        def ff(t, x):
            calls.append(float(t)); return f(t, x)

        def post(t, x):
            accepted.append(float(t)); state['x'] = x; traj.append(np.array(x, float)); return x, False
        s.setFunctions(postProcess=post)
        s.setdXdtFunctions(ff, s.correctdXdtNotImplemented, lambda dXdt: dt, s.flattenXNotImplemented, s.unflattenXNotImplemented)
        s.solve(t0, np.array(prob['y0'], float), t0 + L)
        return np.asarray(state['x'], float), accepted[-1], calls, accepted, traj

    class M(GenericModel):
        def __init__(m):
            super().__init__(); m.t = t0; m.y = np.array(prob['y0'], float)
        def getCurrentX(m): return m.t, [m.y]
        def getdXdt(m, t, x):
            calls.append(float(t)); return [f(t, x[0])]
        def getDt(m, dXdt): return dt
        def postProcess(m, time, x):
            m.t = time; m.y = x[0]; accepted.append(float(time)); traj.append(np.array(x[0], float)); return x, False
    m = M()
    m.solve(L, solverType=_solver_type(which), minDtFrac=1e-8, maxDtFrac=1)
    return np.asarray(m.y, float), m.t, calls, accepted, traj


def one_step(which, prob, t, x, dt, fvariant='plain'):
    """ONE call of the real iterator through the DESolver wrappers on a NumPy vector; returns
    (xnew, calls[(t, x copy)], x_after (the array object that was passed in), reference copy)"""
    vlib.use_repo()
    from kawin.solver.Solver import DESolver
    f = _rhs(prob['ode'], prob['p'], prob['q'])
    s = DESolver(_solver_type(which))
    calls = []

    def ff(tt, xx):
        calls.append((float(tt), np.array(xx, float, copy=True)))
        r = f(tt, xx)
        if fvariant == 'view' and isinstance(r, np.ndarray):
            return r[:]
        return r
    s.setdXdtFunctions(ff, s.correctdXdtNotImplemented, lambda dXdt: dt, s.flattenXNotImplemented, s.unflattenXNotImplemented)
    s._dtmin, s._dtmax = 0.0, math.inf
    xin = np.array(x, float)
    ref = xin.copy()
    s._X0 = xin
    xnew, dtret = s.iterator(s._getdXdt, t, xin, s._updateX)
    return np.asarray(xnew, float), calls, xin, ref, dtret


def ref_step(which, f, t, x, dt):
    """independent textbook step on copies"""
    x = np.array(x, float)
    F = lambda tt, xx: np.array(f(tt, np.array(xx, float)), float) + 0.0
    if which == 'euler':
        return x + dt * F(t, x)
    k1 = F(t, x)
    k2 = F(t + dt / 2, x + dt / 2 * k1)
    k3 = F(t + dt / 2, x + dt / 2 * k2)
    k4 = F(t + dt, x + dt * k3)
    return x + dt * (k1 + 2 * k2 + 2 * k3 + k4) / 6


NOMINAL = {'euler': 1, 'rk4': 4}
EXPECT_C = {'euler': [0.0], 'rk4': [0.0, 0.5, 0.5, 1.0]}


def order_case(res, which, prob, via, desc=None):
    """step-halving order estimate through the real solver.  The number of steps is doubled until the
    estimate from the last two levels reaches nominal - 0.3 (asymptotic regime), or the error reaches
    round-off (no estimate possible: counted, not flagged); a violation is an estimate that stays
    below nominal - 0.3 up to the finest level (6 halvings)."""
    nom = NOMINAL[which]
    n = 32 if which == 'euler' else 8
    y0 = prob['y0'] if prob['ode'] in VECTOR else prob['y0'][0]
    errs, ns, ps = [], [], []
    scale = 1.0
    verdict = None
    for lev in range(7):
        m = n * 2 ** lev
        y, tend, calls, acc, traj = integrate(which, prob, m, via)
        # error in the maximum norm over the whole trajectory (the error at one instant can pass
        # through zero for particular parameters, which would spoil a step-halving estimate)
        e = 0.0
        for tk, yk in zip(acc, traj):
            ex = np.atleast_1d(_exact(prob['ode'], prob['p'], prob['q'], prob['t0'], y0, tk))
            e = max(e, float(np.max(np.abs(np.atleast_1d(yk) - ex))))
            scale = max(scale, float(np.max(np.abs(ex))))
        errs.append(e); ns.append(m)
        if e <= 1e-12 * scale * max(1.0, m / 64):
            verdict = 'roundoff'; break
        if lev >= 1:
            ps.append(math.log2(errs[-2] / errs[-1]))
            if lev >= 2 and ps[-1] >= nom - 0.3:
                verdict = 'ok'; break
    desc = dict(desc or {}, iterator=which, via=via, n=ns, errors=errs, **prob)
    if verdict == 'roundoff':
        res.count('order:%s:exact-to-roundoff' % which)
        return None
    pobs = ps[-1]
    res.count('order:%s:%s' % (which, 'LOWER' if verdict is None else 'nominal' if abs(pobs - nom) <= 0.3 else 'higher'))
    res.count('order:levels-needed:%d' % len(ns))
    if verdict is None:
        kind = 'autonomous' if prob['ode'] in AUTONOMOUS else 'time-dependent'
        res.violate('order-%s-%s-rhs' % (which, kind),
                    '%s iterator: observed convergence order %.2f on %s problem %s (errors %s for %s steps)' % (
                        which, pobs, kind, prob['ode'], ['%.3g' % e for e in errs], ns),
                    dict(desc, kind='order'), round(pobs, 3), '>= %d - 0.3' % nom)
    return pobs


def times_case(res, which, prob, via, n=4):
    """callback times recorded through the real solver: every step evaluates the right-hand side at
    t + c_i*dt with c = (0) / (0, 1/2, 1/2, 1)"""
    y, tend, calls, acc, _ = integrate(which, prob, n, via)
    s = len(EXPECT_C[which])
    starts = [prob['t0']] + acc[:-1]
    ok = len(calls) == s * len(acc)
    bad = None
    if ok:
        for i, (a, b) in enumerate(zip(starts, acc)):
            dt = b - a
            for j, cj in enumerate(EXPECT_C[which]):
                want = a + cj * dt
                got = calls[s * i + j]
                if abs(got - want) > 1e-12 * max(1.0, abs(want), abs(dt)) + 1e-9 * abs(dt):
                    bad = dict(step=i, stage=j, called_at=got, documented=want, t=a, dt=dt)
                    break
            if bad:
                break
    if not ok or bad:
        res.violate('stage-times-%s' % which,
                    '%s iterator evaluates the right-hand side at other times than documented (t, t+dt/2, t+dt/2, t+dt): %s' % (
                        which, bad or ('%d calls for %d steps' % (len(calls), len(acc)))),
                    dict(prob, kind='times', iterator=which, via=via, n=n), bad, EXPECT_C[which])
    return calls


def alias_case(res, which, x, t, dt, fvariant, ode='ident'):
    """the iterator must not modify the vector it was given (also when f returns that very object)"""
    prob = dict(ode=ode, p=1.0, q=1.0)
    xnew, calls, xin, ref, dtret = one_step(which, prob, t, x, dt, fvariant)
    want = ref_step(which, _rhs(ode, 1.0, 1.0), t, ref, dt)
    case = dict(kind='alias', iterator=which, x=list(map(float, ref)), t=t, dt=dt, f='returns its argument object' if fvariant == 'plain' else 'returns a view of its argument', ode=ode)
    if not np.array_equal(xin, ref):
        res.violate('%s-modifies-input-vector' % which,
                    '%s iterator modified the state vector it was given (right-hand side %s): %s -> %s' % (which, case['f'], ref.tolist(), xin.tolist()),
                    case, xin.tolist(), ref.tolist())
    if not vlib.all_close(xnew, want, 1e-12, float(np.max(np.abs(want)))):
        res.violate('%s-wrong-step-when-rhs-aliases-input' % which,
                    '%s iterator: step result differs from the Runge-Kutta formula when the right-hand side %s' % (which, case['f']),
                    case, xnew.tolist(), want.tolist())


# ====================================================================== corr
def corr(ctx, oracle_only=False, nmul=1):
    res = Result()
    res.rule = ('random problems from 11 families (linear, logistic, rotation, y*cos t, Gaussian, chirp rotation, t*y^2, t^k, quadrature, forced, y\'=y returning its argument) x '
                'random t, dt, state x both iterators; one-step correspondence (hand model + generated tableau vs real iterator) and step-halving order estimates through '
                'DESolver / GenericModel.solve; non-trivial = non-zero derivative; distinct = (iterator, family, parameters)')
    rng = ctx.rng
    vlib.use_repo()

    # ---------------- 0. the generated tableau, as compiled into the driver, against a numeric run of the real code
    tabs = None
    try:
        tabs = tableaux()
    except Exception as e:   # regenerate() already reported it; the oracle below still runs
        res.count('tableau-extraction-failed')
    model_tab = {}
    if ctx.driver_ok and not oracle_only:
        out = vlib.run_driver(PROP, ['rk.tableau E', 'rk.tableau R'])
        for which, line in zip(('euler', 'rk4'), out):
            t = Toks(line)
            if not t.ok:
                res.disagree('rk.tableau', which, 'ok', t.err); continue
            c = t.flts(); nA = t.nat(); A = [t.flts() for _ in range(nA)]; b = t.flts()
            model_tab[which] = (c, A, b)
            # numeric probe of the real iterator with plain doubles and fixed stage derivatives
            for _ in range(3):
                ks = [rng.uniform(-2, 2) for _ in c]
                tt, dt, x = rng.uniform(-1, 2), rng.uniform(0.01, 0.5), rng.uniform(-2, 2)
                from kawin.solver.Solver import DESolver
                s = DESolver(_solver_type(which))
                seen = []
                def f(t_, x_, seen=seen, ks=ks):
                    seen.append((float(t_), float(x_))); return ks[len(seen) - 1]
                s.setdXdtFunctions(f, s.correctdXdtNotImplemented, lambda d: dt, s.flattenXNotImplemented, s.unflattenXNotImplemented)
                s._dtmin, s._dtmax, s._X0 = 0.0, math.inf, x
                xnew, _ = s.iterator(s._getdXdt, tt, x, s._updateX)
                pred_t = [tt + ci * dt for ci in c]
                pred_x = [x + dt * sum(a * k for a, k in zip(Ai, ks)) for Ai in A]
                pred_new = x + dt * sum(bi * k for bi, k in zip(b, ks))
                got_t = [u for u, _ in seen]; got_x = [v for _, v in seen]
                if len(seen) != len(c) or not vlib.all_close(got_t, pred_t, 1e-12, 1.0) or not vlib.all_close(got_x, pred_x, 1e-12, 1.0) or not close(xnew, pred_new, 1e-12, 1.0):
                    res.disagree('generated tableau does not reproduce the real iterator numerically', dict(iterator=which, t=tt, dt=dt, x=x, ks=ks),
                                 dict(times=got_t, states=got_x, xnew=float(xnew)), dict(times=pred_t, states=pred_x, xnew=pred_new))
                res.case(('tab', which, round(tt, 6), round(dt, 6)), True)
            res.count('tableau-numeric-probe:' + which, 3)

    # ---------------- 1. one-step correspondence on doubles
    N = ctx.n(400, 6000) * nmul
    cases, lines = [], []
    for _ in range(N):
        which = rng.choice(['euler', 'rk4', 'rk4'])
        prob = gen_problem(rng)
        dim = 2 if prob['ode'] in VECTOR else rng.choice([1, 1, 3])
        x = [rng.uniform(0.2, 1.5) for _ in range(dim)]
        if prob['ode'] == 'logistic':
            x = [min(v, 0.9) for v in x]
        t = rng.choice([0.0, prob['t0'], rng.uniform(-1, 3)])
        dt = rng.choice([0.5, 0.25, 0.1, 1e-3, rng.uniform(1e-4, 0.5)])
        fv = rng.choice(['plain', 'plain', 'view'])
        cases.append((which, prob, t, x, dt, fv))
        lines.append('rk.iter %s %d %s %s %s %s %s' % ('E' if which == 'euler' else 'R', ODE_ID[prob['ode']], f2b(prob['p']), f2b(prob['q']), f2b(t), f2b(dt), enc_list(x)))
        if dim == 1:
            lines.append('rk.tabstep %s %d %s %s %s %s %s' % ('E' if which == 'euler' else 'R', ODE_ID[prob['ode']], f2b(prob['p']), f2b(prob['q']), f2b(t), f2b(dt), f2b(x[0])))
    model = vlib.run_driver(PROP, lines) if (ctx.driver_ok and not oracle_only) else None
    li = 0
    for which, prob, t, x, dt, fv in cases:
        xnew, calls, xin, ref, dtret = one_step(which, prob, t, x, dt, fv)
        f = _rhs(prob['ode'], prob['p'], prob['q'])
        nontriv = bool(np.any(np.asarray(f(t, ref.copy())) != 0))
        res.case((which, prob['ode'], round(prob['p'], 9), round(dt, 9), len(x)), nontriv)
        res.count('iter:' + which); res.count('ode:' + prob['ode']); res.count('dim:%d' % len(x))
        desc = dict(prob, kind='step', iterator=which, t=t, x=x, dt=dt, fvariant=fv)
        if len(res.samples) < 2:
            res.sample(dict(desc, xnew=xnew.tolist(), callback_times=[c[0] for c in calls]))
        scale = float(np.max(np.abs(xnew))) + 1.0
        # ---- direct oracle on this single step: textbook formula, callback times, input untouched
        want = ref_step(which, f, t, ref, dt)
        if not vlib.all_close(xnew, want, 1e-12, scale):
            key = 'step-%s-%s' % (which, 'autonomous' if prob['ode'] in AUTONOMOUS else 'time-dependent')
            res.violate(key, '%s iterator: one step differs from the documented scheme on %s' % (which, prob['ode']), desc, xnew.tolist(), want.tolist())
        want_t = [t + cj * dt for cj in EXPECT_C[which]]
        got_t = [c[0] for c in calls]
        if len(got_t) != len(want_t) or any(vlib.ulps(a, b) > 4 for a, b in zip(got_t, want_t)):
            res.violate('stage-times-%s' % which, '%s iterator evaluates the right-hand side at %s, documented %s' % (which, got_t, want_t),
                        desc, got_t, want_t)
        if not np.array_equal(xin, ref):
            res.violate('%s-modifies-input-vector' % which, '%s iterator modified the state vector it was given: %s -> %s' % (which, ref.tolist(), xin.tolist()),
                        desc, xin.tolist(), ref.tolist())
        # ---- correspondence
        if model is not None:
            tk = Toks(model[li]); li += 1
            if not tk.ok:
                res.disagree('rk.iter model error', desc, 'ok', tk.err)
            else:
                mx = tk.flts(); mt = tk.flts(); ms = tk.flts(); mold = tk.flts()
                if not vlib.all_close(xnew, mx, 1e-12, scale):
                    res.disagree('iterator result', desc, xnew.tolist(), mx)
                if len(mt) != len(got_t) or any(vlib.ulps(a, b) > 4 for a, b in zip(got_t, mt)):
                    res.disagree('callback times', desc, got_t, mt)
                flat_states = [v for c in calls for v in c[1].tolist()]
                if not vlib.all_close(flat_states, ms, 1e-12, scale):
                    res.disagree('callback states', desc, flat_states, ms)
                if not (list(map(float, xin)) == mold):
                    res.disagree('input vector after the call', desc, xin.tolist(), mold)
            if len(x) == 1:
                tk = Toks(model[li]); li += 1
                if not tk.ok or not close(float(xnew[0]), tk.flt(), 1e-12, scale):
                    res.disagree('general Runge-Kutta step with the generated tableau', desc, float(xnew[0]), model[li - 1])
        elif len(x) == 1:
            pass

    # ---------------- 2. direct oracle: aliasing, callback times over whole runs, convergence order
    for _ in range(ctx.n(12, 200) * nmul):
        which = rng.choice(['euler', 'rk4', 'rk4'])
        x = [rng.uniform(0.5, 2.0) for _ in range(rng.choice([1, 2, 5]))]
        alias_case(res, which, x, rng.uniform(0, 2), rng.choice([0.5, 0.1, rng.uniform(0.01, 0.5)]), rng.choice(['plain', 'view']))
        res.count('alias-check:' + which)
    for _ in range(ctx.n(10, 150) * nmul):
        which = rng.choice(['euler', 'rk4'])
        times_case(res, which, gen_problem(rng), rng.choice(['desolver', 'model']), n=rng.choice([2, 4, 7]))
        res.count('times-check:' + which)
    # the design's designated witness first, then the random family
    witness = dict(ode='poly', p=1.0, q=1.0, t0=0.0, L=1.0, y0=[1.0])
    y, tend, calls, acc, _ = integrate('rk4', witness, 2, 'model')
    if not close(float(y[0]), 2.0, 1e-12):
        res.violate('rk4-not-exact-on-linear-in-t', "RK4 on y'=2t, y(0)=1, two steps of 0.5 gives %r, exact value 2.0 (a 4th-order method integrates polynomials in t up to degree 3 exactly)" % float(y[0]),
                    dict(witness, kind='witness', iterator='rk4', via='model', n=2), float(y[0]), 2.0)
    res.case(('witness',), True)
    pobs_all = {'euler': [], 'rk4': []}
    for _ in range(ctx.n(36, 700) * nmul):
        which = rng.choice(['euler', 'rk4', 'rk4'])
        prob = gen_problem(rng, allow=['lin', 'logistic', 'rot', 'tcos', 'gauss', 'chirp', 'ty2', 'poly', 'quad', 'forced'])
        via = rng.choice(['desolver', 'model'])
        pobs = order_case(res, which, prob, via)
        res.case(('order', which, prob['ode'], round(prob['p'], 9), round(prob['L'], 9)), True)
        if pobs is not None:
            pobs_all[which].append(pobs)
    res.extra['observed_order'] = {w: dict(n=len(v), min=round(min(v), 3), max=round(max(v), 3), mean=round(sum(v) / len(v), 3)) for w, v in pobs_all.items() if v}
    res.traces = 0
    return res


def search(ctx, broken):
    """a proof or the correspondence broke: look for a failing input on the implementation"""
    return corr(ctx, oracle_only=True, nmul=3)


def replay(ctx, entry):
    c = entry['violation']['case']
    res = Result()
    kind = c.get('kind')
    prob = {k: c[k] for k in ('ode', 'p', 'q', 't0', 'L', 'y0') if k in c}
    if kind == 'order':
        order_case(res, c['iterator'], prob, c['via'])
    elif kind == 'times':
        times_case(res, c['iterator'], prob, c['via'], n=c.get('n', 4))
    elif kind == 'alias':
        alias_case(res, c['iterator'], c['x'], c['t'], c['dt'], 'plain' if 'object' in c['f'] else 'view', c.get('ode', 'ident'))
    elif kind == 'witness':
        y, *_ = integrate('rk4', prob, 2, 'model')
        if not close(float(y[0]), 2.0, 1e-12):
            res.violate('rk4-not-exact-on-linear-in-t', 'y(1) = %r, exact 2.0' % float(y[0]), c, float(y[0]), 2.0)
    elif kind == 'step':
        which = c['iterator']
        xnew, calls, xin, ref, _ = one_step(which, prob, c['t'], c['x'], c['dt'], c['fvariant'])
        want = ref_step(which, _rhs(prob['ode'], prob['p'], prob['q']), c['t'], ref, c['dt'])
        if not vlib.all_close(xnew, want, 1e-12, float(np.max(np.abs(want))) + 1.0):
            res.violate('step', 'one step differs from the documented scheme', c, xnew.tolist(), want.tolist())
        want_t = [c['t'] + cj * c['dt'] for cj in EXPECT_C[which]]
        if [u[0] for u in calls] != want_t:
            res.violate('stage-times', 'callback times', c, [u[0] for u in calls], want_t)
        if not np.array_equal(xin, ref):
            res.violate('modifies-input', 'input vector modified', c, xin.tolist(), ref.tolist())
    for v in res.violations:
        print('  ', v['key'], v['what'], v['observed'], v['required'])
    return not res.violations
