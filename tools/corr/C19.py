"""C19 — stopping conditions: correspondence StoppingConditions.py / KWNBase.postProcess / DESolver.solve /
TTPCalculator <-> KawinV.StopCond, plus a direct oracle of the property on the implementation
(latch, when-and-only-when, crossing time inside the step, and/or combination, end of the run,
reset) evaluated on condition objects and pData histories.

Three kinds of case, each reproducible from (kind, seed):
  obj    one PrecipitationStoppingCondition object driven step by step against a stub that exposes
         exactly what the condition code reads (pData.n, pData.time, the six pData arrays,
         phaseIndex, elements); arrays grow row by row like the real ones
  synth  a PrecipitateBase subclass with a scripted history, solved by the REAL GenericModel.solve /
         DESolver.solve / KWNBase.postProcess / KWNBase.reset (and TTPCalculator) — no thermodynamics
  real   binary Al-Zr KWN run (kawin/tests setup) with stopping conditions; TTPCalculator in thorough
  hist   HISTORY of the condition list of one model: pool of condition objects, random calls of addStoppingCondition
         (both modes) / clearStoppingConditions / reset / solve / TTPCalculator(model, ..) / calculateTTP, then further runs;
         after every run: stopped at the first step at which the rule holds for the conditions registered NOW (oracle keeps
         its own registration state), else reached the end time; TTP times = first crossings of a run WITHOUT conditions;
         the whole call sequence goes to the model in one line (verb sc.hist).  Scripted model + one real Al-Zr history.
  coupled  the condition-carrying model(s) (scripted / real Al-Zr) solved TOGETHER with 1-2 other models (GrainGrowthModel, trivial
         GenericModel, a second carrier) through kawin.GenericModel.Coupler, the carrier at every position of the list; oracle from each
         carrier's own recorded history: the coupled run ends at the first step at which ANY coupled model requests the stop, else at
         the end time; all clocks = the coupler's clock; flags returned by every postProcess recorded per step (verb sc.coupled).
"""
import contextlib, hashlib, io, math, os, re, traceback, types
import numpy as np
import vlib
from vlib import Result, enc_list, f2b, Toks, close

vlib.use_repo()          # `import kawin` below resolves to the tree under test ($VERIF_REPO), also in --replay

PROP = 'C19'
META = {
    'level_text': 'Lean 4 theorems, for any linearly ordered field and histories of every length, about an executable model of PrecipitationStoppingCondition (latch, _poll, testCondition), the and/or combination of KWNBase.postProcess, the DESolver loop, KWNBase.reset and TTPCalculator._getStopTime: latch (flag and reported time never change once satisfied), satisfied iff the monitored value was beyond the threshold on a tested row, reported time = linear interpolant and inside [t_prev, t_cur] for both inequalities, first-step case, stop iff (some or-condition satisfied) or (#and > 0 and all and-conditions satisfied), the loop ends at the first step with stop and otherwise at the first row at or beyond the end time (soundness and completeness), _poll reads row n / column phase-or-element of the named array for all six quantities, reset clears every latch and TTP times depend only on that temperature\'s run; and about the REGISTRATION STATE of one model through any history of addStoppingCondition / clearStoppingConditions / reset / solve / TTPCalculator(model, ...) calls (Reg, Op, Reg.after): the stop decision of a run is a function of the currently registered list and the latches of the registered objects only (stop_depends_on_registered_only), after a clear with no and-condition registered since the and-branch contributes false and a model with nothing registered runs to the end time (clear_then_no_and_never_stops, cleared_model_runs_to_end), the TTP constructor leaves exactly its own conditions registered in and-mode and its reported times do not depend on what the model carried before (ttp_sees_only_its_conditions), with witness theorems for a stale and-counter and for a constructor that keeps old conditions; reset() keeps the configuration of every population balance model (limits, class counts, adaptive and recording flags) and puts each on its configured initial grid, through any history, so every TTP temperature runs on the configured grid (reset_keeps_configuration, history_keeps_configuration, ttp_runs_on_configured_grid), with the witness reset_default_loses_configuration for a reset that replaces them by default ones (the code before repair 9231d6f); and about COUPLED runs (several models solved together through GenericModel.Coupler; CModel, couplerStop, couplerPost, coupledRun): Coupler.postProcess requests the stop iff some coupled model does, whatever its position in the list (coupler_stops_iff_any, couplerStop_perm), the coupled run ends at the first step at which any coupled model requests the stop with every model stepped to that row, otherwise at the first row at or beyond the end time (coupled_run_ends_at_first_request, coupled_run_end_sound, coupled_run_stops_at_first_request, coupled_run_to_end, coupled_run_position_irrelevant; a precipitation model requests iff its own and/or rule holds on its own history: prec_request_iff_history), with the witnesses last_flag_only_drops_requests / last_flag_only_runs_past_request_of_first_model for a coupler that keeps only the flag of the last model. The model is tied to the code on every run by differential correspondence (condition objects on stubs, scripted histories through the real solve/postProcess/reset/TTPCalculator, whole call histories on one model with a pool of condition objects, a real binary Al-Zr run and a real call history, coupled runs of scripted and real models with GrainGrowthModel / a trivial GenericModel with the flag every postProcess returned on every step) and the property predicates are evaluated directly on pData histories and condition objects.',
    'level_note': 'Trusted: Lean kernel + Mathlib, axioms propext/Classical.choice/Quot.sound; the hand model KawinV.StopCond equals the Python code only as far as this run compared them; exact-field arithmetic instead of IEEE doubles (the interpolated time can leave the step by rounding: oracle tolerance 1e-9 of the step); the sequence of rows and times of a run (time stepping, C05) is an input of the model, not derived; NaN monitored values are outside the statement. Modelled code is the repaired code (two fix: commits, see known_findings.txt).',
    'technique': 'Lean 4 proof over ordered fields + model/implementation differential correspondence + direct oracle on run histories',
    'design_ref': 'DESIGN.md section 6, C19',
}
LEAN_MODULES = ['KawinV.Props.C19']
MONITORED = [
    'coupled runs: every coupled model (GrainGrowthModel, trivial GenericModel, carriers) has the coupler\'s clock row by row, so all are at the stop time when the run ends; models other than precipitation models return stop = False (recorded per step, compared with the model\'s CModel.other)',
    'a real KWN run appends exactly one pData row per solver step and calls testCondition on every condition after every step (checked on the real run by comparing latches with the model replayed on the recorded pData history)',
    'TTPCalculator on the real model: history of each temperature starts at t = 0 with that temperature (reset + setTemperature took effect)',
    'call histories: the times a TTPCalculator reports equal the first crossings of a FRESHLY CONSTRUCTED model of the same configuration (same builder incl. non-default setPBMParameters and setPSDrecording(True)), never reset, WITHOUT stopping conditions, run with the same setTemperature/solve call (real Al-Zr model in the quick tier: 1 temperature, rtol 1e-6)',
    'reset() of the real PrecipitateModel (direct and inside TTPCalculator._getStopTime): walk of vars(model) before/after - only result arrays, population balance contents, stopping-condition latches and setup flags / scratch storage (RESET_MAY_CHANGE) may differ, everything else must be the same object with the same value; population balance configuration and grid compared with what the harness configured',
]
ASSUMPTIONS = [
    'monitored values and times are finite (no NaN); times are non-decreasing along a run',
    'exact-field theorems vs IEEE doubles: reported time compared with an independently computed interpolant at rtol 1e-9 of the step length',
    'a phase / element name that is not in the model raises (IndexError / ValueError) instead of selecting a column',
]
TRUSTED = ['np.where(...)[0][0] / list.index semantics as modelled by KawinV.StopCond.indexOf (compared on every run)']

QUANT = ['volFrac', 'Ravg', 'drivingForce', 'nucRate', 'precipitateDensity', 'composition']
CLASSES = ['VolumeFractionCondition', 'AverageRadiusCondition', 'DrivingForceCondition',
           'NucleationRateCondition', 'PrecipitateDensityCondition', 'CompositionCondition']
PHASES = ['AL3ZR', 'BETA', 'GAMMA_P', 'L12']
ELEMS = ['ZR', 'CR', 'MG', 'SI']


# ---------------------------------------------------------------- guards
_TOOLS = os.path.dirname(os.path.dirname(os.path.abspath(__file__)))


def excinfo(e):
    """who raised: walk the traceback from the innermost frame outwards; the first frame that belongs to the tree under
    test (impl) or to the harness decides.  Frames of numpy / stdlib in between are skipped."""
    impl, site = False, None
    repo = os.path.abspath(vlib.REPO) + os.sep
    for fr in reversed(traceback.extract_tb(e.__traceback__)):
        fn = os.path.abspath(fr.filename)
        if fn.startswith(repo):
            impl = True; site = '%s:%d in %s' % (os.path.relpath(fn, vlib.REPO), fr.lineno, fr.name); break
        if fn.startswith(_TOOLS + os.sep):
            break
    return dict(name=type(e).__name__, msg=str(e)[:200], tb=''.join(traceback.format_exception(e))[-900:], impl=impl, site=site, exc=e)


def report_exc(res, what, desc, ei):
    """an exception of the code under test is a violation keyed by call site and type (case = replayable description);
    an exception of the harness is collected and re-raised by finish() only when the run found no violation"""
    if ei['impl']:
        res.violate('raises:%s:%s' % (what, ei['name']), 'the implementation raised %s: %s (at %s)' % (ei['name'], ei['msg'], ei['site']),
                    desc, ei['tb'], 'no exception')
    else:
        res.extra.setdefault('harness_errors', []).append({'what': what, 'case': vlib.jsonable(desc), 'error': ei['tb']})
        res._harness_exc = ei['exc']


def guard(res, what, desc, fn, *a, **k):
    """run one piece of per-case work; never lets an exception end the run.  Returns (ok, value)."""
    try:
        return True, fn(*a, **k)
    except Exception as e:
        report_exc(res, what, desc, excinfo(e))
        return False, None


def driver(ctx, res, lines, oracle_only):
    if not ctx.driver_ok or oracle_only:
        return None
    ok, m = guard(res, 'model-driver', {'lines': len(lines)}, vlib.run_driver, PROP, lines)
    return m if ok else None


def finish(res):
    if getattr(res, '_harness_exc', None) is not None and not res.violations:
        raise res._harness_exc


# ---------------------------------------------------------------- helpers
def make_cond(q, d, value, sel):
    vlib.use_repo()
    import kawin.precipitation.StoppingConditions as SC
    ineq = SC.Inequality.GREATER_THAN if d == 'G' else SC.Inequality.LESSER_THAN
    cls = getattr(SC, CLASSES[q])
    if q == 5:
        return cls(ineq, value, element=sel)
    return cls(ineq, value, phase=sel)


def beyond(d, value, x):
    return bool(x > value) if d == 'G' else bool(x < value)


def col_of(names, sel):
    """independent of the implementation: first position of the name, None = unknown"""
    if sel is None:
        return 0
    for i, nm in enumerate(names):
        if nm == sel:
            return i
    return None


def enc_hist(nP, nE, H):
    parts = [str(nP), str(nE), enc_list(H['time'])]
    for nm in QUANT:
        parts.append(enc_list(np.asarray(H[nm]).ravel()))
    return ' '.join(parts)


def enc_names(phases, elements):
    return ' '.join([str(len(phases))] + list(phases) + [str(len(elements))] + list(elements))


def enc_cond(q, d, value, sel):
    return '%d %s %s %s' % (q, d, f2b(value), '-' if sel is None else sel)


def enc_latch(sat, t):
    return '%s %s' % ('T' if sat else 'F', f2b(t))


def series(r, L, kind):
    if kind == 'inc':
        x = np.cumsum(r.random(L))
    elif kind == 'dec':
        x = L - np.cumsum(r.random(L))
    elif kind == 'walk':
        x = np.cumsum(r.normal(0, 1, L))
    elif kind == 'const':
        x = np.full(L, r.random())
    elif kind == 'plateau':
        x = np.cumsum(np.where(r.random(L) < 0.5, 0.0, r.random(L)))
    elif kind == 'bump':
        x = np.sin(np.linspace(0, math.pi * r.uniform(0.8, 2.5), L)) * L
    else:  # zero-start then growth (volume fraction like)
        x = np.concatenate([np.zeros(L // 3), np.cumsum(r.random(L - L // 3))])
    return x.astype(float)


KINDS = ['inc', 'dec', 'walk', 'const', 'plateau', 'bump', 'zerostart']


def gen_history(r, L, nP, nE):
    """all six arrays get different random content, so reading the wrong array / column / row shows"""
    H = {'time': np.concatenate([[0.0], np.cumsum(10 ** r.uniform(-3, 2, L - 1))]) if L > 1 else np.zeros(1)}
    if r.random() < 0.3:
        H['time'] = H['time'] + 10 ** r.uniform(-1, 3)      # a run that does not start at t = 0
    kinds = {}
    for nm in QUANT:
        w = nE if nm == 'composition' else nP
        scale = 10 ** r.uniform(-10, 24) if r.random() < 0.7 else 1.0
        cols = []
        for c in range(w):
            k = KINDS[int(r.integers(0, len(KINDS)))]
            kinds[(nm, c)] = k
            cols.append(series(r, L, k) * scale + (r.normal() * scale if r.random() < 0.3 else 0.0))
        H[nm] = np.stack(cols, axis=1)
    return H, kinds


def pick_threshold(r, x, d):
    """threshold relative to the monitored column: inside the range (met early/late), exactly on a
    sample (strict inequality), outside the range (never / already at the start)"""
    lo, hi = float(np.min(x)), float(np.max(x))
    span = (hi - lo) if hi > lo else max(abs(hi), 1.0)
    k = r.choice(['inside', 'inside', 'inside', 'on-sample', 'above', 'below', 'first'])
    if k == 'inside':
        return lo + r.random() * span, k
    if k == 'on-sample':
        return float(x[int(r.integers(0, len(x)))]), k
    if k == 'above':
        return hi + r.uniform(0.01, 1) * span, k
    if k == 'below':
        return lo - r.uniform(0.01, 1) * span, k
    return float(x[0]) + r.choice([-1, 1]) * 1e-3 * span, k


def pick_dir(r, x):
    """mostly the direction in which the series finally moves, so that real crossings are common"""
    if r.random() < 0.6 and x[-1] != x[0]:
        return 'G' if x[-1] > x[0] else 'L'
    return 'G' if r.random() < 0.5 else 'L'


def in_step(t, tp, tc):
    eps = 1e-9 * abs(tc - tp) + 1e-12 * max(abs(tp), abs(tc))
    return tp - eps <= t <= tc + eps


def check_time(res, keyp, desc, H, x, d, value, n, t_rep):
    """the reported time of a latch that closed on row n (model-independent)"""
    tc = float(H['time'][n])
    if n == 0:
        if t_rep != tc:
            res.violate(keyp + 'first-step-time', 'satisfied on row 0 but reported time is not that row\'s time', desc, t_rep, tc)
        return 'first-row'
    tp = float(H['time'][n - 1])
    if not (isinstance(t_rep, (float, np.floating)) and math.isfinite(t_rep) and in_step(t_rep, tp, tc)):
        pv = beyond(d, value, x[n - 1])
        res.violate(keyp + ('time-outside-step-condition-held-on-previous-row' if pv else 'time-outside-crossing-step'),
                    'reported time is not within the step on which the latch closed (row %d, prev value %r, cur value %r, threshold %r)'
                    % (n, float(x[n - 1]), float(x[n]), value), desc, float(t_rep), [tp, tc])
        return 'bad'
    if beyond(d, value, x[n - 1]):
        if t_rep != tp:
            res.violate(keyp + 'time-condition-held-on-previous-row', 'condition already held on the previous row; reported time is not that row\'s time', desc, float(t_rep), tp)
        return 'held-before'
    frac = (value - float(x[n - 1])) / (float(x[n]) - float(x[n - 1]))
    want = tp + frac * (tc - tp)
    if abs(t_rep - want) > 1e-9 * abs(tc - tp) + 1e-12 * max(abs(tp), abs(tc)):
        res.violate(keyp + 'time-not-interpolant', 'reported time is not the linear interpolant of the crossing', desc, float(t_rep), want)
    return 'crossing'


def stop_rule(modes, sats):
    ors = [s for m, s in zip(modes, sats) if m]
    ands = [s for m, s in zip(modes, sats) if not m]
    return any(ors) or (len(ands) > 0 and all(ands))


# ---------------------------------------------------------------- (a1) condition objects on stubs
def obj_case(s):
    r = np.random.default_rng([s, 1])
    nP, nE = int(r.integers(1, 4)), int(r.integers(1, 4))
    phases = [str(p) for p in r.permutation(PHASES)[:nP]]
    elements = [str(e) for e in r.permutation(ELEMS)[:nE]]
    L = int(r.choice([1, 2, 3, 5, 8, 13, 21, 30]))
    H, kinds = gen_history(r, L, nP, nE)
    q = int(r.integers(0, 6))
    names = elements if q == 5 else phases
    u = r.random()
    if u < 0.25:
        sel = None
    elif u < 0.93:
        sel = names[int(r.integers(0, len(names)))]
    else:
        sel = (phases[0] if q == 5 else elements[0]) if r.random() < 0.5 else 'NOPE'   # name of the other kind / unknown
        if sel in names:
            sel = 'NOPE'
    col = col_of(names, sel)
    x = H[QUANT[q]][:, col if col is not None else 0]
    d = pick_dir(r, x)
    value, tk = pick_threshold(r, x, d)
    sk = str(r.choice(['run', 'run', 'run', 'from0', 'late-start', 'repeat', 'any-order'])) if L > 1 else 'from0'
    if sk == 'run':
        steps = list(range(1, L))
    elif sk == 'from0':
        steps = list(range(0, L))
    elif sk == 'late-start':
        steps = list(range(int(r.integers(1, L)), L))
    elif sk == 'repeat':
        steps = sorted(int(v) for v in r.integers(0, L, size=int(r.integers(1, 2 * L))))
    else:
        steps = [int(v) for v in r.integers(0, L, size=int(r.integers(1, 2 * L)))]
    steps2 = list(range(1, L)) if (r.random() < 0.35 and L > 1) else None     # after reset()
    return dict(kind='obj', s=s, nP=nP, nE=nE, phases=phases, elements=elements, L=L, H=H, q=q, d=d, sel=sel,
                col=col, value=float(value), tk=tk, sk=sk, steps=steps, steps2=steps2, skind=kinds.get((QUANT[q], col or 0)))


def make_stub(c):
    vlib.use_repo()
    from kawin.precipitation.KWNBase import PrecipitateBase
    stub = types.SimpleNamespace(phases=np.array(c['phases']), elements=list(c['elements']))
    stub.phaseIndex = types.MethodType(PrecipitateBase.phaseIndex, stub)
    stub.pData = types.SimpleNamespace()
    return stub


def stub_at(stub, H, n):
    """pData as it is when row n is the latest row"""
    pd = types.SimpleNamespace(n=n, time=H['time'][:n + 1])
    for nm in QUANT:
        setattr(pd, nm, H[nm][:n + 1])
    stub.pData = pd


def drive_obj(c):
    """returns (trace of (sat, time) after each step | exception info, trace2)"""
    out = {'init': None, 'tr': [], 'exc': None, 'tr2': [], 'reset': None}
    try:
      with np.errstate(all='ignore'):
        stub = make_stub(c)
        cond = make_cond(c['q'], c['d'], c['value'], c['sel'])
        out['init'] = (bool(cond.isSatisfied()), float(cond.satisfiedTime()))
        for n in c['steps']:
            stub_at(stub, c['H'], n)
            cond.testCondition(stub)
            out['tr'].append((bool(cond.isSatisfied()), float(cond.satisfiedTime())))
        if c['steps2'] is not None:
            cond.reset()
            out['reset'] = (bool(cond.isSatisfied()), float(cond.satisfiedTime()))
            for n in c['steps2']:
                stub_at(stub, c['H'], n)
                cond.testCondition(stub)
                out['tr2'].append((bool(cond.isSatisfied()), float(cond.satisfiedTime())))
    except Exception as e:          # the real code raising IS an observation; who raised is decided by excinfo
        out['exc'] = excinfo(e)
    return out


def obj_desc(c):
    return dict(kind='obj', s=c['s'], condition=CLASSES[c['q']], inequality=c['d'], value=c['value'], selector=c['sel'],
                phases=c['phases'], elements=c['elements'], rows=c['L'], steps=c['steps'][:12], steps_kind=c['sk'],
                threshold_kind=c['tk'], series=c['skind'])


def oracle_obj(res, c, out):
    desc = obj_desc(c)
    if out['exc'] is not None:
        ei = out['exc']
        if c['col'] is None and ei['impl'] and ei['name'] in ('IndexError', 'ValueError'):
            res.count('obj:unknown-name-raises')        # allowed: the name is not in the model (the model reports `raise` too)
            return
        report_exc(res, 'condition-test', desc, ei)
        return
    if c['col'] is None:
        res.violate('unknown-name-accepted', 'a phase/element name that is not in the model selected a column', desc)
        return
    if out['init'] != (False, -1.0):
        res.violate('fresh-condition-not-clear', 'a new condition is not (False, -1)', desc, out['init'])
    x = c['H'][QUANT[c['q']]][:, c['col']]
    for tr, steps, tag in ((out['tr'], c['steps'], ''), (out['tr2'], c['steps2'] or [], 'after-reset:')):
        sat, t = False, -1.0
        for n, (isat, it) in zip(steps, tr):
            b = beyond(c['d'], c['value'], x[n])
            if sat:
                if not isat or it != t:
                    res.violate(tag + 'latch-lost', 'a satisfied condition changed after a further test (row %d)' % n, desc, (isat, it), (sat, t))
                    return
                continue
            if isat != b:
                res.violate(tag + ('satisfied-without-crossing' if isat else 'crossing-missed'),
                            'row %d: value %r threshold %r but isSatisfied() = %r' % (n, float(x[n]), c['value'], isat), desc, isat, b)
                return
            if isat:
                k = check_time(res, tag, desc, c['H'], x, c['d'], c['value'], n, it)
                res.count('obj:latch-closed:' + k)
                sat, t = True, it
            elif it != t:
                res.violate(tag + 'time-set-while-unsatisfied', 'reported time changed although the condition is not satisfied', desc, it, t)
                return
        if tag == '' and not sat:
            res.count('obj:never-met')
    if out['reset'] is not None:
        res.count('obj:reset')
        if out['reset'] != (False, -1.0):
            res.violate('reset-does-not-clear', 'after reset() the condition is not (False, -1)', desc, out['reset'], (False, -1.0))


def obj_lines(c):
    head = 'sc.seq %s %s %s ' % (enc_hist(c['nP'], c['nE'], c['H']), enc_names(c['phases'], c['elements']),
                                 enc_cond(c['q'], c['d'], c['value'], c['sel']))
    return [head + enc_latch(False, -1.0) + ' ' + vlib.enc_ilist(c['steps']),
            head + enc_latch(False, -1.0) + ' ' + vlib.enc_ilist(c['steps2'] or [])]


def post_obj(res, c, out, model, li, first):
    desc = obj_desc(c)
    res.case(('obj', c['s']), nontrivial=len(c['steps']) > 1 and out['exc'] is None)
    res.count('obj:q:' + QUANT[c['q']]); res.count('obj:dir:' + c['d']); res.count('obj:steps:' + c['sk'])
    res.count('obj:threshold:' + c['tk']); res.count('obj:series:' + str(c['skind']))
    res.count('obj:selector:' + ('none' if c['sel'] is None else 'unknown' if c['col'] is None else 'col%d' % c['col']))
    if first:
        res.sample(dict(desc, trace=out['tr'][:6]))
    oracle_obj(res, c, out)
    if model is None or li is None:
        return
    for ln, tr, steps in ((model[li], out['tr'], c['steps']), (model[li + 1], out['tr2'], c['steps2'] or [])):
        t = Toks(ln)
        if not t.ok:
            res.disagree('sc.seq model error ' + str(t.err), desc, 'ok', t.err); break
        if t.t[1] == 'raise':
            if out['exc'] is None:
                res.disagree('model raises (unknown name), implementation does not', desc, out['tr'][:3], 'raise')
            break
        if out['exc'] is not None:
            res.disagree('implementation raises, model does not', desc, out['exc']['name'], ln[:80]); break
        k = t.nat()
        m = [(t.bool(), t.flt()) for _ in range(k)]
        if len(m) != len(tr) or any(a[0] != b[0] or not close(a[1], b[1], 1e-12) for a, b in zip(tr, m)):
            j = next((j for j, (a, b) in enumerate(zip(tr, m)) if a[0] != b[0] or not close(a[1], b[1], 1e-12)), -1)
            res.disagree('latch after step index %d (row %s)' % (j, steps[j] if 0 <= j < len(steps) else '?'), desc,
                         tr[j] if j >= 0 else len(tr), m[j] if j >= 0 else len(m)); break
        res.count('obj:bit-identical-times', sum(1 for a, b in zip(tr, m) if a[1] == b[1]))
        res.count('obj:compared-steps', len(tr))


def part_obj(ctx, res, N, oracle_only):
    recs, lines = [], []
    for _ in range(N):
        s = ctx.rng.getrandbits(40)
        ok, c = guard(res, 'obj-generate', dict(kind='obj', s=s), obj_case, s)
        if not ok:
            continue
        ok, out = guard(res, 'condition-test', obj_desc(c), drive_obj, c)
        if not ok:
            continue
        li = None
        # protocol lines only for cases whose implementation calls completed (or raised the allowed unknown-name error)
        if out['exc'] is None or (c['col'] is None and out['exc']['impl'] and out['exc']['name'] in ('IndexError', 'ValueError')):
            ok, ls = guard(res, 'obj-encode', obj_desc(c), obj_lines, c)
            if ok:
                li = len(lines); lines += ls
        recs.append((c, out, li))
    model = driver(ctx, res, lines, oracle_only)
    for i, (c, out, li) in enumerate(recs):
        guard(res, 'obj-evaluate', obj_desc(c), post_obj, res, c, out, model, li, i < 1)


# ---------------------------------------------------------------- (a2) scripted histories through the real solve / postProcess
_SYNTH = {}


def synth_class():
    if 'cls' in _SYNTH:
        return _SYNTH['cls']
    vlib.use_repo()
    from kawin.precipitation.KWNBase import PrecipitateBase
    from kawin.precipitation.PrecipitationParameters import PrecipitationData

    class SynthModel(PrecipitateBase):
        """history scripted per temperature; everything on the stopping path is the real code"""
        def __init__(self, phases, elements, script):
            super().__init__(phases=phases, elements=elements)
            self.script = script        # script(T) -> H (dict of arrays, rows 0..L-1)
            self.H = None

        def _row(self, k, t):
            H = self.H; k = min(k, len(H['time']) - 1)
            Y = PrecipitationData(self.phases, self.elements, N=1)
            Y.time[0] = t
            Y.temperature[0] = self.T
            for nm in QUANT:
                getattr(Y, nm)[0] = H[nm][k]
            return Y

        def setup(self):
            if self._isSetup:
                return
            self.T = self.temperatureParameters.Tparameters if self.temperatureParameters.Tparameters is not None else 0.0
            self.H = self.script(self.T)
            self.pData.setSlice(self._row(0, self.H['time'][0]), 0)
            self._isSetup = True

        def getCurrentX(self):
            return self.pData.time[self.pData.n], [np.zeros(1)]

        def getdXdt(self, t, x):
            return [np.zeros(1)]

        def correctdXdt(self, dt, x, dXdt):
            pass

        def getDt(self, dXdt):
            t = self.H['time']; k = min(self.pData.n, len(t) - 2)
            if len(t) > 1 and self.pData.n >= len(t) - 1:      # past the script (values stay at the last row): mean scripted step
                return float(t[-1] - t[0]) / (len(t) - 1)
            return float(t[k + 1] - t[k]) if len(t) > 1 else 1.0

        def _calculateDependentTerms(self, t, x):
            self._currY = self._row(self.pData.n + 1, t)

        def _updateParticleSizeDistribution(self, t, x):
            pass

        def printStatus(self, iteration, modelTime, simTimeElapsed):
            pass

    _SYNTH['cls'] = SynthModel
    return SynthModel


def synth_case(s):
    r = np.random.default_rng([s, 2])
    nP, nE = int(r.integers(1, 4)), int(r.integers(1, 3))
    phases = [str(p) for p in r.permutation(PHASES)[:nP]]
    elements = [str(e) for e in r.permutation(ELEMS)[:nE]]
    L = int(r.choice([2, 3, 6, 12, 25, 40]))
    H, _ = gen_history(r, L, nP, nE)
    H['time'] = H['time'] - H['time'][0]          # pData of a fresh model starts at 0
    nc = int(r.choice([0, 1, 1, 2, 2, 3, 4, 6]))
    mk = str(r.choice(['mixed', 'mixed', 'all-or', 'all-and']))
    conds = []
    for _ in range(nc):
        q = int(r.integers(0, 6))
        names = elements if q == 5 else phases
        sel = None if r.random() < 0.3 else names[int(r.integers(0, len(names)))]
        col = col_of(names, sel)
        d = pick_dir(r, H[QUANT[q]][:, col])
        value, tk = pick_threshold(r, H[QUANT[q]][:, col], d)
        mode = 'or' if mk == 'all-or' else 'and' if mk == 'all-and' else ('or' if r.random() < 0.5 else 'and')
        conds.append(dict(q=q, d=d, sel=sel, col=col, value=float(value), mode=mode, tk=tk))
    # end time: inside the script (ends by time), beyond it is not possible (script is clamped), so
    # pick a fraction of the scripted span; sometimes split in two solves
    span = float(H['time'][-1]) if L > 1 else 1.0
    f1 = float(r.choice([1.0, 1.0, r.uniform(0.2, 1.0)]))
    split = r.random() < 0.25
    late = int(r.integers(0, nc + 1)) if (split and nc and r.random() < 0.5) else None   # conditions added before the 2nd solve
    return dict(kind='synth', s=s, nP=nP, nE=nE, phases=phases, elements=elements, L=L, H=H, conds=conds, mk=mk,
                sim=[span * f1 * 0.5, span * f1 * 0.5] if split else [span * f1], late=late,
                rk4=bool(r.random() < 0.3))


def synth_desc(c):
    return dict(kind='synth', s=c['s'], phases=c['phases'], elements=c['elements'], rows=c['L'], simTimes=c['sim'],
                conditions=[dict(condition=CLASSES[k['q']], inequality=k['d'], value=k['value'], selector=k['sel'], mode=k['mode']) for k in c['conds']],
                added_before_second_solve=c['late'], iterator='RK4' if c['rk4'] else 'Euler')


def pdata_hist(pd):
    H = {'time': np.array(pd.time, dtype=float)}
    for nm in QUANT:
        H[nm] = np.array(getattr(pd, nm), dtype=float)
    return H


def drive_synth(c):
    """runs the real solve once or twice; returns segments [(k0, tf, entry latches, m, latches after, H after)]"""
    segs, exc = [], None
    try:
        from kawin.solver import SolverType
        M = synth_class()(c['phases'], c['elements'], lambda T: c['H'])
        objs = [make_cond(k['q'], k['d'], k['value'], k['sel']) for k in c['conds']]
        nfirst = len(objs) if c['late'] is None else c['late']
        for o, k in list(zip(objs, c['conds']))[:nfirst]:
            M.addStoppingCondition(o, k['mode'])
        for si, sim in enumerate(c['sim']):
            if si == 1:
                for o, k in list(zip(objs, c['conds']))[nfirst:]:
                    M.addStoppingCondition(o, k['mode'])
            active = len(M._stoppingConditions)
            k0 = M.pData.n
            pre = [(bool(o.isSatisfied()), float(o.satisfiedTime())) for o in objs[:active]]
            with contextlib.redirect_stdout(io.StringIO()):
                M.solve(sim, solverType=SolverType.RK4 if c['rk4'] else SolverType.EXPLICITEULER, minDtFrac=1e-14, maxDtFrac=1)
            post = [(bool(o.isSatisfied()), float(o.satisfiedTime())) for o in objs[:active]]
            segs.append(dict(k0=k0, tf=float(M.finalTime), active=active, pre=pre, m=M.pData.n, post=post, H=pdata_hist(M.pData)))
    except Exception as e:
        exc = excinfo(e)
    return segs, exc


def oracle_segment(res, keyp, desc, conds, seg, count_tag, coupled_stop=False):
    """the property on one `solve` call: rows k0..m of the pData history, condition latches before / after.
    coupled_stop: the model was solved through a Coupler and ANOTHER coupled model requested the stop at the last row
    (decided by oracle_coupled from that model's own history) - only then may the run end before the end time without
    this model's rule holding"""
    H, k0, m, tf = seg['H'], seg['k0'], seg['m'], seg['tf']
    act = conds[:seg['active']]
    modes = [k['mode'] == 'or' for k in act]
    xs = [H[QUANT[k['q']]][:, k['col']] for k in act]
    t = H['time']
    if len(t) != m + 1:
        res.violate(keyp + 'history-length', 'pData.n does not index the last row', desc, (len(t), m)); return
    sats = [p[0] for p in seg['pre']]
    first = [None] * len(act)
    ended = None
    for j in range(k0 + 1, m + 1):
        if not (t[j - 1] < tf):
            res.violate(keyp + 'step-after-end-time', 'a step was taken from row %d although its time is not below the end time' % (j - 1), desc, float(t[j - 1]), tf); return
        for i, k in enumerate(act):
            if not sats[i] and beyond(k['d'], k['value'], xs[i][j]):
                sats[i] = True; first[i] = j
        st = stop_rule(modes, sats)
        if st and j < m:
            res.violate(keyp + 'ran-past-stop', 'the and/or combination held after step %d but the run continued to row %d' % (j, m), desc,
                        dict(step=j, satisfied=sats), 'run ends at step %d' % j); return
        if j == m:
            ended = 'stop' if st else 'time'
    if m == k0:
        if t[k0] < tf:
            res.violate(keyp + 'no-step-taken', 'solve took no step although the end time was not reached', desc); return
        ended = 'time'
    if ended == 'time' and coupled_stop and m > k0:
        ended = 'other-coupled-model'
    if ended == 'time' and not (t[m] >= tf):
        res.violate(keyp + 'stopped-without-condition', 'the run ended at t = %r before the end time %r although the and/or combination does not hold' % (float(t[m]), tf),
                    desc, dict(satisfied=sats, modes=modes), 'run to the end time'); return
    res.count(count_tag + ':ended-by-' + str(ended))
    for i, k in enumerate(act):
        ps, pt = seg['pre'][i]; qs, qt = seg['post'][i]
        if qs != sats[i]:
            res.violate(keyp + ('crossing-missed' if sats[i] else 'satisfied-without-crossing'),
                        'condition %d (%s %s %r): isSatisfied() = %r but the history says %r' % (i, CLASSES[k['q']], k['d'], k['value'], qs, sats[i]), desc, qs, sats[i]); return
        if ps:
            if qt != pt:
                res.violate(keyp + 'latch-lost', 'reported time of an already satisfied condition changed during a later solve', desc, qt, pt)
        elif first[i] is None:
            if qt != pt:
                res.violate(keyp + 'time-set-while-unsatisfied', 'reported time changed although the threshold was never passed', desc, qt, pt)
            res.count(count_tag + ':cond-never-met')
        else:
            kk = check_time(res, keyp, desc, H, xs[i], k['d'], k['value'], first[i], qt)
            res.count(count_tag + ':cond-met:' + kk)
            res.count(count_tag + ':cond-met-' + ('early' if first[i] - k0 <= max(1, (m - k0) // 3) else 'late'))


def seg_line(c_names, H, nP, nE, conds, seg, reset=False):
    ents = ' '.join('%s %s %s' % (enc_cond(k['q'], k['d'], k['value'], k['sel']), 'T' if k['mode'] == 'or' else 'F', enc_latch(*p))
                    for k, p in zip(conds[:seg['active']], seg['pre']))
    return 'sc.run %s %s %s %d %d %s %d %s' % (enc_hist(nP, nE, H), c_names, f2b(seg['tf']), len(H['time']) + 5, seg['k0'],
                                              'T' if reset else 'F', seg['active'], ents)


def compare_segment(res, desc, ln, seg):
    t = Toks(ln)
    if not t.ok or t.t[1] == 'raise':
        res.disagree('sc.run model error', desc, 'ok', ln[:80]); return
    m = t.nat(); stopped = t.bool(); flags = [t.bool() for _ in range(t.nat())]
    k = t.nat(); lat = [(t.bool(), t.flt()) for _ in range(k)]
    if m != seg['m']:
        res.disagree('last row of the run', desc, seg['m'], m); return
    if any(a[0] != b[0] or not close(a[1], b[1], 1e-12) for a, b in zip(seg['post'], lat)) or len(lat) != len(seg['post']):
        res.disagree('latches after solve', desc, seg['post'], lat); return
    impl_stopped = bool(seg['H']['time'][seg['m']] < seg['tf'])
    if impl_stopped and not stopped:
        res.disagree('ended before the end time but the model did not stop', desc, impl_stopped, stopped)
    if any(flags[:-1]):
        res.disagree('model stop flag true before the last step', desc, None, flags)


def post_synth(res, c, segs, exc, model, lis, first):
    desc = synth_desc(c)
    res.case(('synth', c['s']), nontrivial=len(c['conds']) > 0 and exc is None)
    res.count('synth:conds:%d' % len(c['conds'])); res.count('synth:modes:' + c['mk'])
    res.count('synth:solves:%d' % len(c['sim'])); res.count('synth:iterator:' + ('rk4' if c['rk4'] else 'euler'))
    if first:
        res.sample(dict(desc, segments=[dict(k0=s_['k0'], m=s_['m'], tf=s_['tf'], post=s_['post']) for s_ in segs]))
    if exc is not None:
        report_exc(res, 'solve-with-conditions', desc, exc)
    for seg, li in zip(segs, lis):
        oracle_segment(res, '', desc, c['conds'], seg, 'synth')
        if model is not None and li is not None:
            compare_segment(res, desc, model[li], seg)
    res.traces += len(segs)


def part_synth(ctx, res, N, oracle_only):
    lines, recs = [], []
    for _ in range(N):
        s = ctx.rng.getrandbits(40)
        ok, c = guard(res, 'synth-generate', dict(kind='synth', s=s), synth_case, s)
        if not ok:
            continue
        ok, r = guard(res, 'solve-with-conditions', synth_desc(c), drive_synth, c)
        if not ok:
            continue
        segs, exc = r
        lis = []
        for seg in segs:        # only completed solves are in segs
            ok, ln = guard(res, 'synth-encode', synth_desc(c), seg_line, enc_names(c['phases'], c['elements']), seg['H'], c['nP'], c['nE'], c['conds'], seg)
            lis.append(len(lines) if ok else None)
            if ok:
                lines.append(ln)
        recs.append((c, segs, exc, lis))
    model = driver(ctx, res, lines, oracle_only)
    for i, (c, segs, exc, lis) in enumerate(recs):
        guard(res, 'synth-evaluate', synth_desc(c), post_synth, res, c, segs, exc, model, lis, i < 1)


# ---- TTP calculator on scripted histories
def pbm_state(M):
    """configuration and grid of every population balance model of a PrecipitateModel (None: the model has none)"""
    P = getattr(M, 'PBM', None)
    if P is None:
        return None
    out = []
    for p in P:
        b = np.asarray(p.PSDbounds, dtype=float)
        out.append(dict(originalMin=float(p.originalMin), originalMax=float(p.originalMax), originalBins=int(p.originalBins),
                        minBins=int(p.minBins), maxBins=int(p.maxBins), adaptive=bool(p._adaptiveBinSize), record=bool(p._record),
                        min=float(p.min), max=float(p.max), bins=int(p.bins),
                        grid_is_linspace=bool(len(b) == int(p.bins) + 1 and np.array_equal(b, np.linspace(p.min, p.max, int(p.bins) + 1))),
                        psd_len=int(len(p.PSD)), psd_zero=bool(not np.any(np.asarray(p.PSD))),
                        recorded_rows=(None if p._recordedTime is None else int(len(p._recordedTime)))))
    return out


class SnapPool:
    """calculateTTP accepts any object with .map; this one records the model after every temperature"""
    def __init__(self, model, objs):
        self.model, self.objs, self.snaps = model, objs, []

    def map(self, f, xs):
        out = []
        for x in xs:
            pre = [(bool(o.isSatisfied()), float(o.satisfiedTime())) for o in self.objs]
            with contextlib.redirect_stdout(io.StringIO()):
                r = f(x)
            out.append(r)
            self.snaps.append(dict(T=float(x), pre=pre, ret=np.array(r, dtype=float), H=pdata_hist(self.model.pData), m=self.model.pData.n,
                                   tf=float(self.model.finalTime), post=[(bool(o.isSatisfied()), float(o.satisfiedTime())) for o in self.objs],
                                   temperature=np.array(self.model.pData.temperature, dtype=float), pbm=pbm_state(self.model)))
        return out


def ttp_synth_case(s):
    r = np.random.default_rng([s, 3])
    nP, nE = int(r.integers(1, 3)), int(r.integers(1, 3))
    phases = [str(p) for p in r.permutation(PHASES)[:nP]]
    elements = [str(e) for e in r.permutation(ELEMS)[:nE]]
    L = int(r.choice([4, 8, 15]))
    nT = int(r.integers(2, 5))
    temps = np.linspace(600.0, 600.0 + 50 * (nT - 1), nT)
    Hs = {}
    for T in temps:
        H, _ = gen_history(np.random.default_rng([s, 4, int(T)]), L, nP, nE)
        H['time'] = H['time'] - H['time'][0]
        Hs[round(float(T), 6)] = H
    H0 = Hs[round(float(temps[int(r.integers(0, nT))]), 6)]
    conds = []
    for _ in range(int(r.integers(1, 4))):
        q = int(r.integers(0, 6))
        names = elements if q == 5 else phases
        sel = None if r.random() < 0.3 else names[int(r.integers(0, len(names)))]
        col = col_of(names, sel)
        d = pick_dir(r, H0[QUANT[q]][:, col])
        value, tk = pick_threshold(r, H0[QUANT[q]][:, col], d)
        conds.append(dict(q=q, d=d, sel=sel, col=col, value=float(value), mode='and', tk=tk))
    maxTime = float(min(H['time'][-1] for H in Hs.values()) * r.uniform(0.5, 1.0))
    return dict(kind='ttp-synth', s=s, nP=nP, nE=nE, phases=phases, elements=elements, L=L, temps=temps, Hs=Hs, conds=conds, maxTime=maxTime)


def ttp_desc(c):
    return dict(kind=c['kind'], s=c['s'], temperatures=[float(T) for T in c['temps']], maxTime=c['maxTime'],
                conditions=[dict(condition=CLASSES[k['q']], inequality=k['d'], value=k['value'], selector=k['sel']) for k in c['conds']])


def oracle_ttp(res, desc, conds, snaps, table, tag):
    for i, sn in enumerate(snaps):
        d2 = dict(desc, temperature=sn['T'])
        seg = dict(H=sn['H'], k0=0, m=sn['m'], tf=sn['tf'], active=len(conds), pre=[(False, -1.0)] * len(conds), post=sn['post'])
        if sn['H']['time'][0] != 0.0:
            res.violate('ttp-history-not-restarted', 'the history of this temperature does not start at t = 0 (model not reset)', d2, float(sn['H']['time'][0]), 0.0)
        # with pre = clear, the segment oracle states: reported times are those of THIS temperature's run
        oracle_segment(res, 'ttp-', d2, conds, seg, tag)
        rep = [p[1] if p[0] else -1.0 for p in sn['post']]
        if list(sn['ret']) != [p[1] for p in sn['post']] or list(table[i]) != list(sn['ret']):
            res.violate('ttp-table-not-condition-times', 'transformationTimes row differs from the conditions\' satisfiedTime()', d2, list(table[i]), [p[1] for p in sn['post']])
        for j, (p, v) in enumerate(zip(sn['post'], rep)):
            if not p[0] and p[1] != -1.0:
                res.violate('ttp-stale-time', 'condition %d not reached at this temperature but reports %r (time of another temperature\'s run?)' % (j, p[1]), d2, p[1], -1.0)
        res.count(tag + ':temperatures')


class _NoPool:
    snaps = []


def drive_ttp_synth(c):
    exc = None; pool = _NoPool(); table = None
    try:
        from kawin.precipitation.TimeTemperaturePrecipitation import TTPCalculator
        M = synth_class()(c['phases'], c['elements'], lambda T, c=c: c['Hs'][round(float(T), 6)])
        objs = [make_cond(k['q'], k['d'], k['value'], k['sel']) for k in c['conds']]
        pool = SnapPool(M, objs)
        ttp = TTPCalculator(M, objs)
        ttp.calculateTTP(float(c['temps'][0]), float(c['temps'][-1]), len(c['temps']), c['maxTime'], pool=pool)
        table = np.array(ttp.transformationTimes)
    except Exception as e:
        exc = excinfo(e)
    return pool, table, exc


def ttp_lines(c, snaps, nP, nE, phases, elements):
    nm = enc_names(phases, elements)
    out = []
    for sn in snaps:
        cl = ' '.join('%s %s' % (enc_cond(k['q'], k['d'], k['value'], k['sel']), enc_latch(*p)) for k, p in zip(c['conds'], sn['pre']))
        out.append('sc.ttp %s %s %s %d %d %s' % (enc_hist(nP, nE, sn['H']), nm, f2b(sn['tf']), len(sn['H']['time']) + 5, len(c['conds']), cl))
    return out


def post_ttp(res, c, snaps, table, exc, model, li, tag, what):
    desc = ttp_desc(c)
    res.case((c['kind'], c['s']), nontrivial=exc is None)
    if exc is not None:
        report_exc(res, what, desc, exc)
        return
    oracle_ttp(res, desc, c['conds'], snaps, table, tag)
    if tag == 'ttp-real':
        for sn in snaps:
            if not np.all(sn['temperature'] == sn['T']):
                res.violate('ttp-wrong-temperature', 'the run for this temperature was not made at this temperature', dict(desc, temperature=sn['T']),
                            [float(sn['temperature'].min()), float(sn['temperature'].max())], sn['T'])
        res.sample(dict(desc, table=table.tolist(), rows=[sn['m'] for sn in snaps]), cap=4)
    if model is not None and li is not None:
        for j, sn in enumerate(snaps):
            t = Toks(model[li + j])
            got = t.flts() if t.ok and t.t[1] != 'raise' else None
            if got is None or len(got) != len(sn['ret']) or any(not close(a, b, 1e-12) for a, b in zip(sn['ret'], got)):
                res.disagree('TTP times of one temperature', dict(desc, temperature=sn['T']), list(sn['ret']), got)
    res.traces += len(snaps)


def part_ttp_synth(ctx, res, N, oracle_only):
    lines, recs = [], []
    for _ in range(N):
        s = ctx.rng.getrandbits(40)
        ok, c = guard(res, 'ttp-generate', dict(kind='ttp-synth', s=s), ttp_synth_case, s)
        if not ok:
            continue
        ok, r = guard(res, 'ttp-calculator', ttp_desc(c), drive_ttp_synth, c)
        if not ok:
            continue
        pool, table, exc = r
        li = None
        if exc is None:
            ok, ls = guard(res, 'ttp-encode', ttp_desc(c), ttp_lines, c, pool.snaps, c['nP'], c['nE'], c['phases'], c['elements'])
            if ok:
                li = len(lines); lines += ls
        recs.append((c, pool.snaps, table, exc, li))
    model = driver(ctx, res, lines, oracle_only)
    for c, snaps, table, exc, li in recs:
        guard(res, 'ttp-evaluate', ttp_desc(c), post_ttp, res, c, snaps, table, exc, model, li, 'ttp-synth', 'ttp-calculator')


# ---------------------------------------------------------------- (b) real binary Al-Zr run
_REAL = {}


def real_model(T=450 + 273.15):
    vlib.use_repo()
    from kawin.tests.datasets import ALZR_TDB
    from kawin.precipitation import PrecipitateModel, VolumeParameter
    from kawin.thermo import BinaryThermodynamics
    if 'therm' not in _REAL:
        th = BinaryThermodynamics(ALZR_TDB, ['AL', 'ZR'], ['FCC_A1', 'AL3ZR'], drivingForceMethod='tangent')
        th.setDFSamplingDensity(2000); th.setEQSamplingDensity(500)
        th.setDiffusivity(lambda T: 0.0768 * np.exp(-242000 / (8.314 * T)), 'FCC_A1')
        _REAL['therm'] = th
    model = PrecipitateModel(phases=['AL3ZR'], elements=['ZR'])
    model.setPBMParameters(cMin=1e-10, cMax=1e-8, bins=75, minBins=50, maxBins=100)
    model.setInitialComposition(4e-3)
    model.setTemperature(T)
    model.setInterfacialEnergy(0.1)
    a = 0.405e-9
    model.setVolumeAlpha(a ** 3, VolumeParameter.ATOMIC_VOLUME, 4)
    model.setVolumeBeta(a ** 3, VolumeParameter.ATOMIC_VOLUME, 4)
    model.setNucleationDensity(grainSize=1, dislocationDensity=1e15)
    model.setNucleationSite('dislocations')
    model.setThermodynamics(_REAL['therm'])
    return model


# thresholds for the 450 C, 0.4 at.% Zr run (5 h): volFrac -> 0.0153, Ravg -> 2.6e-9, density peak 2.0e23,
# driving force 5.8e8 -> 8.0e7, nucleation rate peak 4.0e20 then -> 0, composition 4e-3 -> 1.7e-4
def real_menu(r, which):
    lg = lambda a, b: float(10 ** r.uniform(a, b))
    M = {
        'vf>': (0, 'G', lambda: lg(-5, -1.75)), 'R>': (1, 'G', lambda: float(r.uniform(3e-10, 2.8e-9))),
        'dG<': (2, 'L', lambda: float(r.uniform(6e7, 5.7e8))), 'nuc>': (3, 'G', lambda: lg(8, 20.8)),
        'dens>': (4, 'G', lambda: lg(16, 23.4)), 'x<': (5, 'L', lambda: float(r.uniform(1e-4, 3.99e-3))),
        'nuc<': (3, 'L', lambda: lg(5, 15)), 'dens<': (4, 'L', lambda: lg(18, 22)), 'dG>': (2, 'G', lambda: float(r.uniform(1e8, 7e8))),
        'x>': (5, 'G', lambda: float(r.uniform(1e-3, 5e-3))), 'vf<': (0, 'L', lambda: lg(-6, -2)), 'R<': (1, 'L', lambda: float(r.uniform(1e-10, 1e-9))),
    }
    q, d, f = M[which]
    sel = None if r.random() < 0.4 else ('ZR' if q == 5 else 'AL3ZR')
    return dict(q=q, d=d, sel=sel, col=0, value=f(), tk=which)


def real_case(s, variant):
    r = np.random.default_rng([s, 5])
    if variant == 'all-and':      # every quantity monitored, run long
        keys = ['vf>', 'R>', 'dG<', 'nuc>', 'dens>', 'x<']
        conds = [dict(real_menu(r, k), mode='and') for k in keys]
        sim = 5 * 3600.0
    elif variant == 'or-mix':
        keys = [str(k) for k in r.choice(['vf>', 'R>', 'dG<', 'nuc>', 'dens>', 'x<'], size=int(r.integers(2, 5)), replace=False)]
        conds = [dict(real_menu(r, k), mode=('or' if i == 0 or r.random() < 0.5 else 'and')) for i, k in enumerate(keys)]
        sim = 5 * 3600.0
    elif variant == 'never':      # thresholds out of reach (plus one reachable and-condition): must run to the end time
        never = {'vf>': 0.5, 'R>': 1e-6, 'dG<': 1e3, 'nuc>': 1e30, 'dens>': 1e30, 'x<': 1e-6}
        keys = [str(k) for k in r.choice(list(never), size=int(r.integers(2, 5)), replace=False)]
        conds = [dict(real_menu(r, k), mode=('or' if r.random() < 0.6 else 'and')) for k in keys]
        for k, cd in zip(keys, conds):
            cd['value'] = never[k]
        conds.append(dict(real_menu(r, 'nuc>'), mode='and'))
        if not any(cd['mode'] == 'and' and cd['value'] in never.values() for cd in conds):
            conds[0]['mode'] = 'and'          # the reachable and-condition alone must not stop the run
        sim = float(r.choice([120.0, 300.0]))
    else:                         # anything, including conditions that hold in the initial state
        allk = ['vf>', 'R>', 'dG<', 'nuc>', 'dens>', 'x<', 'nuc<', 'dens<', 'dG>', 'x>', 'vf<', 'R<']
        keys = [str(k) for k in r.choice(allk, size=int(r.integers(1, 5)), replace=False)]
        conds = [dict(real_menu(r, k), mode=('or' if r.random() < 0.5 else 'and')) for k in keys]
        sim = float(r.choice([5 * 3600.0, 3600.0, 600.0]))
    return dict(kind='real', s=s, variant=variant, conds=conds, sim=sim, T=450 + 273.15)


def real_desc(c):
    return dict(kind='real', s=c['s'], variant=c['variant'], system='Al-0.4Zr, 723.15 K, Euler, 75 bins', simTime=c['sim'],
                conditions=[dict(condition=CLASSES[k['q']], inequality=k['d'], value=k['value'], selector=k['sel'], mode=k['mode']) for k in c['conds']])


def drive_real(c):
    import warnings
    exc, seg = None, None
    try:
        with warnings.catch_warnings(), contextlib.redirect_stdout(io.StringIO()), np.errstate(all='ignore'):
            warnings.simplefilter('ignore')
            from kawin.solver import SolverType
            M = real_model(c['T'])
            objs = [make_cond(k['q'], k['d'], k['value'], k['sel']) for k in c['conds']]
            for o, k in zip(objs, c['conds']):
                M.addStoppingCondition(o, k['mode'])
            M.solve(c['sim'], solverType=SolverType.EXPLICITEULER, verbose=False)
        seg = dict(k0=0, tf=float(M.finalTime), active=len(objs), pre=[(False, -1.0)] * len(objs), m=M.pData.n,
                   post=[(bool(o.isSatisfied()), float(o.satisfiedTime())) for o in objs], H=pdata_hist(M.pData))
    except Exception as e:
        exc = excinfo(e); seg = None
    return seg, exc


def post_real(res, c, seg, exc, model, li):
    desc = real_desc(c)
    res.case(('real', c['s'], c['variant']), nontrivial=exc is None)
    res.count('real:variant:' + c['variant'])
    if exc is not None:
        report_exc(res, 'real-run-with-conditions', desc, exc)
        return
    res.count('real:steps', seg['m'])
    res.sample(dict(desc, rows=seg['m'], t_end=float(seg['H']['time'][-1]), latches=seg['post']), cap=4)
    oracle_segment(res, 'real-', desc, c['conds'], seg, 'real')
    if model is not None and li is not None:
        compare_segment(res, desc, model[li], seg)
    res.traces += 1


def part_real(ctx, res, variants, oracle_only):
    lines, recs = [], []
    for v in variants:
        s = ctx.rng.getrandbits(40)
        ok, c = guard(res, 'real-generate', dict(kind='real', s=s, variant=v), real_case, s, v)
        if not ok:
            continue
        ok, r = guard(res, 'real-run-with-conditions', real_desc(c), drive_real, c)
        if not ok:
            continue
        seg, exc = r
        li = None
        if seg is not None:
            ok, ln = guard(res, 'real-encode', real_desc(c), seg_line, enc_names(['AL3ZR'], ['ZR']), seg['H'], 1, 1, c['conds'], seg)
            if ok:
                li = len(lines); lines.append(ln)
        recs.append((c, seg, exc, li))
    model = driver(ctx, res, lines, oracle_only)
    for c, seg, exc, li in recs:
        guard(res, 'real-evaluate', real_desc(c), post_real, res, c, seg, exc, model, li)


def drive_ttp_real(c):
    import warnings
    exc = None; pool = _NoPool(); table = None
    try:
        with warnings.catch_warnings(), np.errstate(all='ignore'):
            warnings.simplefilter('ignore')
            from kawin.precipitation.TimeTemperaturePrecipitation import TTPCalculator
            M = real_model()
            objs = [make_cond(k['q'], k['d'], k['value'], k['sel']) for k in c['conds']]
            pool = SnapPool(M, objs)
            ttp = TTPCalculator(M, objs)
            ttp.calculateTTP(float(c['temps'][0]), float(c['temps'][-1]), len(c['temps']), c['maxTime'], pool=pool)
            table = np.array(ttp.transformationTimes)
    except Exception as e:
        exc = excinfo(e)
    return pool, table, exc


def ttp_real_case(s):
    r = np.random.default_rng([s, 6])
    conds = [dict(q=0, d='G', sel='AL3ZR', col=0, value=float(10 ** r.uniform(-4, -2.5)), mode='and', tk='vf>'),
             dict(q=1, d='G', sel=None, col=0, value=float(r.uniform(5e-10, 1.2e-9)), mode='and', tk='R>'),
             dict(q=5, d='L', sel='ZR', col=0, value=float(r.uniform(3.0e-3, 3.9e-3)), mode='and', tk='x<'),
             dict(q=3, d='L', sel=None, col=0, value=1e10, mode='and', tk='nuc<')][: int(r.integers(3, 5))]
    return dict(kind='ttp-real', s=s, temps=np.linspace(698.15, 773.15, 3), conds=conds, maxTime=float(r.choice([900.0, 1500.0])))


def part_ttp_real(ctx, res, oracle_only):
    s = ctx.rng.getrandbits(40)
    ok, c = guard(res, 'ttp-generate', dict(kind='ttp-real', s=s), ttp_real_case, s)
    if not ok:
        return
    ok, r = guard(res, 'ttp-calculator-real', ttp_desc(c), drive_ttp_real, c)
    if not ok:
        return
    pool, table, exc = r
    lines, li = [], None
    if exc is None:
        ok, ls = guard(res, 'ttp-encode', ttp_desc(c), ttp_lines, c, pool.snaps, 1, 1, ['AL3ZR'], ['ZR'])
        if ok:
            li = 0; lines = ls
    model = driver(ctx, res, lines, oracle_only)
    guard(res, 'ttp-evaluate', ttp_desc(c), post_ttp, res, c, pool.snaps, table, exc, model, li, 'ttp-real', 'ttp-calculator-real')


# ---------------------------------------------------------------- (h) histories of the condition list of ONE model
# A pool of condition objects and one model; random sequences of addStoppingCondition (both modes),
# clearStoppingConditions, reset, solve, TTPCalculator construction (+ calculateTTP) on the same model, further runs.
# The oracle keeps its own registration state (which pool objects are registered NOW, with which mode, and the latch
# each object must have) from the documented meaning of the calls and evaluates every run against it.
HIST_TEMPS = [600.0, 650.0, 700.0]


def first_crossings(H, conds, m):
    """independent of the implementation: the (satisfied, time, row) a CLEAR latch gets from tests on rows 1..m of H"""
    out = []
    t = H['time']
    for k in conds:
        x = H[QUANT[k['q']]][:, k['col']]
        j = next((j for j in range(1, m + 1) if beyond(k['d'], k['value'], x[j])), None)
        if j is None:
            out.append((False, -1.0, None))
        elif beyond(k['d'], k['value'], x[j - 1]):
            out.append((True, float(t[j - 1]), j))
        else:
            out.append((True, float(t[j - 1]) + (k['value'] - float(x[j - 1])) / (float(x[j]) - float(x[j - 1])) * float(t[j] - t[j - 1]), j))
    return out


def reg_class(reg):
    if not reg:
        return 'none-registered'
    o, a = any(m for _, m in reg), any(not m for _, m in reg)
    return 'or-and-mixed' if (o and a) else 'or-only' if o else 'and-only'


def gen_ops(r, K, nops, allow_ttp, sims, max_solves=99, max_T=3):
    ops, ns = [], 0
    pick = lambda: [int(v) for v in r.permutation(K)[: int(r.integers(1, min(K, 3) + 1))]]
    for _ in range(nops):
        u = r.random()
        if u < 0.30:
            ops.append(('add', int(r.integers(0, K)), bool(r.random() < 0.5)))
        elif u < 0.42:
            ops.append(('clear',))
        elif u < 0.52:
            ops.append(('reset',))
        elif u < 0.80:
            if ns < max_solves:
                ops.append(('solve', sims(r))); ns += 1
        elif u < 0.87 or not allow_ttp:
            ops.append(('ttpinit', pick()))
        else:
            ops.append(('ttp', pick(), int(r.integers(1, max_T + 1)), sims(r) * 2))
    if not ops or ops[-1][0] not in ('solve', 'ttp'):
        ops.append(('solve', sims(r)))
    return ops


def hist_case(s):
    r = np.random.default_rng([s, 7])
    nP, nE = int(r.integers(1, 3)), int(r.integers(1, 3))
    phases = [str(p) for p in r.permutation(PHASES)[:nP]]
    elements = [str(e) for e in r.permutation(ELEMS)[:nE]]
    L = int(r.choice([4, 6, 10, 15]))
    H0, _ = gen_history(r, L, nP, nE)
    H0['time'] = H0['time'] - H0['time'][0]
    Hs = {0.0: H0}
    corr_ = r.random() < 0.7
    for T in HIST_TEMPS:
        if corr_:       # same shapes, other magnitudes and time steps: thresholds stay inside the range at every temperature
            H = {'time': np.concatenate([[0.0], np.cumsum(np.diff(H0['time']) * 10 ** r.uniform(-0.5, 0.5, L - 1))])}
            for nm in QUANT:
                H[nm] = H0[nm] * (1 + 0.3 * r.random(H0[nm].shape[1]))
        else:
            H, _ = gen_history(r, L, nP, nE)
            H['time'] = H['time'] - H['time'][0]
        Hs[T] = H
    K = int(r.integers(2, 6))
    pool = []
    keys = list(Hs)
    for _ in range(K):
        q = int(r.integers(0, 6))
        names = elements if q == 5 else phases
        sel = None if r.random() < 0.3 else names[int(r.integers(0, len(names)))]
        col = col_of(names, sel)
        Hk = Hs[keys[int(r.integers(0, len(keys)))]]
        d = pick_dir(r, Hk[QUANT[q]][:, col])
        value, tk = pick_threshold(r, Hk[QUANT[q]][:, col], d)
        pool.append(dict(q=q, d=d, sel=sel, col=col, value=float(value), tk=tk))
    span = float(min(H['time'][-1] for H in Hs.values()))
    ops = gen_ops(r, K, int(r.integers(3, 12)), True, lambda r_: float(span * r_.uniform(0.15, 0.7)))
    return dict(kind='hist', s=s, nP=nP, nE=nE, phases=phases, elements=elements, L=L, Hs=Hs, pool=pool, ops=ops, rk4=bool(r.random() < 0.3))


def hist_real_case(s, with_ttp):
    r = np.random.default_rng([s, 8])
    # 450 C, dtScale 0.05: f = 5.6e-7 at 300 s, 2.8e-3 at 1000 s; R = 5.8e-10 / 1.4e-9
    pool = [dict(q=0, d='G', sel='AL3ZR', col=0, value=float(10 ** r.uniform(-6.5, -4.0)), tk='vf>'),
            dict(q=0, d='G', sel=None, col=0, value=0.5, tk='vf>never'),
            dict(q=1, d='G', sel=None, col=0, value=float(r.uniform(5e-10, 9e-10)), tk='R>'),
            dict(q=5, d='L', sel='ZR', col=0, value=float(r.uniform(3.9e-3, 3.999e-3)), tk='x<'),
            dict(q=0, d='G', sel=None, col=0, value=float(10 ** r.uniform(-3.5, -3.0)), tk='vf>late')]
    nT = int(with_ttp)   # temperatures of the calculateTTP call (quick 1, thorough also 2); the reference of each is a fresh model
    sims = lambda r_: float(r_.choice([100.0, 200.0]))
    # the model is used for an ordinary run with conditions, reset, handed to a calculator, then used again
    ops = [('add', int(r.integers(0, len(pool))), bool(r.random() < 0.6))] + gen_ops(r, len(pool), int(r.integers(2, 5)), False, sims, max_solves=1)
    if not any(o[0] == 'solve' for o in ops):
        ops.append(('solve', sims(r)))
    ops.append(('reset',))                      # a direct reset() after a run, before the model is handed on
    if nT:
        ops += [('ttp', [0, 2] if (nT == 1 or r.random() < 0.5) else [2, 0, 4], nT, 500.0 if nT == 1 else 1000.0)]
    ops += gen_ops(r, len(pool), int(r.integers(1, 4)), False, sims, max_solves=1)
    return dict(kind='hist-real', s=s, with_ttp=int(with_ttp), nP=1, nE=1, phases=['AL3ZR'], elements=['ZR'], pool=pool, ops=ops, rk4=False)


class SynthAdapter:
    tag = 'hist'
    ref_rtol = 0.0

    def __init__(self, c):
        self.c = c

    def make(self):
        c = self.c
        return synth_class()(c['phases'], c['elements'], lambda T, c=c: c['Hs'][round(float(T), 6)])

    pbm_cfg = None           # the scripted model has no population balance model

    def reference(self):
        """a FRESHLY CONSTRUCTED model of the same configuration that never gets a stopping condition and is never reset"""
        return self.make()

    def after_reset(self, M):
        pass

    def solve(self, M, sim):
        from kawin.solver import SolverType
        M.solve(sim, solverType=SolverType.RK4 if self.c['rk4'] else SolverType.EXPLICITEULER, minDtFrac=1e-14, maxDtFrac=1)

    def temps(self, nT):
        return HIST_TEMPS[0], HIST_TEMPS[nT - 1], nT


class RealAdapter(SynthAdapter):
    tag = 'hist-real'
    ref_rtol = 1e-6         # the reference is a second thermodynamics-backed run: compared as numbers, not as the same rows

    # what real_model() passes to setPBMParameters (NOT the defaults 1e-10, 1e-9, 150, 100, 200) + setPSDrecording(True) below
    pbm_cfg = dict(originalMin=1e-10, originalMax=1e-8, originalBins=75, minBins=50, maxBins=100, adaptive=True, record=True)

    def make(self):
        M = real_model()
        M.setConstraints(dtScale=0.05)      # only shortens the initial ramp of the time step
        M.setPSDrecording(True)
        return M

    def solve(self, M, sim):
        from kawin.solver import SolverType
        M.solve(sim, solverType=SolverType.EXPLICITEULER, verbose=False)

    def temps(self, nT):
        return 733.15, 748.15, nT


def hist_adapter(c):
    return RealAdapter(c) if c['kind'] == 'hist-real' else SynthAdapter(c)


def hist_desc(c, at=None):
    d = dict(kind=c['kind'], s=c['s'], ops=[list(o) if o[0] != 'solve' else ['solve', float(o[1])] for o in c['ops']],
             pool=[dict(condition=CLASSES[k['q']], inequality=k['d'], value=k['value'], selector=k['sel']) for k in c['pool']],
             iterator='RK4' if c['rk4'] else 'Euler')
    if c['kind'] == 'hist-real':
        d['with_ttp'] = c['with_ttp']
    if at is not None:
        d['at_call'] = at
    return d


# ---- what reset() may and may not change: walk of vars(model)
# results, population balance CONTENTS, setup flags / scratch storage, latches of the registered conditions
RESET_MAY_CHANGE = re.compile(r'^(pData|_currY|_isSetup|_precBetaTemp|eqAspectRatio|RdrivingForceIndex|dissolutionIndex|dTemp|iterationSinceTempChange)(\W|$)'
                              r'|^PBM\[\d+\]\.(PSD|PSDbounds|PSDsize|min|max|bins|_netFlux|_prevPSD|_prevPSDbounds|_recordedBins|_recordedPSD|_recordedTime|maxRatio)$'
                              r'|^_stoppingConditions\[\d+\]\.(_isSatisfied|_satisfiedTime)$')


def _walk(v, path, out, depth=0):
    if isinstance(v, np.ndarray):
        raw = repr(v.tolist()).encode() if v.dtype == object else np.ascontiguousarray(v).tobytes()
        out[path] = (id(v), ('array', v.shape, str(v.dtype), hashlib.sha1(raw).hexdigest()[:12]))
    elif isinstance(v, (bool, int, float, str, type(None), np.generic, complex)):
        out[path] = (None, ('value', v.item() if isinstance(v, np.generic) else v))
    elif isinstance(v, (list, tuple)):
        out[path] = (id(v) if isinstance(v, list) else None, (type(v).__name__, len(v)))
        if depth < 5:
            for i, x in enumerate(v):
                _walk(x, '%s[%d]' % (path, i), out, depth + 1)
    elif isinstance(v, dict):
        out[path] = (id(v), ('dict', sorted(map(repr, v.keys()))))
        if depth < 5:
            for k, x in v.items():
                _walk(x, '%s[%r]' % (path, k), out, depth + 1)
    elif hasattr(v, '__dict__') and not callable(v) and type(v).__module__.startswith('kawin.precipitation'):
        out[path] = (id(v), ('object', type(v).__name__))
        if depth < 5:
            for k, x in vars(v).items():
                _walk(x, path + '.' + k, out, depth + 1)
    else:
        out[path] = (id(v), ('reference', type(v).__name__))      # functions, thermodynamics, foreign objects: identity only


def model_walk(M):
    """identity and value fingerprint of everything the model holds (parameter objects of kawin.precipitation are entered)"""
    out = {}
    for k, v in vars(M).items():
        if k != 'reset':                 # the harness's own wrapper
            _walk(v, k, out)
    return out


def walk_diff(a, b):
    """[(path, what, before, after)] for everything outside RESET_MAY_CHANGE that is not the same object with the same value"""
    out = []
    for k in sorted(set(a) | set(b)):
        if a.get(k) == b.get(k) or RESET_MAY_CHANGE.search(k):
            continue
        ka, kb = a.get(k), b.get(k)
        if kb is None:
            what = 'attribute-removed'
        elif ka is None:
            what = 'attribute-added'
        else:
            what = 'replaced-by-another-object' if ka[1] == kb[1] else 'value-changed'
        out.append((k, what, str(ka)[:120], str(kb)[:120]))
    return out


def drive_hist(c):
    """the whole history on the real classes; one record per call as the model sees it (a calculateTTP is
    `reset; solve` per temperature; on a model with population balance models every run is followed by what it did to the grids)"""
    import warnings
    ad = hist_adapter(c)
    rec, exc = [], None
    try:
      with warnings.catch_warnings(), contextlib.redirect_stdout(io.StringIO()), np.errstate(all='ignore'):
        warnings.simplefilter('ignore')
        from kawin.precipitation.TimeTemperaturePrecipitation import TTPCalculator
        M = ad.make()
        objs = [make_cond(k['q'], k['d'], k['value'], k['sel']) for k in c['pool']]
        lat = lambda: [(bool(o.isSatisfied()), float(o.satisfiedTime())) for o in objs]
        has_pbm = ad.pbm_cfg is not None
        resets = []          # every reset() of the model, direct or inside TTPCalculator._getStopTime: what it changed

        if has_pbm:
            orig_reset = M.reset

            def reset_observed():
                before = model_walk(M)
                orig_reset()
                resets.append(dict(diff=walk_diff(before, model_walk(M)), pbm=pbm_state(M)))
            M.reset = reset_observed
            rec.append(dict(k='P', oi=-1, lat=lat(), reg=None, pbm=pbm_state(M), cfg=[dict(ad.pbm_cfg) for _ in c['phases']]))

        def reg():
            sc, mo = getattr(M, '_stoppingConditions', None), getattr(M, '_stopConditionMode', None)
            if sc is None or mo is None or len(sc) != len(mo):
                return None
            return [(next((i for i, o in enumerate(objs) if o is x), -1), bool(b)) for x, b in zip(sc, mo)]

        def grids(oi, st, **kw):
            for p, g in enumerate(st or []):
                rec.append(dict(k='G', oi=oi, p=p, g=(g['min'], g['max'], g['bins']), lat=None, reg=None, pbm=st if p == len(st) - 1 else None, **kw))

        for oi, op in enumerate(c['ops']):
            if op[0] == 'add':
                M.addStoppingCondition(objs[op[1]], 'or' if op[2] else 'and')
                rec.append(dict(k='A', oi=oi, i=op[1], isOr=op[2], lat=lat(), reg=reg()))
            elif op[0] == 'clear':
                M.clearStoppingConditions()
                rec.append(dict(k='C', oi=oi, lat=lat(), reg=reg()))
            elif op[0] == 'reset':
                M.reset()
                rec.append(dict(k='R', oi=oi, lat=lat(), reg=reg(), rst=resets[-1] if has_pbm else None, pbm=resets[-1]['pbm'] if has_pbm else None))
            elif op[0] == 'solve':
                k0 = int(M.pData.n)
                ad.solve(M, op[1])
                rec.append(dict(k='S', oi=oi, k0=k0, tf=float(M.finalTime), m=int(M.pData.n), H=pdata_hist(M.pData), lat=lat(), reg=reg(), sim=op[1]))
                if has_pbm:
                    grids(oi, pbm_state(M))
            elif op[0] == 'ttpinit':
                TTPCalculator(M, [objs[i] for i in op[1]])
                rec.append(dict(k='T', oi=oi, idx=list(op[1]), lat=lat(), reg=reg()))
            else:
                ttp = TTPCalculator(M, [objs[i] for i in op[1]])
                rec.append(dict(k='T', oi=oi, idx=list(op[1]), lat=lat(), reg=reg()))
                pool = SnapPool(M, objs)
                Tlo, Thi, nT = ad.temps(op[2])
                nr = len(resets)
                ttp.calculateTTP(Tlo, Thi, nT, op[3], pool=pool)
                table = np.array(ttp.transformationTimes, dtype=float)
                for ti, sn in enumerate(pool.snaps):
                    # independent reference: a FRESHLY CONSTRUCTED model of the same configuration (same builder, same
                    # setPBMParameters / setPSDrecording), no stopping conditions, never reset; same setTemperature / solve call
                    ref = ad.reference(); ref.setTemperature(sn['T'])
                    ref.solve(op[3], verbose=True, vIt=1000)
                    rst = resets[nr + ti] if (has_pbm and nr + ti < len(resets)) else None
                    rec.append(dict(k='R', oi=oi, lat=None, reg=None, ttp=True, T=sn['T'], rst=rst, pbm=rst['pbm'] if rst else None))
                    rec.append(dict(k='S', oi=oi, k0=0, tf=sn['tf'], m=int(sn['m']), H=sn['H'], lat=sn['post'], reg=None, ttp=True, T=sn['T'], idx=list(op[1]),
                                    ret=[float(v) for v in sn['ret']], row=[float(v) for v in table[ti]], maxTime=float(op[3]),
                                    ref=dict(H=pdata_hist(ref.pData), m=int(ref.pData.n)), temperature=sn['temperature']))
                    if has_pbm:
                        grids(oi, sn.get('pbm'), ttp=True)
                rec[-1]['reg'] = reg()
    except Exception as e:
        exc = excinfo(e)
    return rec, exc


def oracle_reset(res, c, R, desc):
    """structure: reset() leaves the model as the user configured it"""
    ad = hist_adapter(c)
    rst = R.get('rst')
    if rst is None:
        return
    d2 = dict(desc, reset='inside TTPCalculator._getStopTime (T = %r)' % R.get('T') if R.get('ttp') else 'direct call')
    res.count('%s:reset-observed:%s' % (ad.tag, 'inside-ttp' if R.get('ttp') else 'direct'))
    st = rst['pbm'] or []
    if len(st) != len(c['phases']):
        res.violate('hist:reset-changes-model-configuration:PBM.count', 'number of population balance models after reset()', d2, len(st), len(c['phases']))
    for p, g in enumerate(st):
        for nm, want in ad.pbm_cfg.items():
            if g[nm] != want:
                res.violate('hist:reset-changes-model-configuration:PBM.%s' % nm,
                            'after reset() the population balance model of phase %d has %s = %r; configured by setPBMParameters / setPSDrecording: %r' % (p, nm, g[nm], want),
                            d2, g[nm], want)
        for nm, want in (('min', ad.pbm_cfg['originalMin']), ('max', ad.pbm_cfg['originalMax']), ('bins', ad.pbm_cfg['originalBins']),
                         ('psd_len', ad.pbm_cfg['originalBins']), ('grid_is_linspace', True), ('psd_zero', True), ('recorded_rows', 1 if ad.pbm_cfg['record'] else None)):
            if g[nm] != want:
                res.violate('hist:reset-changes-model-configuration:PBM.grid.%s' % nm,
                            'after reset() the grid of phase %d is not the configured initial grid: %s = %r, configured %r' % (p, nm, g[nm], want), d2, g[nm], want)
    # everything else the model holds: only results, PBM contents, latches and setup flags may differ
    seen = set()
    for path, what, before, after in rst['diff']:
        key = re.sub(r'\[\d+\]', '[*]', path)
        if key in seen:
            continue
        seen.add(key)
        res.violate('hist:reset-changes-model-configuration:%s' % key, 'reset() changed %s (%s); only result arrays, population balance contents, '
                    'stopping-condition latches and setup flags may differ' % (path, what), d2, after, before)
        if len(seen) >= 6:
            break


def oracle_hist(res, c, rec, exc):
    """the property on a whole history, against the oracle's OWN registration state"""
    ad = hist_adapter(c)
    K = len(c['pool'])
    sh_reg, sh_lat, past, carried = [], [(False, -1.0)] * K, 'fresh-model', None
    nsolve = 0
    for ri, R in enumerate(rec):
        desc = hist_desc(c, at=R['oi'])
        k = R['k']
        if k == 'A':
            sh_reg.append((R['i'], R['isOr']))
        elif k == 'C':
            sh_reg = []; past = 'after-clear'
        elif k == 'R':
            for i, _ in sh_reg:
                sh_lat[i] = (False, -1.0)
            oracle_reset(res, c, R, desc)
        elif k in ('P', 'G'):
            pass
        elif k == 'T':
            carried = reg_class(sh_reg).replace('-registered', '')
            sh_reg = [(i, False) for i in R['idx']]; past = 'after-ttp-constructor'
        else:
            act = [dict(c['pool'][i], mode='or' if o else 'and') for i, o in sh_reg]
            seg = dict(H=R['H'], k0=R['k0'], m=R['m'], tf=R['tf'], active=len(act), pre=[sh_lat[i] for i, _ in sh_reg], post=[R['lat'][i] for i, _ in sh_reg])
            cls = ('ttp-run:model-carried-%s' % carried) if R.get('ttp') else ('%s:%s' % (past, reg_class(sh_reg)))
            res.count('%s:solve:%s' % (ad.tag, cls)); nsolve += 1
            nv = len(res.violations)
            if R.get('ttp'):
                # (1) independent of the oracle's registration state: what the calculator reports for this temperature against
                #     a run of the same configuration WITHOUT any stopping condition, for exactly the calculator's conditions
                d2 = dict(desc, temperature=R['T'], maxTime=R['maxTime'])
                if float(R['H']['time'][0]) != 0.0:
                    res.violate('hist:%s:history-not-restarted' % cls, 'the history of this temperature does not start at t = 0 (model not reset)', d2, float(R['H']['time'][0]), 0.0)
                want = [R['lat'][i][1] for i in R['idx']]
                if R['ret'] != want or R['row'] != R['ret']:
                    res.violate('hist:%s:table-not-condition-times' % cls, 'transformationTimes row differs from satisfiedTime() of the calculator\'s conditions', d2, R['row'], want)
                exp = first_crossings(R['ref']['H'], [c['pool'][i] for i in R['idx']], R['ref']['m'])
                tt = R['ref']['H']['time']
                for j, (e, got) in enumerate(zip(exp, R['ret'])):
                    if e[0]:
                        step = float(tt[e[2]] - tt[e[2] - 1])
                        ok = abs(got - e[1]) <= 1e-9 * step + 1e-12 * abs(e[1]) + ad.ref_rtol * abs(e[1])
                    else:
                        ok = got == -1.0
                    if not ok:
                        res.violate('hist:%s:time-differs-from-fresh-model-of-same-configuration' % cls,
                                    'calculator condition %d (%s %s %r): reported %r, but a FRESHLY CONSTRUCTED model of the same configuration (never reset, no stopping conditions) run to maxTime crosses at %r'
                                    % (j, CLASSES[c['pool'][R['idx'][j]]['q']], c['pool'][R['idx'][j]]['d'], c['pool'][R['idx'][j]]['value'], got, e[1]), d2, got, e[1])
                        break
                if ad.tag == 'hist-real' and not np.all(R['temperature'] == R['T']):
                    res.violate('hist:%s:wrong-temperature' % cls, 'the run for this temperature was not made at this temperature', d2,
                                [float(np.min(R['temperature'])), float(np.max(R['temperature']))], R['T'])
                res.count('%s:ttp-temperatures' % ad.tag)
            # (2) the run itself against the conditions registered NOW (oracle's own state)
            oracle_segment(res, 'hist:%s:' % cls, dict(desc, temperature=R['T']) if R.get('ttp') else desc, act, seg, ad.tag)
            if len(res.violations) > nv:
                return nsolve          # the oracle's state cannot be continued past a run that broke the rule
            for (i, _), p in zip(sh_reg, seg['post']):
                sh_lat[i] = p
        if R['lat'] is not None:
            regd = set(i for i, _ in sh_reg)
            for i in range(K):
                if tuple(R['lat'][i]) != tuple(sh_lat[i]):
                    res.violate('hist:latch-wrong-after-%s:%s' % ({'A': 'add', 'C': 'clear', 'R': 'reset', 'T': 'ttp-constructor', 'S': 'solve', 'P': 'model-construction', 'G': 'solve'}[k],
                                                                 'registered-object' if i in regd else 'unregistered-object'),
                                'pool object %d reports %r after call %d; by the calls made so far it must report %r' % (i, R['lat'][i], R['oi'], sh_lat[i]),
                                desc, list(R['lat'][i]), list(sh_lat[i]))
                    return nsolve
    return nsolve


def hist_line(c, rec):
    toks = ['sc.hist', enc_names(c['phases'], c['elements']), str(len(c['pool']))]
    toks += [enc_cond(k['q'], k['d'], k['value'], k['sel']) for k in c['pool']]
    toks.append(str(len(rec)))
    for R in rec:
        if R['k'] == 'A':
            toks.append('A %d %s' % (R['i'], 'T' if R['isOr'] else 'F'))
        elif R['k'] in ('C', 'R'):
            toks.append(R['k'])
        elif R['k'] == 'T':
            toks.append('T ' + vlib.enc_ilist(R['idx']))
        elif R['k'] == 'P':      # what the harness passed to setPBMParameters / setPSDrecording (not read back from the model)
            toks.append('P %d %s' % (len(R['cfg']), ' '.join('%s %s %d %d %d %s %s' % (f2b(g['originalMin']), f2b(g['originalMax']), g['originalBins'], g['minBins'], g['maxBins'],
                                                                                     'T' if g['adaptive'] else 'F', 'T' if g['record'] else 'F') for g in R['cfg'])))
        elif R['k'] == 'G':      # what the run did to the grid (an input of the model, like the pData history)
            toks.append('G %d %s %s %d' % (R['p'], f2b(R['g'][0]), f2b(R['g'][1]), R['g'][2]))
        else:
            toks.append('S %s %s %d %d' % (enc_hist(c['nP'], c['nE'], R['H']), f2b(R['tf']), len(R['H']['time']) + 5, R['k0']))
    return ' '.join(toks)


def compare_hist(res, c, rec, ln):
    desc = hist_desc(c)
    t = Toks(ln)
    if not t.ok or t.t[1] == 'raise':
        res.disagree('sc.hist model error', desc, 'ok', ln[:80]); return
    n = t.nat()
    if n != len(rec):
        res.disagree('sc.hist number of calls', desc, len(rec), n); return
    K = len(c['pool'])
    for R in rec:
        m = t.nat(); stopped = t.bool()
        lat = [(t.bool(), t.flt()) for _ in range(K)]
        reg = [(t.nat(), t.bool()) for _ in range(t.nat())]
        pbm = [dict(originalMin=t.flt(), originalMax=t.flt(), originalBins=t.nat(), minBins=t.nat(), maxBins=t.nat(), adaptive=t.bool(), record=t.bool(),
                    min=t.flt(), max=t.flt(), bins=t.nat()) for _ in range(t.nat())]
        d2 = dict(desc, at_call=R['oi'], call=R['k'])
        if R.get('pbm') is not None:
            res.count('hist:population-balance-configuration-compared')
            got = [{k: g[k] for k in pbm[0]} for g in R['pbm']] if pbm else [dict(g) for g in R['pbm']]
            if got != pbm:
                res.disagree('population balance models (configuration, grid in use) after a call of a history', d2, got, pbm); return
        if R['k'] == 'S':
            if m != R['m']:
                res.disagree('last row of a run inside a history', d2, R['m'], m); return
            if bool(R['H']['time'][R['m']] < R['tf']) and not stopped:
                res.disagree('run inside a history ended before the end time but the model did not stop', d2, True, stopped); return
        if R['lat'] is not None and (len(lat) != len(R['lat']) or any(a[0] != b[0] or not close(a[1], b[1], 1e-12) for a, b in zip(R['lat'], lat))):
            res.disagree('latches of the pool objects after a call of a history', d2, R['lat'], lat); return
        if R['reg'] is not None:
            res.count('hist:registered-list-compared')
            if [tuple(x) for x in R['reg']] != reg:
                res.disagree('registered conditions (object, mode) after a call of a history', d2, R['reg'], reg); return
    res.count('hist:calls-compared', len(rec))


def post_hist(res, c, rec, exc, model, li, first):
    desc = hist_desc(c)
    ad = hist_adapter(c)
    if exc is not None:
        report_exc(res, 'history-of-calls', desc, exc)
    ns = oracle_hist(res, c, rec, exc)
    res.case((c['kind'], c['s']), nontrivial=exc is None and ns > 0)
    res.count('%s:calls' % ad.tag, len(rec))
    for o in c['ops']:
        res.count('%s:op:%s' % (ad.tag, o[0]))
    if first:
        res.sample(dict(desc, runs=[dict(k0=R['k0'], m=R['m'], tf=R['tf']) for R in rec if R['k'] == 'S']), cap=6)
    if model is not None and li is not None and exc is None:
        compare_hist(res, c, rec, model[li])
    res.traces += sum(1 for R in rec if R['k'] == 'S')


def part_hist(ctx, res, N, oracle_only, real=()):
    lines, recs = [], []
    jobs = [('hist', None)] * N + [('hist-real', w) for w in real]
    for kind, w in jobs:
        s = ctx.rng.getrandbits(40)
        ok, c = guard(res, 'hist-generate', dict(kind=kind, s=s, with_ttp=w), (lambda: hist_case(s) if kind == 'hist' else hist_real_case(s, w)))
        if not ok:
            continue
        ok, r = guard(res, 'history-of-calls', hist_desc(c), drive_hist, c)
        if not ok:
            continue
        rec, exc = r
        li = None
        if exc is None:
            ok, ln = guard(res, 'hist-encode', hist_desc(c), hist_line, c, rec)
            if ok:
                li = len(lines); lines.append(ln)
        recs.append((c, rec, exc, li))
    model = driver(ctx, res, lines, oracle_only)
    seen = set()
    for c, rec, exc, li in recs:
        guard(res, 'hist-evaluate', hist_desc(c), post_hist, res, c, rec, exc, model, li, c['kind'] not in seen)
        seen.add(c['kind'])


# ---------------------------------------------------------------- (c) coupled runs: several models through kawin.GenericModel.Coupler
# The condition-carrying model(s) (scripted SynthModel / real Al-Zr model) are solved TOGETHER with 1-2 other models
# (GrainGrowthModel, a trivial GenericModel) by Coupler([...]).solve, the carrier at every position of the list.
# Oracle (independent of the model and of the flags the code passes around): from each carrier's own recorded pData
# history and its own conditions, the steps at which that model's and/or rule holds = the steps at which it REQUESTS the
# stop; the coupled run must end at the first step at which ANY coupled model requests it, otherwise at the end time,
# and every coupled model's clock must be the coupler's clock.
_COUPLED = {}


def trivial_class():
    if 'cls' in _COUPLED:
        return _COUPLED['cls']
    vlib.use_repo()
    from kawin.GenericModel import GenericModel

    class TrivialModel(GenericModel):
        """dx/dt = rate with a fixed proposed step; postProcess records and returns what the GenericModel default returns"""
        def __init__(self, rate, dt):
            super().__init__()
            self.rate, self.dt = rate, dt
            self.time, self.x = np.zeros(1), np.zeros(1)

        def getCurrentX(self):
            return self.time[-1], [np.array([self.x[-1]])]

        def getdXdt(self, t, x):
            return [np.array([self.rate])]

        def getDt(self, dXdt):
            return self.dt

        def postProcess(self, time, x):
            self.time = np.append(self.time, time)
            self.x = np.append(self.x, np.ravel(x[0])[0])
            return super().postProcess(time, x)

    _COUPLED['cls'] = TrivialModel
    return TrivialModel


def grain_model(M):
    vlib.use_repo()
    from kawin.precipitation.coupling.GrainGrowth import GrainGrowthModel
    g = GrainGrowthModel(cMin=1e-10, cMax=0.5e-5)
    g.setGrainBoundaryMobility(M)
    r0, sg = 1e-6, 0.2
    g.LoadDistributionFunction(lambda R: np.exp(-np.log(R / r0) ** 2 / (2 * sg ** 2)) / R)
    return g


def pos_name(i, n):
    return 'only' if n == 1 else 'first' if i == 0 else 'last' if i == n - 1 else 'middle'


def pos_join(idx, n):
    return '+'.join(pos_name(i, n) for i in idx) if idx else 'none'


def carrier_script(r):
    """one scripted condition-carrying model (same ingredients as synth_case; constructing a PrecipitateBase costs 33 ms per phase)"""
    nP, nE = int(r.choice([1, 1, 1, 2, 2, 3])), int(r.integers(1, 3))
    phases = [str(p) for p in r.permutation(PHASES)[:nP]]
    elements = [str(e) for e in r.permutation(ELEMS)[:nE]]
    L = int(r.choice([3, 6, 12, 25, 40]))
    H, _ = gen_history(r, L, nP, nE)
    H['time'] = H['time'] - H['time'][0]
    nc = int(r.choice([0, 1, 1, 1, 2, 2, 3, 4]))
    mk = str(r.choice(['mixed', 'mixed', 'all-or', 'all-and']))
    conds = []
    for _ in range(nc):
        q = int(r.integers(0, 6))
        names = elements if q == 5 else phases
        sel = None if r.random() < 0.3 else names[int(r.integers(0, len(names)))]
        col = col_of(names, sel)
        d = pick_dir(r, H[QUANT[q]][:, col])
        value, tk = pick_threshold(r, H[QUANT[q]][:, col], d)
        if tk in ('above', 'below', 'first') and r.random() < 0.5:      # more runs that really stop
            value, tk = pick_threshold(r, H[QUANT[q]][:, col], d)
        mode = 'or' if mk == 'all-or' else 'and' if mk == 'all-and' else ('or' if r.random() < 0.5 else 'and')
        conds.append(dict(q=q, d=d, sel=sel, col=col, value=float(value), mode=mode, tk=tk))
    return dict(nP=nP, nE=nE, phases=phases, elements=elements, L=L, H=H, conds=conds, mk=mk)


def coupled_case(s):
    r = np.random.default_rng([s, 9])
    n = int(r.choice([2, 2, 3, 3, 3]))
    ncar = 2 if r.random() < 0.25 else 1
    slots = [str(r.choice(['grain', 'trivial'])) for _ in range(n)]
    carpos = sorted(int(v) for v in r.permutation(n)[:ncar])
    carriers = {}
    for p_ in carpos:
        slots[p_] = 'prec'
        carriers[p_] = carrier_script(r)
    if ncar == 2 and all(len(cr['conds']) == 0 for cr in carriers.values()):
        carriers[carpos[0]] = carrier_script(r)
    span = float(min(cr['H']['time'][-1] for cr in carriers.values()))
    f1 = float(r.choice([1.0, 1.0, r.uniform(0.2, 1.0)]))
    split = r.random() < 0.2
    Lmax = max(cr['L'] for cr in carriers.values())
    return dict(kind='coupled', s=s, slots=slots, carriers=carriers, sim=[span * f1 * 0.5, span * f1 * 0.5] if split else [span * f1],
                trivial_dt=float(r.choice([1e30, 1e30, span / int(r.integers(2, 2 * Lmax + 2))])),
                grain_M=float(r.choice([1e-17, 1e-17, 1e-15])), rk4=bool(r.random() < 0.3), subclass=bool(r.random() < 0.2))


COUPLED_ORDERS = {'first-of-2': ['prec', 'grain'], 'last-of-2': ['grain', 'prec'], 'first-of-3': ['prec', 'trivial', 'grain'],
                  'middle-of-3': ['grain', 'prec', 'trivial'], 'last-of-3': ['trivial', 'grain', 'prec'],
                  'first+scripted': ['prec', 'scripted', 'grain'], 'scripted+last': ['scripted', 'grain', 'prec']}


def coupled_real_case(s, order, variant):
    """real Al-Zr model (450 C, dtScale 0.05: f = 6e-7 at 300 s, 4.5e-5 at 500 s, 1.7e-4 at 600 s; R = 5.9e-10 / 7.8e-10 / 8.9e-10;
    density 5e20 / 1.5e22 / 3.8e22; x = 3.99985e-3 / 3.989e-3 / 3.958e-3) + GrainGrowthModel (+ trivial / scripted model)"""
    r = np.random.default_rng([s, 10])
    lg = lambda a, b: float(10 ** r.uniform(a, b))
    menu = {'vf>': lambda: dict(q=0, d='G', sel=('AL3ZR' if r.random() < 0.6 else None), col=0, value=lg(-6.5, -4.4), tk='vf>'),
            'R>': lambda: dict(q=1, d='G', sel=None, col=0, value=float(r.uniform(5.6e-10, 8.4e-10)), tk='R>'),
            'dens>': lambda: dict(q=4, d='G', sel='AL3ZR', col=0, value=lg(19.6, 22.4), tk='dens>'),
            'x<': lambda: dict(q=5, d='L', sel='ZR', col=0, value=float(r.uniform(3.96e-3, 3.9998e-3)), tk='x<'),
            'never': lambda: dict(q=0, d='G', sel=None, col=0, value=0.5, tk='vf>never')}
    reach = ['vf>', 'R>', 'dens>', 'x<']
    if variant == 'or':
        keys = [str(k) for k in r.choice(reach, size=int(r.integers(1, 3)), replace=False)]
        conds = [dict(menu[k](), mode='or') for k in keys] + ([dict(menu['never'](), mode='and')] if r.random() < 0.5 else [])
        sim = 650.0
    elif variant == 'and':
        keys = [str(k) for k in r.choice(reach, size=int(r.integers(2, 4)), replace=False)]
        conds = [dict(menu[k](), mode='and') for k in keys] + ([dict(menu['never'](), mode='or')] if r.random() < 0.5 else [])
        sim = 650.0
    else:      # never: an unreachable and-condition next to a reachable one, unreachable or-condition
        conds = [dict(menu['never'](), mode='and'), dict(menu[str(r.choice(reach))](), mode='and'), dict(menu['never'](), mode='or')]
        sim = float(r.choice([150.0, 250.0]))
    c = dict(kind='coupled-real', s=s, order=order, variant=variant, slots=list(COUPLED_ORDERS[order]), sim=[sim], trivial_dt=1e30, grain_M=1e-17,
             rk4=False, subclass=bool(order == 'first-of-2' and r.random() < 0.5), carriers={})
    for i, k in enumerate(c['slots']):
        if k == 'prec':
            c['carriers'][i] = dict(real=True, nP=1, nE=1, phases=['AL3ZR'], elements=['ZR'], conds=conds, L=None)
        elif k == 'scripted':      # a second condition-carrying model in the same coupler, scripted on the time scale of the real run
            cr = carrier_script(r)
            cr['H']['time'] = cr['H']['time'] * (sim * float(r.uniform(0.6, 1.5)) / max(float(cr['H']['time'][-1]), 1e-300))
            c['carriers'][i] = cr
            c['slots'][i] = 'prec'
    return c


def coupled_desc(c):
    d = dict(kind=c['kind'], s=c['s'], models=[('condition-carrying' if k == 'prec' else k) for k in c['slots']], simTimes=c['sim'],
             iterator='RK4' if c['rk4'] else 'Euler', coupler='subclass of Coupler' if c['subclass'] else 'Coupler',
             carriers={pos_name(i, len(c['slots'])): dict(model='Al-0.4Zr 723.15 K' if cr.get('real') else 'scripted %d rows' % cr['L'],
                       conditions=[dict(condition=CLASSES[k['q']], inequality=k['d'], value=k['value'], selector=k['sel'], mode=k['mode']) for k in cr['conds']])
                       for i, cr in c['carriers'].items()})
    if c['kind'] == 'coupled-real':
        d['order'] = c['order']; d['variant'] = c['variant']
    return d


def _tap(model, log):
    """records what this model's postProcess returns as its stop flag (the call itself is the real method)"""
    orig = model.postProcess

    def post(time, x):
        out = orig(time, x)
        log.append(bool(out[1]))
        return out
    model.postProcess = post


def drive_coupled(c):
    """Coupler([...]).solve once or twice on the real classes; per solve: one segment per carrier (as drive_synth),
    the clocks of all models, and the stop flags every postProcess returned on every step"""
    import warnings
    segs, exc = [], None
    try:
      with warnings.catch_warnings(), contextlib.redirect_stdout(io.StringIO()), np.errstate(all='ignore'):
        warnings.simplefilter('ignore')
        from kawin.solver import SolverType
        from kawin.GenericModel import Coupler
        n = len(c['slots'])
        models, objs = [], {}
        for i, k in enumerate(c['slots']):
            if k == 'prec':
                cr = c['carriers'][i]
                if cr.get('real'):
                    M = real_model(); M.setConstraints(dtScale=0.05)
                else:
                    M = synth_class()(cr['phases'], cr['elements'], lambda T, cr=cr: cr['H'])
                objs[i] = [make_cond(q['q'], q['d'], q['value'], q['sel']) for q in cr['conds']]
                for o, q in zip(objs[i], cr['conds']):
                    M.addStoppingCondition(o, q['mode'])
                models.append(M)
            elif k == 'grain':
                models.append(grain_model(c['grain_M']))
            else:
                models.append(trivial_class()(1.0, c['trivial_dt']))
        if c['subclass']:
            class CustomCoupledModel(Coupler):          # as in examples/08_Model_Coupling: overrides getdXdt only
                def getdXdt(self, t, x):
                    return super().getdXdt(t, x)
            cp = CustomCoupledModel(models)
        else:
            cp = Coupler(models)
        logs = [[] for _ in models]; clog = []
        for M, lg in zip(models, logs):
            _tap(M, lg)
        _tap(cp, clog)
        clock_of = lambda i: (np.array(models[i].pData.time[:models[i].pData.n + 1], dtype=float) if c['slots'][i] == 'prec' else np.array(models[i].time, dtype=float))
        real = c['kind'] == 'coupled-real'
        for sim in c['sim']:
            k0 = len(cp.time) - 1
            pre = {i: [(bool(o.isSatisfied()), float(o.satisfiedTime())) for o in objs[i]] for i in objs}
            if real:
                cp.solve(sim, solverType=SolverType.EXPLICITEULER, verbose=False)
            else:
                cp.solve(sim, solverType=SolverType.RK4 if c['rk4'] else SolverType.EXPLICITEULER, minDtFrac=1e-14, maxDtFrac=1)
            m = len(cp.time) - 1
            seg = dict(k0=k0, m=m, tf=float(cp.finalTime), clock=np.array(cp.time, dtype=float), clocks=[clock_of(i) for i in range(n)],
                       flags=[[lg[j] if j < len(lg) else None for lg in logs] for j in range(k0, len(clog))], combined=list(clog[k0:]), car={})
            for i in objs:
                M = models[i]
                seg['car'][i] = dict(k0=k0, tf=float(M.finalTime), active=len(objs[i]), pre=pre[i], m=int(M.pData.n),
                                     post=[(bool(o.isSatisfied()), float(o.satisfiedTime())) for o in objs[i]], H=pdata_hist(M.pData))
            segs.append(seg)
    except Exception as e:
        exc = excinfo(e)
    return segs, exc


def requests_from_history(H, k0, m, conds, pre):
    """independent of the implementation: the steps k0+1..m after which this model's and/or rule holds (latched), from its own rows"""
    modes = [k['mode'] == 'or' for k in conds]
    xs = [H[QUANT[k['q']]][:, k['col']] for k in conds]
    sats = [p[0] for p in pre]
    out = {}
    for j in range(k0 + 1, m + 1):
        for i, k in enumerate(conds):
            if not sats[i] and j < len(xs[i]) and beyond(k['d'], k['value'], xs[i][j]):
                sats[i] = True
        out[j] = stop_rule(modes, sats)
    return out


def oracle_coupled(res, c, segs):
    desc = coupled_desc(c)
    n = len(c['slots'])
    carpos = sorted(c['carriers'])
    tag = c['kind']          # key prefix: `coupled` = scripted carriers, `coupled-real` = the real Al-Zr model among the coupled models
    for si, seg in enumerate(segs):
        d2 = dict(desc, solve=si)
        k0, m, tf, clock = seg['k0'], seg['m'], seg['tf'], seg['clock']
        # every coupled model is stepped with the coupler: same number of rows, same clock (so all end at the stop time)
        for i, ck in enumerate(seg['clocks']):
            if len(ck) != len(clock):
                res.violate('%s:%s:rows-differ' % (tag, pos_name(i, n)), 'model %d (%s) has %d rows after the coupled solve, the coupler %d' % (i, c['slots'][i], len(ck) - 1, m), d2, len(ck) - 1, m)
                return False
            if not np.array_equal(ck, clock):
                j = int(np.nonzero(ck != clock)[0][0])
                res.violate('%s:%s:clock-differs' % (tag, pos_name(i, n)), 'the clock of model %d (%s) differs from the coupler\'s at row %d (end of the run: %r vs %r)' % (i, c['slots'][i], j, float(ck[-1]), float(clock[-1])),
                            d2, float(ck[j]), float(clock[j]))
                return False
        for i in carpos:
            if seg['car'][i]['tf'] != tf:
                res.violate('%s:%s:end-time-differs' % (tag, pos_name(i, n)), 'finalTime of a coupled model differs from the coupler\'s', d2, seg['car'][i]['tf'], tf)
                return False
        req = {i: requests_from_history(seg['car'][i]['H'], k0, m, c['carriers'][i]['conds'][:seg['car'][i]['active']], seg['car'][i]['pre']) for i in carpos}
        ended = None
        for j in range(k0 + 1, m + 1):
            if not (clock[j - 1] < tf):
                res.violate(tag + ':step-after-end-time', 'a coupled step was taken from row %d although its time is not below the end time' % (j - 1), d2, float(clock[j - 1]), tf)
                return False
            who = [i for i in carpos if req[i][j]]
            if who and j < m:
                res.violate('%s:%s:ran-past-stop' % (tag, pos_join(who, n)),
                            'coupled model(s) %s of %d (%s in the list) request the stop after step %d (own and/or rule holds on own history, t = %r) but the coupled run continued to row %d (t = %r, end time %r)'
                            % (who, n, pos_join(who, n), j, float(clock[j]), m, float(clock[m]), tf), d2, dict(step=j, requesting=who, last_row=m), 'coupled run ends at step %d' % j)
                return False
            if j == m:
                ended = ('stop:' + pos_join(who, n)) if who else 'time'
        if m == k0:
            if clock[k0] < tf:
                res.violate(tag + ':no-step-taken', 'the coupled solve took no step although the end time was not reached', d2)
                return False
            ended = 'time'
        if ended == 'time' and not (clock[m] >= tf):
            res.violate('%s:%s:stopped-without-condition' % (tag, pos_join(carpos, n)),
                        'the coupled run ended at t = %r before the end time %r although no coupled model requests the stop (carriers at %s)' % (float(clock[m]), tf, pos_join(carpos, n)),
                        d2, dict(last_row=m, t=float(clock[m])), 'run to the end time')
            return False
        res.count('%s:ended-by-%s' % (tag, ended))
        # what the code passed around on every step: each model's returned flag against its history, the coupler's against the models'
        for jj, (fl, cb) in enumerate(zip(seg['flags'], seg['combined'])):
            j = k0 + 1 + jj
            for i in range(n):
                want = req[i][j] if i in req else False
                if fl[i] is None or fl[i] != want:
                    res.violate('%s:%s:model-flag-differs-from-history' % (tag, pos_name(i, n)), 'step %d: postProcess of model %d (%s) returned stop = %r; by its own history and conditions: %r' % (j, i, c['slots'][i], fl[i], want),
                                d2, fl[i], want)
                    return False
            if cb != any(fl):
                who = [i for i in range(n) if fl[i]]
                res.violate(('%s:%s:stop-request-dropped' % (tag, pos_join(who, n))) if any(fl) else tag + ':stop-flag-without-request',
                            'step %d: the coupled models returned stop flags %r but Coupler.postProcess returned %r' % (j, fl, cb), d2, cb, any(fl))
                return False
        if len(seg['combined']) != m - k0:
            res.violate(tag + ':postprocess-calls', 'Coupler.postProcess was called %d times for %d steps' % (len(seg['combined']), m - k0), d2, len(seg['combined']), m - k0)
            return False
        # each carrier on its own: latches and reported times (and its own rule) on its own history
        nv = len(res.violations)
        for i in carpos:
            others = any(req[i2][m] for i2 in carpos if i2 != i) if m > k0 else False
            oracle_segment(res, '%s:%s:' % (tag, pos_name(i, n)), dict(d2, carrier=i), c['carriers'][i]['conds'], seg['car'][i], tag + ':' + pos_name(i, n), coupled_stop=others)
        if len(res.violations) > nv:
            return False
    return True


def coupled_line(c, seg):
    n = len(c['slots'])
    toks = ['sc.coupled', enc_list(seg['clock']), f2b(seg['tf']), str(len(seg['clock']) + 5), str(seg['k0']), str(n)]
    for i, k in enumerate(c['slots']):
        if k != 'prec':
            toks.append('O'); continue
        cr, sg = c['carriers'][i], seg['car'][i]
        ents = ' '.join('%s %s %s' % (enc_cond(q['q'], q['d'], q['value'], q['sel']), 'T' if q['mode'] == 'or' else 'F', enc_latch(*p_))
                        for q, p_ in zip(cr['conds'][:sg['active']], sg['pre']))
        toks.append('P %s %s %d %s' % (enc_hist(cr['nP'], cr['nE'], sg['H']), enc_names(cr['phases'], cr['elements']), sg['active'], ents))
    return ' '.join(t for t in toks if t != '')


def compare_coupled(res, c, seg, ln, si):
    desc = dict(coupled_desc(c), solve=si)
    n = len(c['slots'])
    t = Toks(ln)
    if not t.ok or t.t[1] == 'raise':
        res.disagree('sc.coupled model error', desc, 'ok', ln[:80]); return
    m = t.nat(); stopped = t.bool(); ns = t.nat()
    steps = [([t.bool() for _ in range(n)], t.bool()) for _ in range(ns)]
    lats = [[(t.bool(), t.flt()) for _ in range(t.nat())] for _ in range(n)]
    if m != seg['m']:
        res.disagree('last row of a coupled run', desc, seg['m'], m); return
    for jj, ((mf, mc), fl, cb) in enumerate(zip(steps, seg['flags'], seg['combined'])):
        if list(mf) != list(fl):
            res.disagree('stop flags returned by the coupled models on step %d' % (seg['k0'] + 1 + jj), desc, fl, mf); return
        if mc != cb:
            res.disagree('stop flag of Coupler.postProcess on step %d' % (seg['k0'] + 1 + jj), desc, cb, mc); return
    if len(steps) != len(seg['combined']):
        res.disagree('number of coupled steps', desc, len(seg['combined']), len(steps)); return
    for i in range(n):
        want = seg['car'][i]['post'] if i in seg['car'] else []
        if len(want) != len(lats[i]) or any(a[0] != b[0] or not close(a[1], b[1], 1e-12) for a, b in zip(want, lats[i])):
            res.disagree('latches of coupled model %d after the coupled solve' % i, desc, want, lats[i]); return
    if bool(seg['clock'][seg['m']] < seg['tf']) and not stopped:       # (a stop on the step that also reaches the end time is not visible in the clock)
        res.disagree('coupled run ended before the end time but the model did not stop', desc, True, stopped)
    res.count('coupled:steps-compared', len(steps))


def post_coupled(res, c, segs, exc, model, lis, first):
    desc = coupled_desc(c)
    n = len(c['slots'])
    tag = c['kind']
    res.case((c['kind'], c['s'], c.get('order'), c.get('variant')), nontrivial=exc is None and any(len(cr['conds']) > 0 for cr in c['carriers'].values()))
    res.count('%s:models:%d' % (tag, n)); res.count('%s:carriers-at:%s' % (tag, pos_join(sorted(c['carriers']), n)))
    res.count('%s:solves:%d' % (tag, len(c['sim']))); res.count('%s:iterator:%s' % (tag, 'rk4' if c['rk4'] else 'euler'))
    for k in c['slots']:
        if k != 'prec':
            res.count('%s:other-model:%s' % (tag, k))
    if tag == 'coupled-real':
        res.count('coupled-real:steps', sum(sg['m'] - sg['k0'] for sg in segs))
    if first:
        res.sample(dict(desc, runs=[dict(k0=sg['k0'], m=sg['m'], tf=sg['tf'], t_end=float(sg['clock'][-1])) for sg in segs]), cap=8)
    if exc is not None:
        report_exc(res, 'coupled-solve-with-conditions', desc, exc)
    ok = oracle_coupled(res, c, segs)
    if model is not None:
        for si, (seg, li) in enumerate(zip(segs, lis)):
            if li is not None:
                compare_coupled(res, c, seg, model[li], si)
    res.traces += len(segs)


def part_coupled(ctx, res, N, oracle_only, real=()):
    lines, recs = [], []
    jobs = [('coupled', None, None)] * N + [('coupled-real', o, v) for o, v in real]
    for kind, order, variant in jobs:
        s = ctx.rng.getrandbits(40)
        d0 = dict(kind=kind, s=s, order=order, variant=variant)
        ok, c = guard(res, 'coupled-generate', d0, (lambda: coupled_case(s) if kind == 'coupled' else coupled_real_case(s, order, variant)))
        if not ok:
            continue
        ok, r = guard(res, 'coupled-solve-with-conditions', coupled_desc(c), drive_coupled, c)
        if not ok:
            continue
        segs, exc = r
        lis = []
        for seg in segs:
            ok, ln = guard(res, 'coupled-encode', coupled_desc(c), coupled_line, c, seg)
            lis.append(len(lines) if ok else None)
            if ok:
                lines.append(ln)
        recs.append((c, segs, exc, lis))
    model = driver(ctx, res, lines, oracle_only)
    seen = set()
    for c, segs, exc, lis in recs:
        guard(res, 'coupled-evaluate', coupled_desc(c), post_coupled, res, c, segs, exc, model, lis, c['kind'] not in seen)
        seen.add(c['kind'])


def coupled_real_jobs(ctx):
    """quick: one run with the real model NOT last (as examples/08: Coupler([precModel, grainModel]), or first / middle of three) and one at a random
    position; thorough: every order, every variant"""
    r = np.random.default_rng(ctx.rng.getrandbits(40))
    if ctx.thorough:
        return [(o, v) for o in COUPLED_ORDERS for v in ('or', 'and')] + [('first-of-2', 'never'), ('middle-of-3', 'never'), ('last-of-3', 'never')]
    a = str(r.choice(['first-of-2', 'first-of-2', 'first-of-3', 'middle-of-3', 'first+scripted']))
    b = str(r.choice(['last-of-2', 'last-of-3', 'middle-of-3', 'scripted+last', 'first-of-3']))
    return [(a, str(r.choice(['or', 'or', 'and']))), (b, str(r.choice(['or', 'and', 'never'])))]


# ---------------------------------------------------------------- combination alone (exhaustive small)
_COMB = {}


def comb_one(modes, sats):
    # up to two conditions: a new model per pattern; three and four conditions (320 patterns): ONE model, emptied with
    # clearStoppingConditions() before each pattern (constructing a model costs 35 ms; the patterns and the predicate are the same)
    if len(modes) <= 2:
        M = synth_class()(['A'], ['X'], lambda T: None)
    else:
        if 'M' not in _COMB:
            _COMB['M'] = synth_class()(['A'], ['X'], lambda T: None)
        M = _COMB['M']
        M.clearStoppingConditions()
    for mo, sa in zip(modes, sats):
        o = make_cond(0, 'G', 0.5, None)
        o._isSatisfied = sa; o._satisfiedTime = 1.0 if sa else -1
        o.testCondition = (lambda model: None)
        M.addStoppingCondition(o, 'or' if mo else 'and')
    # the combination code of postProcess, with everything before it stubbed out
    M._calculateDependentTerms = lambda t, x: None
    M._appendArrays = lambda y: None
    _, stop = M.postProcess(0.0, [np.zeros(1)])
    return bool(stop)


def post_comb(res, modes, sats, st, model, li):
    res.case(('comb', modes, sats), nontrivial=len(modes) > 0)
    want = stop_rule(modes, sats)
    if st != want:
        res.violate('combination-' + ('stops-without-rule' if st else 'rule-holds-no-stop'),
                    'postProcess stop flag %r for modes(or=True) %r satisfied %r' % (st, modes, sats), dict(kind='comb', modes=modes, satisfied=sats), st, want)
    if model is not None:
        t = Toks(model[li])
        if not t.ok or t.bool() != st:
            res.disagree('stop flag', dict(modes=modes, satisfied=sats), st, model[li])


def part_combination(ctx, res, oracle_only):
    """all mode/satisfied patterns up to 4 conditions through the real postProcess loop of a SynthModel"""
    import itertools
    lines, recs = [], []
    for k in range(0, 5):
        for modes in itertools.product([True, False], repeat=k):
            for sats in itertools.product([True, False], repeat=k):
                desc = dict(kind='comb', modes=modes, satisfied=sats)
                ok, st = guard(res, 'postProcess-combination', desc, comb_one, modes, sats)
                if not ok:
                    continue
                recs.append((modes, sats, st, len(lines)))
                lines.append('sc.stop %d %s' % (k, ' '.join('%s %s' % ('T' if mo else 'F', 'T' if sa else 'F') for mo, sa in zip(modes, sats))))
    model = driver(ctx, res, lines, oracle_only)
    for modes, sats, st, li in recs:
        guard(res, 'comb-evaluate', dict(kind='comb', modes=modes, satisfied=sats), post_comb, res, modes, sats, st, model, li)
    res.count('combination:patterns', len(recs))


# ---------------------------------------------------------------- entry points
def corr(ctx, oracle_only=False, scale=1):
    res = Result()
    res.rule = ('obj: random condition (6 quantities x 2 inequalities x phase/element/None/unknown selector) on random histories '
                '(monotone, non-monotone, constant, plateaus, zero start; 1-30 rows, 1-3 phases/elements, every array different), threshold inside the range / on a sample / '
                'outside, tested at rows 1..L, 0..L, late start, repeated and unordered rows, then reset and again; '
                'synth: scripted histories through the real solve/postProcess with 0-6 conditions in and/or mixes, one or two solves, Euler and RK4; '
                'comb: all 2^k x 2^k mode/satisfied patterns, k <= 4; ttp: TTPCalculator over 2-4 temperatures; real: binary Al-Zr KWN runs; '
                'hist: one model + pool of 2-5 condition objects, 3-12 random calls of add (both modes) / clear / reset / solve / TTPCalculator construction / calculateTTP (1-3 temperatures) '
                'ending in a run, evaluated against the oracle\'s own registration state and, for TTP, a freshly constructed never-reset reference model without conditions (scripted model; one real Al-Zr history with non-default population balance parameters: run, reset, calculateTTP, further runs; every reset() observed structurally). '
                'coupled: 2-3 models through Coupler (or a subclass overriding getdXdt), 1-2 of them condition-carrying (scripted, 0-4 conditions in and/or mixes) at first / middle / last position, the others GrainGrowthModel / trivial GenericModel, one or two solves, Euler and RK4; real Al-Zr model + GrainGrowthModel (+ trivial / scripted carrier) in 2 orders per quick run (one with the real model not last), or / and / never-met condition sets; '
                'non-trivial = at least two tested rows / at least one condition and no exception; distinct = (kind, seed)')
    # every part runs whatever happened in the others; inside a part every case has its own guard
    guard(res, 'part-combination', {}, part_combination, ctx, res, oracle_only)
    guard(res, 'part-obj', {}, part_obj, ctx, res, ctx.n(1200, 30000) * scale, oracle_only)
    guard(res, 'part-synth', {}, part_synth, ctx, res, ctx.n(250, 6000) * scale, oracle_only)
    guard(res, 'part-ttp-synth', {}, part_ttp_synth, ctx, res, ctx.n(40, 800) * scale, oracle_only)
    guard(res, 'part-hist', {}, part_hist, ctx, res, ctx.n(100, 2500) * scale, oracle_only,
          [1] * 5 + [0, 2] if ctx.thorough else [1])
    if ctx.thorough:
        guard(res, 'part-real', {}, part_real, ctx, res, ['all-and', 'or-mix', 'never', 'never'] + ['any'] * 10 + ['or-mix'] * 4, oracle_only)
        guard(res, 'part-ttp-real', {}, part_ttp_real, ctx, res, oracle_only)
    else:
        guard(res, 'part-real', {}, part_real, ctx, res, ['all-and', 'or-mix', 'any', 'never'], oracle_only)
    # last, so that the cases of the parts above are the same as before this part existed
    guard(res, 'part-coupled', {}, (lambda: part_coupled(ctx, res, ctx.n(75, 2000) * scale, oracle_only, coupled_real_jobs(ctx))))
    res.monitored = list(MONITORED)
    finish(res)
    return res


def search(ctx, broken):
    """something no longer checks: larger oracle-only sample (same per-case guards)"""
    return corr(ctx, oracle_only=True, scale=3)


def replay(ctx, entry):
    case = entry['violation']['case']
    if isinstance(case.get('case'), dict) and 'kind' not in case:      # vlib.guarded-style nesting
        case = case['case']
    kind, s = case.get('kind'), case.get('s')
    r = Result()

    def one():
        if kind == 'obj':
            c = obj_case(s); oracle_obj(r, c, drive_obj(c))
        elif kind == 'synth':
            c = synth_case(s); segs, exc = drive_synth(c)
            if exc is not None:
                report_exc(r, 'solve-with-conditions', synth_desc(c), exc)
            for seg in segs:
                oracle_segment(r, '', synth_desc(c), c['conds'], seg, 'synth')
        elif kind == 'real':
            c = real_case(s, case.get('variant', 'any')); seg, exc = drive_real(c)
            if exc is not None:
                report_exc(r, 'real-run-with-conditions', real_desc(c), exc)
            else:
                oracle_segment(r, 'real-', real_desc(c), c['conds'], seg, 'real')
        elif kind in ('ttp-synth', 'ttp-real'):
            c = ttp_synth_case(s) if kind == 'ttp-synth' else ttp_real_case(s)
            pool, table, exc = drive_ttp_synth(c) if kind == 'ttp-synth' else drive_ttp_real(c)
            if exc is not None:
                report_exc(r, 'ttp-calculator', ttp_desc(c), exc)
            else:
                oracle_ttp(r, ttp_desc(c), c['conds'], pool.snaps, table, kind)
        elif kind in ('hist', 'hist-real'):
            c = hist_case(s) if kind == 'hist' else hist_real_case(s, int(case.get('with_ttp') or 0))
            rec, exc = drive_hist(c)
            if exc is not None:
                report_exc(r, 'history-of-calls', hist_desc(c), exc)
            oracle_hist(r, c, rec, exc)
        elif kind in ('coupled', 'coupled-real'):
            c = coupled_case(s) if kind == 'coupled' else coupled_real_case(s, case['order'], case['variant'])
            segs, exc = drive_coupled(c)
            if exc is not None:
                report_exc(r, 'coupled-solve-with-conditions', coupled_desc(c), exc)
            oracle_coupled(r, c, segs)
        elif kind == 'comb':
            modes, sats = tuple(case['modes']), tuple(case['satisfied'])
            post_comb(r, modes, sats, comb_one(modes, sats), None, None)
        else:
            return False
        return True

    ok, handled = guard(r, 'replay', case, one)
    if ok and not handled:
        ctx.driver_ok = False
        r = corr(ctx, oracle_only=True)
    for v in r.violations:
        print('  ', v['key'], v['what'], str(v['observed'])[-300:], v['required'])
    finish(r)
    return not r.violations
