"""C15 — precipitate shape factors match the geometry they describe.

regenerate(): the inner formulas of the four shape descriptions and the `…Min` constants are traced
from the ShapeFactors.py under test into lean/KawinV/Gen/C15Shape.lean (concolic tracer).
corr(): translator validation (generated defs on Float vs the Python methods), wrapper / clamp model
vs the public wrappers (scalars, arrays, values below 1, argument arrays before/after), bisection
model vs `_findRcrit`; call histories on the radius interface of one ShapeFactor (setters, evaluations with
fresh / re-used / in-place updated argument objects, views, lists, scalars) vs the state-machine model with
explicit object identities; direct oracle: the C15 predicates on the real functions, closed forms against
numerical quadrature of the spheroid area and capacitance integrals, and after every evaluation of a call
history: result = function of the current configuration and the current VALUES of the argument only."""
import importlib.util, json, math, os, sys, traceback
import numpy as np
import vlib
from vlib import Result, enc_list, f2b, Toks, close

PROP = 'C15'
META = {
    'level_text': 'Lean 4 theorems about definitions REGENERATED on every run from ShapeFactors.py by a concolic tracer (inner formulas and …Min constants of needle/plate/cuboidal/sphere) and about hand models of the public wrappers and of the _findRcrit bisection: unit-volume semi-axes with the requested aspect ratio; thermodynamic factor = spheroid (cuboid) area / equal-volume-sphere area and kinetic factor = spheroid capacitance / equal-volume radius as identities with the textbook closed forms (generic ordered field with the transcendental sub-terms as atoms, and over the reals with Mathlib rpow/arcsin/arccos/log, no atom hypotheses left); wrappers return the …Min constants at ar <= 1; continuity at 1 <=> …Min = formula(1), and over the reals ContinuousAt at 1 of all twelve public factor functions and of the semi-axes (needle/plate thermodynamic and kinetic factor tend to 1 via asin e/e -> 1 and (log(1+e)-log(1-e))/e -> 2, cuboid kinetic factor tends to 0.968); eq.-radius factor strictly increasing; scalar call = array call element-wise; clamp leaves the argument unchanged; bisection result / iteration-cap / fallback specification, bracket sign and halving invariants by induction, scalar-aspect closed form is an exact root; setter state machine of ShapeFactor (constructor, setAspectRatio, setPrecipitateShape / set<X>Shape, setSpherical): after ANY history the object matches the last shape and the last aspect-ratio specification, the active search of the public findRcrit is the closed form after a number and the bisection after a function, and its result obeys the root specification (by induction over the history); radius interface (normalRadii / eqRadiusFactor / kineticFactor / thermoFactor of R) as a state machine over call histories with explicit argument-object identities: every answer of ANY history of setter calls and evaluations is the description-level function of the aspect ratios of the CURRENT values of the argument under the last shape and last aspect-ratio specification, i.e. the answer of a freshly constructed object (eval_history_independent, runR_answers), evaluations never look at the identity of the argument and leave the object unchanged; the identity-memo variant (aspect ratio cached per argument object) is modelled too: it agrees as long as no argument object changes its contents (memo_correct_of_immutable) and returns the stale answer after an in-place update (memo_stale_after_inplace_update). Generated defs and models are tied to the code by differential correspondence on every run (the critical-radius search only through the PUBLIC findRcrit on objects reached through random setter histories, incl. PrecipitateParameters().shapeFactor; which search ran is observed by counting the evaluations of the aspect-ratio function; the radius interface through random call histories on one object — setters, evaluations with fresh arrays / lists / scalars / 0-d arrays, the same object unchanged, the same object updated in place (R *= c, R += d, R[:] = ..., R[k] = ...), views of a common buffer — with the object identities and current contents in the op encoding); the property predicates are also evaluated directly on the real functions, the closed forms against scipy quadrature of the area and capacitance integrals.',
    'level_note': 'Monitored only (oracle, not proved): thermodynamic and kinetic factor of needle and plate increase with ar (grids on [1,100] and 1+10^-k); closed forms = the area / capacitance integrals (scipy.integrate.quad, rtol 1e-7); a bracketed root of a continuous objective is found before the 100-iteration cap (oracle on random aspect-ratio functions; the Lean theorem gives the bracket of width (Rmax-Rs)/2^n with a sign change, not convergence in 100 steps). The bracket invariant needs f(RcritSphere) != 0: with an exact root at the lower end the code walks off it and ends in the fallback, which is then that root (counter-example kept in Props/C15.lean). Trusted: Lean kernel + Mathlib, axioms propext/Classical.choice/Quot.sound; the tracer tools/py2lean/sym.py (every generated def re-validated numerically on each run); hand models equal the NumPy code as far as this run compared them; exact-field / real arithmetic instead of IEEE doubles (oracle continuity tolerance 1e-7 relative + 3*10^-k).',
    'technique': 'Lean 4 proof over generated definitions (py2lean) + hand models + differential correspondence + quadrature oracle',
    'design_ref': 'DESIGN.md section 6, C15',
}
LEAN_MODULES = ['KawinV.Props.C15']
MONITORED = [
    'needle/plate thermodynamic and kinetic factor increase with ar: fine grid on [1,100] and 1+10^-k (eq.-radius factor: proved)',
    'closed forms equal the spheroid area and capacitance integrals: scipy.integrate.quad at random ratios',
    'bisection reaches the tolerance before the iteration cap when a root of a continuous objective is strictly bracketed',
    'IEEE evaluation of the factors near ar = 1 stays within 1e-7 of the value at 1 (real-number continuity: proved)',
]
ASSUMPTIONS = [
    'aspect ratios are finite numbers; the statement covers [1, 100] and inputs below 1 (treated as 1)',
    'theorems are over exact ordered-field / real arithmetic; IEEE doubles compared with rtol 1e-9 (looser where the source formula cancels near ar = 1)',
    'the cube-root / power atoms obey cbrt(x)^3 = x and x^(2/3) = cbrt(x)^2 (discharged for the real-number instance)',
]
TRUSTED = ['setter semantics of ShapeFactor as modelled in KawinV.SFState (compared on every run through random histories)',
           'the radius-interface model sees an argument as (object id, current contents): NumPy aliasing (views, in-place operators) is executed by NumPy in the harness, not modelled',
           'tools/py2lean/sym.py concolic tracer and emitter (every generated def is re-validated numerically on each run)',
           'np.atleast_1d / boolean-mask assignment / np.squeeze semantics as modelled in KawinV.Shape (compared on every run)']

SHAPES = ['needle', 'plate', 'cuboid', 'sphere']
CLS = {'needle': 'NeedleDescription', 'plate': 'PlateDescription', 'cuboid': 'CuboidalDescription', 'sphere': 'SphereDescription'}
SETTER = {'needle': 'setNeedleShape', 'plate': 'setPlateShape', 'cuboid': 'setCuboidalShape', 'sphere': 'setSpherical'}
INNER = [('_eqRadius', 'eqRadius'), ('_thermoFactor', 'thermoFactor'), ('_kineticFactor', 'kineticFactor')]
WRAP = ['eqRadiusFactor', 'thermoFactor', 'kineticFactor']
MINS = ['eqRadiusFactorMin', 'thermoFactorMin', 'kineticFactorMin']
GEN_FILE = os.path.join(vlib.LEAN, 'KawinV', 'Gen', 'C15Shape.lean')
SRC = 'kawin/precipitation/parameters/ShapeFactors.py'

_MOD = [None]


def load():
    """the ShapeFactors module of the tree under test (it only needs numpy, so it is loaded by path:
    importing kawin.precipitation pulls pycalphad, ~12 s)"""
    if _MOD[0] is None:
        spec = importlib.util.spec_from_file_location('kawin_C15_ShapeFactors', os.path.join(vlib.REPO, SRC))
        m = importlib.util.module_from_spec(spec)
        spec.loader.exec_module(m)
        _MOD[0] = m
    return _MOD[0]


# ------------------------------------------------------------------ translator
def regenerate(ctx):
    sys.path.insert(0, os.path.join(vlib.VERIF, 'tools', 'py2lean'))
    import sym
    from sym import Sym, emit_def
    SF = load()
    saved_pi = np.pi
    src = sym.HEADER + '\nnamespace KawinV.Gen.C15\n\n'
    np.pi = Sym.atom('pi', math.pi)
    try:
        for sh in SHAPES:
            del sym.PATH[:]
            d = getattr(SF, CLS[sh])()           # __init__ runs under the tracer: the …Min constants are traced too
            ar = np.array([Sym.var('ar', 2.5)], dtype=object)
            where = '%s %s' % (SRC, CLS[sh])
            out = d._normalRadii(ar)
            if getattr(out, 'shape', None) != (1, 3):
                raise RuntimeError('%s._normalRadii: unexpected shape %r' % (CLS[sh], getattr(out, 'shape', None)))
            s, _ = emit_def(sh + '_normalRadii', ['ar'], list(out[0]), where + '._normalRadii', ['r0', 'r1', 'r2'])
            src += s
            for meth, nm in INNER:
                out = getattr(d, meth)(ar)
                if getattr(out, 'shape', None) != (1,):
                    raise RuntimeError('%s.%s: unexpected shape' % (CLS[sh], meth))
                s, _ = emit_def('%s_%s' % (sh, nm), ['ar'], Sym.const(out[0]), where + '.' + meth)
                src += s
            for attr in MINS:
                v = getattr(d, attr)
                if isinstance(v, np.ndarray):
                    if v.size != 1:
                        raise RuntimeError('%s.%s is not a scalar' % (CLS[sh], attr))
                    v = v.reshape(-1)[0]
                s, _ = emit_def('%s_%s' % (sh, attr), [], Sym.const(v), where + '.' + attr + ' as computed by __init__')
                src += s
            if sym.PATH:
                raise RuntimeError('%s: the traced formulas branch on the aspect ratio: %r' % (CLS[sh], sym.PATH[:3]))
    finally:
        np.pi = saved_pi
    src += 'end KawinV.Gen.C15\n'
    return [os.path.relpath(GEN_FILE, vlib.VERIF)] if vlib.write_if_changed(GEN_FILE, src) else []


# ------------------------------------------------------------------ helpers
SID = {'needle': 0, 'plate': 1, 'cuboid': 2, 'sphere': 3}
KGRID = list(range(1, 16))                    # 1 + 10^-k
CONT_TOL = 1e-7                               # relative jump tolerated at ar = 1 (see META.level_note)


def desc(SF, sh):
    return getattr(SF, CLS[sh])()


def arfun(kind, p0, p1, p2):
    if kind == 0:
        return lambda R: p0
    if kind == 1:
        return lambda R: p0 + p1 * (R / p2)
    if kind == 2:
        return lambda R: p0 * (R / p2) ** p1
    return lambda R: p0 + p1 / (1.0 + R / p2)


def fine_grid(n):
    """[1, 100]: uniform + logarithmic + 1 + 10^-k, sorted, unique"""
    g = np.concatenate([np.linspace(1.0, 100.0, n), np.exp(np.linspace(0.0, math.log(100.0), n)),
                        1.0 + 10.0 ** (-np.array(KGRID, dtype=float)), [1.0, 100.0]])
    g = np.unique(np.clip(g, 1.0, 100.0))
    return g


# ---- quadrature references (independent of the closed forms)
def quad_area_ratio(a, c):
    """area of the spheroid with equatorial semi-axis a and polar semi-axis c / area of the equal-volume sphere;
    surface of revolution: S = 4 pi a * int_0^c sqrt(1 + z^2 (a^2 - c^2)/c^4) dz"""
    from scipy.integrate import quad
    k = (a * a - c * c) / c ** 4
    val, err = quad(lambda z: math.sqrt(max(0.0, 1.0 + z * z * k)), 0.0, c, epsabs=0, epsrel=1e-12, limit=400)
    S = 4 * math.pi * a * val
    R = (a * a * c) ** (1.0 / 3.0)
    return S / (4 * math.pi * R * R)


def quad_cap_ratio(a, c):
    """capacitance of the spheroid (a, a, c) / equal-volume radius; C = 2 / int_0^inf dt / sqrt((a^2+t)^2 (c^2+t))
    (sphere of radius R: C = R)"""
    from scipy.integrate import quad
    f = lambda t: 1.0 / ((a * a + t) * math.sqrt(c * c + t))
    L = 10.0 * max(a, c) ** 2
    v1, _ = quad(f, 0.0, L, epsabs=0, epsrel=1e-12, limit=400)
    # tail with t = L / u^2, u in (0, 1]:  dt = -2 L / u^3 du
    g = lambda u: (2.0 * L / u ** 3) * f(L / (u * u)) if u > 0 else 0.0
    v2, _ = quad(g, 0.0, 1.0, epsabs=0, epsrel=1e-12, limit=400)
    C = 2.0 / (v1 + v2)
    R = (a * a * c) ** (1.0 / 3.0)
    return C / R


# ------------------------------------------------------------------ oracle predicates on the real functions
# each returns a list of (key, what, observed, required); `args` is JSON-able and enough to replay
def chk_axes(SF, args):
    sh, ars = args['shape'], np.array(args['ars'], dtype=float)
    d = desc(SF, sh)
    out = []
    rad = np.atleast_2d(d.normalRadii(ars.copy()))
    eff = np.maximum(ars, 1.0)
    for i, ar in enumerate(eff):
        r = rad[i]
        vol = r[0] * r[1] * r[2] * (1.0 if sh == 'cuboid' else 4 * math.pi / 3)
        if not close(vol, 1.0, 1e-12):
            out.append(('unit-volume:' + sh, 'semi-axes for ar=%r do not give unit volume' % float(ars[i]), float(vol), 1.0)); break
        lo, hi = float(np.min(r)), float(np.max(r))
        want = 1.0 if sh == 'sphere' else float(ar)
        if not close(hi / lo, want, 1e-12):
            out.append(('aspect:' + sh, 'long/short semi-axis for ar=%r' % float(ars[i]), hi / lo, want)); break
        mid = float(np.sort(r)[1])
        twin = lo if sh in ('needle', 'cuboid') else hi
        if sh != 'sphere' and not close(mid, twin, 1e-14):
            out.append(('axes-pair:' + sh, 'the two equal axes differ for ar=%r' % float(ars[i]), mid, twin)); break
    return out


def chk_quad(SF, args):
    sh, ar = args['shape'], float(args['ar'])
    d = desc(SF, sh)
    out = []
    th, kin, eq = float(d.thermoFactor(ar)), float(d.kineticFactor(ar)), float(d.eqRadiusFactor(ar))
    if sh == 'needle':
        a, c = 1.0, ar
        eqw = ar ** (1 / 3)
    elif sh == 'plate':
        a, c = ar, 1.0
        eqw = ar ** (2 / 3)
    else:   # cuboid: elementary geometry, edges 1, 1, ar
        R = (3 * ar / (4 * math.pi)) ** (1 / 3)
        want = (2 + 4 * ar) / (4 * math.pi * R * R)
        if not close(th, want, 1e-12):
            out.append(('thermo-vs-geometry:cuboid', 'thermoFactor(%r) is not cuboid area / equal-volume sphere area' % ar, th, want))
        if not close(eq, R, 1e-12):
            out.append(('eqradius-vs-geometry:cuboid', 'eqRadiusFactor(%r) is not the equal-volume radius of the 1x1xar cuboid' % ar, eq, R))
        return out
    wa = quad_area_ratio(a, c)
    wc = quad_cap_ratio(a, c)
    if not close(th, wa, 1e-7):
        out.append(('thermo-vs-area-integral:' + sh, 'thermoFactor(%r) differs from the quadrature of the spheroid area / sphere area' % ar, th, wa))
    if not close(kin, wc, 1e-7):
        out.append(('kinetic-vs-capacitance-integral:' + sh, 'kineticFactor(%r) differs from the quadrature of the capacitance / equal-volume radius' % ar, kin, wc))
    if not close(eq, eqw, 1e-12):
        out.append(('eqradius-vs-geometry:' + sh, 'eqRadiusFactor(%r) is not the equal-volume radius for short axis 1' % ar, eq, eqw))
    return out


def chk_at_one(SF, args):
    """wrappers at and below 1: the …Min constants; needle/plate/sphere: exactly 1"""
    sh = args['shape']
    d = desc(SF, sh)
    out = []
    for fn, mn in zip(WRAP, MINS):
        m = float(getattr(d, mn))
        ref = float(getattr(d, fn)(1.0))
        if ref != m:
            out.append(('value-at-1:%s:%s' % (sh, fn), '%s(1) is not the %s constant' % (fn, mn), ref, m))
        if sh != 'cuboid' and ref != 1.0:
            out.append(('value-at-1-is-1:%s:%s' % (sh, fn), '%s(1) != 1' % fn, ref, 1.0))
        for x in args['below']:
            v = float(getattr(d, fn)(x))
            if v != ref:
                out.append(('below-1-as-1:%s:%s' % (sh, fn), '%s(%r) differs from %s(1)' % (fn, x, fn), v, ref)); break
    r1 = np.asarray(d.normalRadii(1.0), dtype=float)
    for x in args['below']:
        rx = np.asarray(d.normalRadii(x), dtype=float)
        if not np.array_equal(rx, r1):
            out.append(('below-1-as-1:%s:normalRadii' % sh, 'normalRadii(%r) differs from normalRadii(1)' % x, rx.tolist(), r1.tolist())); break
    return out


def chk_continuity(SF, args):
    sh, fn, k = args['shape'], args['fn'], int(args['k'])
    d = desc(SF, sh)
    lo, hi = 1.0, 1.0 + 10.0 ** (-k)
    f = getattr(d, fn)
    a, b = np.asarray(f(lo), dtype=float), np.asarray(f(hi), dtype=float)
    tol = CONT_TOL + 3 * 10.0 ** (-k)
    bad = np.abs(b - a) > tol * np.maximum(np.abs(a), 1e-300)
    if np.any(bad):
        return [('continuity-at-1:%s:%s' % (sh, fn), '%s jumps at aspect ratio 1: %s(1) vs %s(1+1e-%d)' % (fn, fn, fn, k),
                 {'ar_lo': lo, 'value_lo': a.tolist(), 'ar_hi': hi, 'value_hi': b.tolist()}, 'relative difference <= %g' % tol)]
    return []


def chk_monotone(SF, args):
    sh, fn = args['shape'], args['fn']
    d = desc(SF, sh)
    g = np.array(args['grid'], dtype=float)
    v = np.asarray(getattr(d, fn)(g.copy()), dtype=float)
    out = []
    if not np.all(np.isfinite(v)):
        i = int(np.argmax(~np.isfinite(v)))
        return [('finite:%s:%s' % (sh, fn), '%s(%r) is not finite' % (fn, float(g[i])), float(v[i]), 'finite')]
    if v[0] != 1.0 or np.any(v < 1.0 - 1e-9):
        i = int(np.argmax(v < 1.0 - 1e-9)) if np.any(v < 1.0 - 1e-9) else 0
        out.append(('at-least-1:%s:%s' % (sh, fn), '%s(%r) < 1 (or != 1 at ar = 1)' % (fn, float(g[i])), float(v[i]), '>= 1, = 1 at ar = 1'))
    dv = np.diff(v)
    # rounding noise of the source formulas near ar = 1 is ~1e-16/e (e = eccentricity, cancellation in
    # log(1+e)-log(1-e) and pi/2-arccos(e)): slack 1e-15/e + 1e-13 relative
    with np.errstate(divide='ignore'):
        ecc = np.sqrt(np.maximum(1.0 - 1.0 / g[:-1] ** 2, 0.0))
        slack = (np.where(ecc > 0, 1e-15 / ecc, 1e-7) + 1e-13) * np.abs(v[1:])
    bad = dv < -slack
    strict = (g[1:] / g[:-1] >= 1.001) & (dv <= 0)
    if np.any(bad) or np.any(strict):
        i = int(np.argmax(bad | strict))
        out.append(('monotone:%s:%s' % (sh, fn), '%s does not increase between ar=%r and ar=%r' % (fn, float(g[i]), float(g[i + 1])),
                    [float(v[i]), float(v[i + 1])], 'increasing'))
    return out


CONTAINERS = ['ndarray', 'ndarray', 'ndarray', 'int-ndarray', 'list', '0d', 'pyfloat', 'npfloat', '2d']


def make_arg(kind, vals):
    if kind == 'ndarray':
        return np.array(vals, dtype=float)
    if kind == 'int-ndarray':
        return np.array([int(round(v)) for v in vals], dtype=int)
    if kind == 'list':
        return [float(v) for v in vals]
    if kind == '0d':
        return np.array(float(vals[0]))
    if kind == 'pyfloat':
        return float(vals[0])
    if kind == 'npfloat':
        return np.float64(vals[0])
    if kind == '2d':
        return np.array(vals, dtype=float).reshape(2, -1)
    raise ValueError(kind)


def snapshot(x):
    return x.copy() if isinstance(x, np.ndarray) else (list(x) if isinstance(x, list) else x)


def same(x, y):
    if isinstance(x, np.ndarray):
        return isinstance(y, np.ndarray) and x.shape == y.shape and x.dtype == y.dtype and np.array_equal(x, y, equal_nan=x.dtype.kind == 'f')
    if isinstance(x, float) and math.isnan(x):
        return isinstance(y, float) and math.isnan(y)
    return type(x) is type(y) and x == y


def run_wrapper(SF, args):
    """call one public wrapper; returns (flat output, argument unchanged?, flat values actually passed)"""
    d = desc(SF, args['shape'])
    x = make_arg(args['container'], args['vals'])
    before = snapshot(x)
    out = getattr(d, args['fn'])(x)
    flat_in = np.asarray(before, dtype=float).reshape(-1)
    return np.asarray(out, dtype=float).reshape(-1), same(before, x), flat_in, (np.asarray(x, dtype=float).reshape(-1))


def chk_wrapper(SF, args):
    """no mutation; array call = scalar calls element-wise"""
    out, unchanged, flat_in, flat_after = run_wrapper(SF, args)
    res = []
    sh, fn = args['shape'], args['fn']
    if not unchanged:
        res.append(('argument-modified:%s' % args['container'], '%s.%s wrote into the caller\'s %s argument' % (CLS[sh], fn, args['container']),
                    flat_after.tolist(), flat_in.tolist()))
    d = desc(SF, sh)
    w = 3 if fn == 'normalRadii' else 1
    sc = []
    for v in flat_in:
        sc += np.asarray(getattr(d, fn)(float(v)), dtype=float).reshape(-1).tolist()
    if len(sc) != len(out) or not all(close(a, b, 1e-13) for a, b in zip(out, sc)):
        res.append(('scalar-vs-array:%s:%s' % (sh, fn), 'array call differs from the scalar calls element by element', out.tolist(), sc))
    return res


CLS_NAME = {'needle': 'needle', 'plate': 'plate', 'cuboid': 'cubic', 'sphere': 'sphere'}
_PP = [None]


def load_pp():
    """PrecipitateParameters of the tree under test (the object that owns a ShapeFactor in a simulation);
    imports the kawin package (pycalphad, ~12 s)"""
    if _PP[0] is None:
        import warnings
        vlib.use_repo()
        with warnings.catch_warnings():
            warnings.simplefilter('ignore')
            from kawin.precipitation import PrecipitateParameters
        _PP[0] = PrecipitateParameters
    return _PP[0]


# ---- setter histories: the PUBLIC findRcrit on objects reached through constructor + setter calls.
# spec: ['S', c] scalar | ['F', kind, p0, p1, p2] function of the radius (arfun)
# ctor: ['ctor', shape, spec] | ['default'] (= ShapeFactor()) | ['pp'] (PrecipitateParameters(...).shapeFactor)
# op:   ['ar', spec] setAspectRatio | ['shape', shape, spec, via] | ['spherical']
DESC_CLS = {'needle': 'NeedleDescription', 'plate': 'PlateDescription', 'cuboid': 'CuboidalDescription', 'sphere': 'SphereDescription'}


def set_via_description(sf, shape, ar, const):
    """the shape entered through the public `description` property setter and the aspect ratio through setAspectRatio - for a constant
    aspect ratio the description is assigned AFTER the aspect ratio, for a function before it; either way the object is in the state
    setPrecipitateShape(shape, ar) leaves it in (the model's shape op)"""
    mod = sys.modules.get(type(sf).__module__) or load()          # the by-path copy is not registered in sys.modules
    cls = getattr(mod, DESC_CLS[shape])
    if const:
        sf.setAspectRatio(ar); sf.description = cls()
    else:
        sf.description = cls(); sf.setAspectRatio(ar)


class Counted:
    """an aspect-ratio function that records the radii it is called with (public observation of which search runs)"""
    def __init__(self, kind, p0, p1, p2):
        self.f = arfun(kind, p0, p1, p2)
        self.R = []

    def __call__(self, R):
        self.R.append(R)
        return self.f(R)


def realize(spec):
    return float(spec[1]) if spec[0] == 'S' else Counted(int(spec[1]), spec[2], spec[3], spec[4])


def build_history(SF, case):
    """returns (ShapeFactor object, realized last aspect-ratio spec, last shape, last spec)"""
    ctor = case['ctor']
    if ctor[0] == 'ctor':
        last = realize(ctor[2]); shape, spec = ctor[1], ctor[2]
        sf = SF.ShapeFactor(CLS_NAME[shape], last)
    elif ctor[0] == 'default':
        sf = SF.ShapeFactor(); last, shape, spec = 1.0, 'sphere', ['S', 1.0]
    else:
        sf = load_pp()('beta').shapeFactor; last, shape, spec = 1.0, 'sphere', ['S', 1.0]
    for op in case['ops']:
        if op[0] == 'ar':
            last = realize(op[1]); spec = op[1]
            sf.setAspectRatio(last)
        elif op[0] == 'shape':
            last = realize(op[2]); shape, spec = op[1], op[2]
            if op[3] == 'name':
                sf.setPrecipitateShape(CLS_NAME[shape], last)
            elif op[3] == 'NAME':
                sf.setPrecipitateShape(CLS_NAME[shape].upper(), last)
            elif op[3] == 'descr':
                set_via_description(sf, shape, last, spec[0] == 'S')
            else:
                getattr(sf, SETTER[shape])(last)       # setNeedleShape / setPlateShape / setCuboidalShape
        else:
            sf.setSpherical(); last, shape, spec = 1.0, 'sphere', ['S', 1.0]
    return sf, last, shape, spec


def run_history(SF, case):
    sf, last, shape, spec = build_history(SF, case)
    sf.tol = case['tol']
    r = float(sf.findRcrit(case['Rs'], case['Rmax']))
    visited = list(last.R) if isinstance(last, Counted) else None      # radii the search evaluated
    return sf, r, visited, shape, spec


def chk_hist(SF, args):
    sf, r, visited, shape, spec = run_history(SF, args)
    Rs, Rmax, tol = args['Rs'], args['Rmax'], args['tol']
    resid = lambda R: float(R) / (Rs * float(sf.thermoFactor(float(R)))) - 1
    out = []
    what = 'history %s + %s, last aspect ratio %s on %s' % (args['ctor'], args['ops'], spec, shape)
    if spec[0] == 'S':
        if not abs(resid(r)) <= 1e-13:
            out.append(('findRcrit-scalar-not-root', 'findRcrit with a constant aspect ratio is not a root of R = Rs*thermoFactor(ar): ' + what, resid(r), 0.0))
    else:
        fmin, fmax = resid(Rs), resid(Rmax)
        iters = len(visited) - 3
        if fmin * fmax < 0 and tol >= 1e-9:
            if not (abs(resid(r)) <= tol * (1 + 1e-9)) or not (min(Rs, Rmax) <= r <= max(Rs, Rmax)):
                out.append(('findRcrit-bracketed-not-root',
                            'objective changes sign on [Rs, Rmax] but findRcrit returned r with |r/(Rs*thermoFactor(ar(r))) - 1| > tol: ' + what,
                            {'r': r, 'residual': resid(r), 'f(Rs)': fmin, 'f(Rmax)': fmax, 'aspect-ratio evaluations': len(visited)}, '|residual| <= %g' % tol))
        elif iters >= 100 and r != Rs:
            out.append(('findRcrit-cap', 'iteration cap reached but the fallback RcritSphere was not returned: ' + what, r, Rs))
    # the answer may only depend on the last shape and the last aspect-ratio specification
    fresh = type(sf)(CLS_NAME[shape], realize(spec))
    fresh.tol = tol
    r2 = float(fresh.findRcrit(Rs, Rmax))
    if r2 != r and not (math.isnan(r) and math.isnan(r2)):
        out.append(('findRcrit-depends-on-history', 'findRcrit differs from a freshly constructed ShapeFactor(%s, same aspect ratio): ' % shape + what, r, r2))
    return out


# ---- call histories on the RADIUS interface of one ShapeFactor object (part R)
# A case is {'ctor': …, 'ops': [...], 'Rscale': …}; ctor / setter ops as in the findRcrit histories, but the
# radius-dependent aspect ratios are VECTORISED functions (arfun_vec: constant, linear, power law, saturating,
# piecewise).  Further ops (the caller's side: argument objects have explicit names = identities):
#   ['new', name, container, vals]            name = np.array(vals) | np.array(vals[0]) (0-d) | list(vals)
#   ['view', name, base, [start, stop, step]] name = base[start:stop:step]  (a view of the buffer of `base`)
#   ['mut', name, 'scale', c] R *= c | ['mut', name, 'shift', d] R += d | ['mut', name, 'assign', vals] R[:] = vals
#   ['mut', name, 'setitem', k, v] R[k] = v
#   ['eval', fn, ['obj', name]] | ['eval', fn, ['copy', name]] (fresh array with the contents of name)
#   ['eval', fn, ['fresh', container, vals]]  container: ndarray | list | 0d | pyfloat | npfloat
RFNS = WRAP + ['normalRadii']            # `which` of the model: 0 eqRadiusFactor 1 thermoFactor 2 kineticFactor 3 normalRadii


def arfun_vec(kind, p0, p1, p2):
    """aspect ratio as a function of the radius, element by element for arrays / lists / scalars"""
    A = lambda R: np.asarray(R, dtype=float)
    if kind == 0:
        return lambda R: p0 + 0.0 * A(R)
    if kind == 1:
        return lambda R: p0 + p1 * (A(R) / p2)
    if kind == 2:
        return lambda R: p0 * (A(R) / p2) ** p1
    if kind == 4:
        return lambda R: np.where(A(R) < p2, p0, p0 + p1 * (A(R) / p2 - 1.0))
    return lambda R: p0 + p1 / (1.0 + A(R) / p2)


def realize_vec(spec):
    return float(spec[1]) if spec[0] == 'S' else arfun_vec(int(spec[1]), spec[2], spec[3], spec[4])


def rebuild(container, flat):
    """a fresh argument of the same kind holding the values `flat`"""
    if container in ('ndarray', 'view'):
        return np.array(flat, dtype=float)
    if container == 'list':
        return [float(v) for v in flat]
    if container == '0d':
        return np.array(float(flat[0]))
    if container == 'pyfloat':
        return float(flat[0])
    if container == 'npfloat':
        return np.float64(flat[0])
    raise ValueError(container)


def rh_tols(ars):
    """per element: 1e-12, but 1e-6 where 1 < ar < 1.001 (the source formulas cancel there, see CONT_TOL)"""
    ars = np.asarray(ars, dtype=float).reshape(-1)
    return np.where((ars > 1.0) & (ars < 1.001), 1e-6, 1e-12)


def rh_close(a, b, tols, w):
    a = np.asarray(a, dtype=float).reshape(-1); b = np.asarray(b, dtype=float).reshape(-1)
    if len(a) != len(b) or len(a) != w * len(tols):
        return False
    return all(close(x, y, tols[i // w]) for i, (x, y) in enumerate(zip(a, b)))


def rh_check_eval(SF, shape, spec, fn, container, cls, flat, out, unchanged, arg_after):
    """the oracle after ONE evaluation: the answer is a function of the current configuration and of the
    current VALUES of the argument only.  Returns [(key, what, observed, required)]"""
    res = []
    w = 3 if fn == 'normalRadii' else 1
    where = '%s(R) on a %s ShapeFactor with aspect ratio %s, argument: %s (%s), current contents %s' % (
        fn, shape, spec, cls, container, [float(v) for v in flat])
    if not unchanged:
        res.append(('argument-modified:radius-eval:' + container, 'the evaluation wrote into the caller\'s argument: ' + where,
                    arg_after, [float(v) for v in flat]))
    if spec[0] == 'S':
        ars = np.full(len(flat), float(spec[1]))
    else:
        ars = np.asarray(realize_vec(spec)(np.array(flat, dtype=float)), dtype=float).reshape(-1)
    tols = rh_tols(ars)
    out_a = np.asarray(out, dtype=float)
    # (1) a FRESH object configured identically, evaluated on a COPY of the current contents
    fresh = SF.ShapeFactor(CLS_NAME[shape], realize_vec(spec))
    exp = np.asarray(getattr(fresh, fn)(rebuild(container, flat)), dtype=float)
    if out_a.shape != exp.shape:
        res.append(('radius-eval-shape:' + cls, 'result shape differs from the one a fresh, identically configured ShapeFactor gives on a copy: ' + where,
                    list(out_a.shape), list(exp.shape)))
    elif not rh_close(out_a, exp, tols, w):
        res.append(('radius-eval-depends-on-history:' + cls,
                    'result differs from the one a fresh, identically configured ShapeFactor gives on a COPY of the current contents '
                    '(the answer depends on the call history / on the identity of the argument object): ' + where,
                    out_a.reshape(-1).tolist(), exp.reshape(-1).tolist()))
    # (2) the description-level function of aspectRatio(current contents), aspect ratios computed by the harness
    want = np.asarray(getattr(desc(SF, shape), fn)(ars.copy()), dtype=float).reshape(-1)
    if not rh_close(out_a, want, tols, w):
        res.append(('radius-eval-vs-description:%s:%s' % (cls, fn),
                    'result is not description.%s(aspectRatio(current contents of R)): ' % fn + where + ', aspect ratios %s' % ars.tolist(),
                    out_a.reshape(-1).tolist(), want.tolist()))
    # (3) scalar calls element by element
    of = out_a.reshape(-1)
    if len(of) == w * len(flat):
        for i, v in enumerate(flat[:8]):
            sc = np.asarray(getattr(fresh, fn)(float(v)), dtype=float).reshape(-1)
            if not rh_close(of[i * w:(i + 1) * w], sc, tols[i:i + 1], w):
                res.append(('radius-eval-scalar-vs-array:%s:%s' % (cls, fn),
                            'element %d of the result differs from the scalar call %s(%r) of a fresh ShapeFactor: ' % (i, fn, float(v)) + where,
                            of[i * w:(i + 1) * w].tolist(), sc.tolist()))
                break
    return res


def run_rhist(SF, case, check=True):
    """execute a call history on ONE ShapeFactor; returns (records of the evaluations, violations).
    Stops at the first evaluation whose oracle fails."""
    ctor = case['ctor']
    if ctor[0] == 'ctor':
        shape, spec = ctor[1], ctor[2]
        sf = SF.ShapeFactor(CLS_NAME[shape], realize_vec(spec))
    elif ctor[0] == 'default':
        sf = SF.ShapeFactor(); shape, spec = 'sphere', ['S', 1.0]
    else:
        sf = load_pp()('beta').shapeFactor; shape, spec = 'sphere', ['S', 1.0]
    objs, kinds = {}, {}
    prev = None                    # (name, contents) of the argument of the previous evaluation
    seen = set()
    recs, viol = [], []
    fresh_id = 1000
    for idx, op in enumerate(case['ops']):
        t = op[0]
        if t == 'ar':
            spec = op[1]; sf.setAspectRatio(realize_vec(spec))
        elif t == 'shape':
            shape, spec = op[1], op[2]
            if op[3] == 'name':
                sf.setPrecipitateShape(CLS_NAME[shape], realize_vec(spec))
            elif op[3] == 'NAME':
                sf.setPrecipitateShape(CLS_NAME[shape].upper(), realize_vec(spec))
            elif op[3] == 'descr':
                set_via_description(sf, shape, realize_vec(spec), spec[0] == 'S')
            else:
                getattr(sf, SETTER[shape])(realize_vec(spec))
        elif t == 'spherical':
            sf.setSpherical(); shape, spec = 'sphere', ['S', 1.0]
        elif t == 'new':
            objs[op[1]] = rebuild(op[2], op[3]); kinds[op[1]] = op[2]
        elif t == 'view':
            a, b, c = op[3]
            objs[op[1]] = objs[op[2]][slice(a, b, c)]; kinds[op[1]] = 'view'
            if not isinstance(objs[op[1]], np.ndarray) or objs[op[1]].base is None or objs[op[1]].size == 0:
                raise ValueError('harness: not a non-empty view: %r' % (op,))
        elif t == 'mut':
            x, k = objs[op[1]], kinds[op[1]]
            if op[2] == 'scale':
                if k == 'list':
                    x[:] = [v * op[3] for v in x]
                else:
                    x *= op[3]
            elif op[2] == 'shift':
                if k == 'list':
                    x[:] = [v + op[3] for v in x]
                else:
                    x += op[3]
            elif op[2] == 'assign':
                if k == '0d':
                    x[...] = op[3][0]
                else:
                    x[:] = [float(v) for v in op[3]]
            else:
                if k == '0d':
                    x[...] = op[4]
                else:
                    x[op[3]] = float(op[4])
        elif t == 'eval':
            fn, a = op[1], op[2]
            if a[0] == 'obj':
                arg, cont, name, oid = objs[a[1]], kinds[a[1]], a[1], int(a[1])
            elif a[0] == 'copy':
                arg, cont, name, oid = np.array(objs[a[1]], dtype=float), 'ndarray', None, fresh_id
            else:
                arg, cont, name, oid = rebuild(a[1], a[2]), a[1], None, fresh_id
            fresh_id += name is None
            before = snapshot(arg)
            flat = np.asarray(before, dtype=float).reshape(-1)
            if name is None:
                cls = 'fresh-copy-of-object' if a[0] == 'copy' else 'fresh-' + cont
            elif prev is not None and prev[0] == name:
                cls = 'same-object-unchanged' if np.array_equal(prev[1], flat) else 'same-object-mutated-in-place'
            elif name in seen:
                cls = 'object-revisited'
            else:
                cls = 'object-first-use'
            out = getattr(sf, fn)(arg)
            unchanged = same(before, arg)
            rec = {'op': idx, 'fn': fn, 'oid': oid, 'cls': cls, 'container': cont, 'flat': flat, 'out': np.asarray(out, dtype=float),
                   'shape': shape, 'spec': spec}
            recs.append(rec)
            if check:
                viol = rh_check_eval(SF, shape, spec, fn, cont, cls, flat, out, unchanged,
                                     np.asarray(arg, dtype=float).reshape(-1).tolist())
                if viol:
                    break
            prev = (name, flat); seen.add(name)
        else:
            raise ValueError('harness: unknown op %r' % (op,))
    return recs, viol


def shrink_rhist(SF, case, key):
    """drop calls that are not needed for the violation `key` (the last op is the failing evaluation)"""
    ops = list(case['ops'])
    i = len(ops) - 2
    while i >= 0:
        trial = dict(case, ops=ops[:i] + ops[i + 1:])
        try:
            recs, viol = run_rhist(SF, trial)
            hit = any(v[0] == key for v in viol) and recs and recs[-1]['op'] == len(trial['ops']) - 1
        except Exception:
            hit = False
        if hit:
            ops = trial['ops']
        i -= 1
    return dict(case, ops=ops)


def chk_rhist(SF, args):
    return run_rhist(SF, args)[1]


def gen_vspec(rng, Rs, force=None):
    t = force or rng.choice(['S', 'F', 'F', 'F'])
    if t == 'S':
        return ['S', rng.choice([0.5, 1.0, 1.2, 2.3, 3.5, 7.0, 40.0, math.exp(rng.uniform(0, math.log(100)))])]
    kind = rng.choice([0, 1, 1, 2, 2, 2, 3, 3, 4, 4])
    if kind == 0:
        p0, p1 = rng.choice([0.5, 1.2, 2.3, 7.0, 40.0]), 0.0
    elif kind == 1:
        p0, p1 = rng.choice([0.2, 0.4, 0.95, 1.0, 1.5, 3.0]), rng.choice([0.1, 0.5, 1.0, 2.0])
    elif kind == 2:
        p0, p1 = rng.choice([0.7, 1.3, 1.5, 2.3, 5.0]), rng.choice([0.5, 0.8, 1.1, 2.0, -0.5])
    elif kind == 3:
        p0, p1 = rng.choice([0.5, 1.0, 2.0]), rng.choice([1.0, 5.0, 30.0])
    else:
        p0, p1 = rng.choice([0.8, 1.0, 2.5]), rng.choice([0.5, 2.0, 6.0])
    return ['F', kind, p0, p1, Rs]


def gen_rhist_case(rng, allow_pp=True):
    Rs = 10 ** rng.uniform(-10, -8)
    radius = lambda: Rs * math.exp(rng.uniform(math.log(0.05), math.log(50.0)))
    shp = lambda: rng.choice(['needle', 'needle', 'needle', 'plate', 'plate', 'plate', 'cuboid', 'cuboid', 'sphere'])
    c = rng.random()
    if c < 0.6:
        ctor = ['ctor', shp(), gen_vspec(rng, Rs)]
    elif c < 0.92 or not allow_pp:
        ctor = ['default']
    else:
        ctor = ['pp']
    ops, lens, kinds = [], {}, {}
    nxt = [0]

    def new_obj():
        cont = rng.choice(['ndarray', 'ndarray', 'ndarray', 'ndarray', 'list', '0d'])
        n = 1 if cont == '0d' else rng.choice([1, 2, 3, 5, 8, 13])
        name = nxt[0]; nxt[0] += 1
        ops.append(['new', name, cont, [radius() for _ in range(n)]]); lens[name] = n; kinds[name] = cont
        return name

    def new_view():
        bases = [k for k in lens if kinds[k] in ('ndarray', 'view') and lens[k] >= 2]
        if not bases:
            return new_obj()
        b = rng.choice(bases); n = lens[b]
        sl = rng.choice([[0, n - 1, 1], [1, None, 1], [None, None, 2], [None, None, -1], [None, None, 1], [n // 2, None, 1]])
        m = len(range(n)[slice(*sl)])
        if m == 0:
            return new_obj()
        name = nxt[0]; nxt[0] += 1
        ops.append(['view', name, b, sl]); lens[name] = m; kinds[name] = 'view'
        return name

    def mutate(name):
        n, k = lens[name], kinds[name]
        how = rng.choice(['scale', 'scale', 'shift', 'assign', 'setitem'])
        if how == 'scale':
            ops.append(['mut', name, 'scale', rng.choice([2.0, 0.5, 1.3, 10.0, 0.1, rng.uniform(0.3, 4.0)])])
        elif how == 'shift':
            ops.append(['mut', name, 'shift', Rs * rng.uniform(0.1, 3.0)])
        elif how == 'assign':
            ops.append(['mut', name, 'assign', [radius() for _ in range(n)]])
        else:
            ops.append(['mut', name, 'setitem', rng.randrange(n), radius()])

    def cfg():
        o = rng.random()
        if o < 0.5:
            ops.append(['ar', gen_vspec(rng, Rs)])
        elif o < 0.93:
            sh = shp()
            via = rng.choice(['name', 'descr', 'NAME', 'method']) if sh != 'sphere' else 'name'
            ops.append(['shape', sh, gen_vspec(rng, Rs), via])
        else:
            ops.append(['spherical'])

    fn = lambda: rng.choice(RFNS)
    if ctor[0] != 'ctor' or rng.random() < 0.3:
        cfg()
    for _ in range(rng.choice([2, 3, 4, 6, 9])):
        e = rng.random()
        if e < 0.15:
            cfg()
        elif e < 0.30:
            cont = rng.choice(['ndarray', 'list', '0d', 'pyfloat', 'npfloat'])
            n = rng.choice([1, 2, 3, 5, 8]) if cont in ('ndarray', 'list') else 1
            ops.append(['eval', fn(), ['fresh', cont, [radius() for _ in range(n)]]])
        else:
            # an episode on one argument object: evaluate, then (update in place | leave | touch an alias) and evaluate again
            r = rng.random()
            name = new_obj() if (not lens or r < 0.35) else new_view() if r < 0.5 else rng.choice(list(lens))
            ops.append(['eval', fn(), ['obj', name]])
            for _ in range(rng.choice([1, 1, 2, 3])):
                m = rng.random()
                if m < 0.6:
                    mutate(name)
                elif m < 0.72:
                    alias = [k for k in lens if k != name and kinds[k] in ('ndarray', 'view') and kinds[name] in ('ndarray', 'view')]
                    if alias:
                        mutate(rng.choice(alias))          # possibly the same buffer seen through another view
                elif m < 0.8:
                    ops.append(['eval', fn(), ['copy', name]])
                elif m < 0.86:
                    cfg()
                ops.append(['eval', fn(), ['obj', name]])
    return {'ctor': ctor, 'ops': ops, 'Rscale': Rs}


def enc_rhist(c, recs):
    ctor = c['ctor']
    t = ['c15.rhist']
    if ctor[0] == 'ctor':
        t += ['0', str(SID[ctor[1]]), enc_spec(ctor[2])]
    elif ctor[0] == 'default':
        t += ['0', '3', enc_spec(['S', 1.0])]
    else:
        t += ['1']
    byop = {r['op']: r for r in recs}
    last = max(byop) if byop else -1
    enc = []
    for i, op in enumerate(c['ops'][:last + 1]):
        if op[0] == 'ar':
            enc.append('0 ' + enc_spec(op[1]))
        elif op[0] == 'shape':
            enc.append('1 %d %s' % (SID[op[1]], enc_spec(op[2])))
        elif op[0] == 'spherical':
            enc.append('2')
        elif op[0] == 'eval':
            r = byop[i]
            enc.append('3 %d %d %s' % (RFNS.index(r['fn']), r['oid'], enc_list(r['flat'])))
    t.append(str(len(enc)))
    return ' '.join(t + enc)


CHECKS = {'axes': chk_axes, 'quad': chk_quad, 'at_one': chk_at_one, 'continuity': chk_continuity,
          'monotone': chk_monotone, 'wrapper': chk_wrapper, 'hist': chk_hist, 'rhist': chk_rhist}


# ------------------------------------------------------------------ robustness: nothing aborts corr()
THIS_FILE = os.path.abspath(__file__)


def raised_in_impl(e):
    """True when the exception comes out of the code under test: walking the traceback from the innermost
    frame outwards, the first frame that belongs either to the tree under test or to this harness decides"""
    repo = os.path.realpath(vlib.REPO) + os.sep
    for fr in reversed(traceback.extract_tb(e.__traceback__)):
        fn = os.path.realpath(fr.filename)
        if fn.startswith(repo):
            return True
        if fn == os.path.realpath(THIS_FILE):
            return False
    return False


class Guard:
    """every case runs inside `with guard(what, case):` — an exception of the implementation becomes a
    violation with the input as replay, a harness exception is collected (re-raised at the end of corr()
    only if no violation was found)"""
    def __init__(self, res):
        self.res, self.errors = res, []

    def __call__(self, what, case):
        return _GuardCtx(self, what, case)

    def finish(self):
        if self.errors:
            self.res.extra['harness_errors'] = self.errors[:5]
            self.res.count('harness-errors', len(self.errors))
            if not self.res.violations:
                raise RuntimeError('%d harness error(s), first: %s\n%s' % (len(self.errors), self.errors[0]['what'], self.errors[0]['traceback']))


class _GuardCtx:
    def __init__(self, g, what, case):
        self.g, self.what, self.case = g, what, case

    def __enter__(self):
        return self

    def __exit__(self, et, e, tb):
        if e is None or not isinstance(e, Exception):
            return False
        if raised_in_impl(e):
            self.g.res.violate('raises:' + self.what, 'the code under test raised %s: %s' % (type(e).__name__, e), self.case,
                               ''.join(traceback.format_exception_only(et, e)).strip(), 'no exception')
        else:
            self.g.errors.append({'what': self.what, 'case': vlib.jsonable(self.case),
                                  'traceback': ''.join(traceback.format_exception(et, e, tb))[-1500:]})
        return True


def apply_check(res, guard, SF, name, args, short=None):
    """run one oracle predicate; violations carry what replay needs"""
    case = {'chk': name, 'args': short if short is not None else args}
    with guard('%s:%s' % (name, args.get('shape', '')), case):
        for key, what, obs, req in CHECKS[name](SF, args):
            res.violate(key, what, case, obs, req)


# ------------------------------------------------------------------ case generators
def gen_vals(rng, n):
    vals = []
    for _ in range(n):
        c = rng.random()
        if c < 0.25:
            vals.append(rng.choice([0.0, 0.3, 0.5, -2.0, 0.999999, 1.0 - 1e-12, 0.9]))
        elif c < 0.40:
            vals.append(1.0)
        elif c < 0.50:
            vals.append(1.0 + 10.0 ** (-rng.randint(3, 12)))
        elif c < 0.97:
            vals.append(math.exp(rng.uniform(0.0, math.log(100.0))))
        else:
            vals.append(float('nan'))
    return vals


def gen_wrapper_case(rng):
    sh = rng.choice(SHAPES)
    fn = rng.choice(WRAP + ['normalRadii'])
    cont = rng.choice(CONTAINERS)
    if cont == '2d' and fn == 'normalRadii':
        cont = 'ndarray'
    n = 1 if cont in ('0d', 'pyfloat', 'npfloat') else (2 * rng.randint(1, 4) if cont == '2d' else rng.choice([1, 1, 2, 3, 5, 8, 13]))
    vals = gen_vals(rng, n)
    if cont == 'int-ndarray':
        vals = [float(rng.choice([0, 1, 1, 2, 3, 7, 50, -1])) for _ in range(n)]
    if fn == 'normalRadii':
        vals = [v for v in vals if not math.isnan(v)] or [2.0]
        if cont in ('0d', 'pyfloat', 'npfloat'):
            vals = vals[:1]
    return {'shape': sh, 'fn': fn, 'container': cont, 'vals': vals}


def gen_spec(rng, Rs, force=None):
    t = force or rng.choice(['S', 'F', 'F'])
    if t == 'S':
        return ['S', rng.choice([0.5, 1.0, 1.2, 2.3, 3.0, 7.0, 40.0, math.exp(rng.uniform(0, math.log(100)))])]
    kind = rng.choice([0, 1, 1, 2, 2, 3])
    if kind == 0:
        p0, p1 = rng.choice([0.5, 1.2, 2.3, 7.0, 40.0]), 0.0          # a function that returns a constant
    elif kind == 1:
        p0, p1 = rng.choice([0.2, 0.95, 1.0, 1.5, 3.0]), rng.choice([0.1, 0.5, 1.0, 2.0])
    elif kind == 2:
        p0, p1 = rng.choice([0.7, 1.3, 2.3, 5.0]), rng.choice([0.5, 1.1, 2.0, -0.5])
    else:
        p0, p1 = rng.choice([0.5, 1.0, 2.0]), rng.choice([1.0, 5.0, 30.0])
    return ['F', kind, p0, p1, Rs]


def gen_hist_case(rng, allow_pp=True):
    Rs = 10 ** rng.uniform(-10, -8)
    Rmax = Rs * rng.choice([1.05, 1.3, 2.0, 3.0, 5.0, 10.0, 10.0, 30.0, 1e3, 1e4, 1e5]) * rng.uniform(1.0, 1.2)
    tol = rng.choice([1e-3, 1e-3, 1e-3, 1e-2, 1e-6, 1e-9])
    shp = lambda: rng.choice(['needle', 'needle', 'needle', 'plate', 'plate', 'plate', 'cuboid', 'cuboid', 'sphere'])
    c = rng.random()
    if c < 0.55:
        ctor = ['ctor', shp(), gen_spec(rng, Rs)]
    elif c < 0.85 or not allow_pp:
        ctor = ['default']
    else:
        ctor = ['pp']
    n = rng.choice([0, 1, 1, 1, 2, 2, 3, 5]) if ctor[0] == 'ctor' else rng.choice([1, 1, 1, 2, 2, 3, 5])
    ops = []
    for i in range(n):
        force = None
        if i == n - 1:
            force = 'F' if rng.random() < 0.7 else 'S'        # mostly end on a radius-dependent aspect ratio
        elif rng.random() < 0.5:
            force = 'S'                                        # … after a constant one
        o = rng.random()
        if o < 0.45:
            ops.append(['ar', gen_spec(rng, Rs, force)])
        elif o < 0.92:
            sh = shp()
            via = rng.choice(['name', 'descr', 'NAME', 'method']) if sh != 'sphere' else 'name'
            ops.append(['shape', sh, gen_spec(rng, Rs, force), via])
        else:
            ops.append(['spherical'])
    return {'ctor': ctor, 'ops': ops, 'tol': tol, 'Rs': Rs, 'Rmax': Rmax}


def enc_spec(sp):
    if sp[0] == 'S':
        return '0 %s' % f2b(sp[1])
    return '1 %d %s %s %s' % (sp[1], f2b(sp[2]), f2b(sp[3]), f2b(sp[4]))


def enc_hist(c):
    ctor = c['ctor']
    t = ['c15.hist', f2b(c['tol']), f2b(c['Rs']), f2b(c['Rmax'])]
    if ctor[0] == 'ctor':
        t += ['0', str(SID[ctor[1]]), enc_spec(ctor[2])]
    elif ctor[0] == 'default':
        t += ['0', '3', enc_spec(['S', 1.0])]
    else:
        t += ['1']
    t.append(str(len(c['ops'])))
    for op in c['ops']:
        if op[0] == 'ar':
            t += ['0', enc_spec(op[1])]
        elif op[0] == 'shape':
            t += ['1', str(SID[op[1]]), enc_spec(op[2])]
        else:
            t += ['2']
    return ' '.join(t)


def hist_kind(c):
    """summary of the history for the histogram: sequence of S/F specifications"""
    seq = [c['ctor'][2][0] if c['ctor'][0] == 'ctor' else 'S']
    for op in c['ops']:
        seq.append('S' if op[0] == 'spherical' else (op[1][0] if op[0] == 'ar' else op[2][0]))
    return seq


# ------------------------------------------------------------------ correspondence + oracle
def corr(ctx, oracle_only=False, scale=1):
    with np.errstate(all='ignore'):          # aspect ratios far outside [1, 100] reach the formulas in wide brackets
        return _corr(ctx, oracle_only, scale)


def _corr(ctx, oracle_only=False, scale=1):
    res = Result()
    res.rule = ('(A) generated defs: 4 shapes x aspect ratios log-uniform/uniform on [1+1e-6, 100] + fixed points; '
                '(B) public wrappers: 4 shapes x {eqRadiusFactor, thermoFactor, kineticFactor, normalRadii} x container '
                '(float/int ndarray, list, 0-d, python/numpy scalar, 2-d) x values below 1 / at 1 / 1+10^-k / up to 100 / NaN; '
                '(C) PUBLIC ShapeFactor.findRcrit on objects reached through setter histories: constructor (shape, scalar|function) / '
                'ShapeFactor() / PrecipitateParameters().shapeFactor, then 0-5 calls of setAspectRatio / setPrecipitateShape(name|NAME) / '
                'set<X>Shape / setSpherical with scalar or function (4 families) aspect ratios, bracket width 1.05..1e5, tol 1e-2..1e-9; '
                '(D) grids on [1,100] and 1+10^-k, k=1..15, quadrature at random ratios; '
                '(R) call histories on the radius interface of ONE ShapeFactor (constructor as in C, setters with scalar or vectorised radius-dependent '
                'aspect ratios: constant, linear, power law, saturating, piecewise): 2-9 episodes of setter | evaluation of a fresh ndarray/list/0-d/float | '
                'episode on one argument object (new ndarray/list/0-d array or a view [a:b:c] of an earlier buffer or an earlier object): evaluate, then 1-3 x '
                '(R *= c | R += d | R[:] = v | R[k] = v | write through an alias | evaluate a fresh copy | setter | nothing) and evaluate the SAME object again; '
                'after every evaluation: vs a fresh identically configured ShapeFactor on a copy, vs description(aspectRatio(current values)), vs scalar calls, argument untouched. '
                'non-trivial = aspect ratio > 1 involved (A,B,D) / history ends on a function and the search iterates (C) / a radius-dependent configuration '
                'evaluates an object updated in place since its previous evaluation (R); distinct = full case tuple')
    res.monitored = list(MONITORED)
    guard = Guard(res)
    try:
        SF = load()
    except Exception as e:
        res.violate('module-does-not-load', 'ShapeFactors.py of the tree under test cannot be loaded: %r' % e, {'chk': 'none'}, repr(e), 'module loads')
        return res
    rng = ctx.rng
    use_model = ctx.driver_ok and not oracle_only
    lines, after = [], []          # driver lines and what to do with each answer

    # ---------------- (A) translator validation
    nA = ctx.n(300, 20000) * scale
    for sh in SHAPES:
        with guard('inner-formulas:' + sh, {'chk': 'none', 'shape': sh}):
            d = desc(SF, sh)
            ars = [1.000001, 1.001, 1.5, 2.0, 10.0, 100.0]
            ars += [math.exp(rng.uniform(math.log(1.000001), math.log(100.0))) for _ in range(nA // 2)]
            ars += [rng.uniform(1.0001, 100.0) for _ in range(nA // 2)]
            arr = np.array(ars)
            impl = np.column_stack([np.atleast_2d(d._normalRadii(arr.copy())), d._eqRadius(arr.copy()),
                                    d._thermoFactor(arr.copy()), d._kineticFactor(arr.copy())])
            mins = [float(getattr(d, m)) for m in MINS]
            for a in ars:
                res.case(('A', sh, a), True)
            res.count('A:' + sh, len(ars))
            if len(res.samples) < 1:
                res.sample({'part': 'A', 'shape': sh, 'ar': ars[7], 'r0 r1 r2 eqRadius thermo kinetic': impl[7].tolist()})
            if use_model:
                lines.append('c15.gen %d %s' % (SID[sh], enc_list(ars))); after.append(('gen', sh, ars, impl))
                lines.append('c15.mins %d' % SID[sh]); after.append(('mins', sh, mins))

    # ---------------- (B) wrappers
    nB = ctx.n(500, 60000) * scale
    for i in range(nB):
        c = gen_wrapper_case(rng)
        with guard('wrapper:%s:%s' % (c['shape'], c['fn']), {'chk': 'wrapper', 'args': c}):
            out, unchanged, flat_in, flat_after = run_wrapper(SF, c)
            nontriv = bool(np.any(flat_in > 1))
            res.case(('B', c['shape'], c['fn'], c['container'], tuple(repr(v) for v in c['vals'])), nontriv)
            res.count('B:container:' + c['container']); res.count('B:fn:' + c['fn'])
            res.count('B:has-below-1' if np.any(flat_in < 1) else 'B:all>=1')
            if len(res.samples) < 2:
                res.sample({'part': 'B', **c, 'output': out.tolist()})
            apply_check(res, guard, SF, 'wrapper', c)
            if use_model:
                if c['fn'] == 'normalRadii':
                    ln = 'c15.radii %d %s' % (SID[c['shape']], enc_list(flat_in))
                else:
                    ln = 'c15.wrap %d %d %s' % (SID[c['shape']], WRAP.index(c['fn']), enc_list(flat_in))
                lines.append(ln); after.append(('wrap', c, out, flat_after))

    # ---------------- (C) public findRcrit after setter histories
    nC = ctx.n(330, 30000) * scale
    try:
        load_pp(); pp_ok = True
    except Exception as e:
        pp_ok = False
        guard.errors.append({'what': 'import kawin.precipitation (PrecipitateParameters route)', 'case': None, 'traceback': traceback.format_exc()[-1500:]})
    npp = 0
    for i in range(nC):
        c = gen_hist_case(rng, allow_pp=pp_ok and npp < ctx.n(25, 1500))
        npp += c['ctor'][0] == 'pp'
        case = {'chk': 'hist', 'args': c}
        with guard('findRcrit-after-history', case):
            sf, r, visited, shape, spec = run_history(SF, c)
            seq = hist_kind(c)
            iters = (len(visited) - 3) if visited is not None else 0
            res.case(('C', json.dumps(c, sort_keys=True)), spec[0] == 'F' and iters > 0)
            res.count('C:ctor:' + c['ctor'][0]); res.count('C:ops:%d' % len(c['ops'])); res.count('C:last:' + shape)
            res.count('C:last-spec:' + ('function' if spec[0] == 'F' else 'scalar'))
            if len(seq) > 1:
                res.count('C:transition:%s->%s' % (seq[-2], seq[-1]))
            if spec[0] == 'F':
                res.count('C:search:' + ('closed-form(!)' if len(visited) < 3 else 'fallback' if iters >= 100 else 'converged'))
            if len(res.samples) < 3:
                res.sample({'part': 'C', **c, 'r': r, 'iterations': iters})
            res.traces += 1
            if use_model:
                near = False
                if visited is not None and len(visited) >= 3:
                    Rs, tol = c['Rs'], c['tol']
                    fm = [float(R) / (Rs * float(sf.thermoFactor(float(R)))) - 1 for R in visited]
                    near = any(abs(abs(f) - tol) <= 1e-9 * tol + 1e-13 for f in fm[2:])
                    res.count('C:bracketed' if fm[0] * fm[1] < 0 else 'C:root-at-Rs' if fm[0] == 0 else 'C:not-bracketed')
                lines.append(enc_hist(c)); after.append(('hist', c, r, visited, shape, spec, near))
        apply_check(res, guard, SF, 'hist', c)

    # ---------------- (R) call histories on the radius interface of one object
    nR = ctx.n(260, 25000) * scale
    nppR = 0
    for i in range(nR):
        c = gen_rhist_case(rng, allow_pp=pp_ok and nppR < ctx.n(15, 800))
        nppR += c['ctor'][0] == 'pp'
        case = {'chk': 'rhist', 'args': c}
        with guard('radius-interface-history', case):
            recs, viol = run_rhist(SF, c)
            func_evals = [r for r in recs if r['spec'][0] == 'F' and r['spec'][1] != 0]
            res.case(('R', json.dumps(c, sort_keys=True)), any(r['cls'] == 'same-object-mutated-in-place' for r in func_evals))
            res.count('R:ctor:' + c['ctor'][0]); res.count('R:evaluations', len(recs))
            for r in recs:
                res.count('R:arg:' + r['cls']); res.count('R:container:' + r['container']); res.count('R:fn:' + r['fn'])
                res.count('R:config:' + ('function-of-R' if r['spec'][0] == 'F' and r['spec'][1] != 0 else 'constant'))
                if r['spec'][0] == 'F':
                    res.count('R:family:%d' % r['spec'][1])
            for o in c['ops']:
                if o[0] == 'mut':
                    res.count('R:mut:' + o[2])
            if len(res.samples) < 4 and recs and not any(x.get('part') == 'R' for x in res.samples):
                res.sample({'part': 'R', 'ctor': c['ctor'], 'ops': c['ops'][:8], 'first result': recs[0]['out'].reshape(-1).tolist()[:4]}, cap=4)
            res.traces += 1
            if viol:
                cut = dict(c, ops=c['ops'][:recs[-1]['op'] + 1])
                have = {v['key'] for v in res.violations}
                for key, what, obs, req in viol:
                    sc = shrink_rhist(SF, cut, key) if key not in have else cut      # only the first per key is reported
                    res.violate(key, what + ' | history: %s then %s' % (sc['ctor'], sc['ops']), {'chk': 'rhist', 'args': sc}, obs, req)
            if use_model and recs:
                lines.append(enc_rhist(c, recs)); after.append(('rhist', c, recs))

    # ---------------- model answers
    if use_model:
        ans = None
        with guard('model-driver', {'chk': 'none'}):
            ans = vlib.run_driver(PROP, lines)
        for a, what in zip(ans or [], after):
            with guard('model-answer:' + what[0], {'chk': 'none', 'line': what[0]}):
                t = Toks(a)
                if not t.ok:
                    res.disagree('model error ' + str(t.err), what[1] if isinstance(what[1], dict) else what[1:3], 'ok', a); continue
                if what[0] == 'gen':
                    _, sh, ars, impl = what
                    m = np.array(t.flts()).reshape(len(ars), 6)
                    for j, col in enumerate(['normalRadii[0]', 'normalRadii[1]', 'normalRadii[2]', '_eqRadius', '_thermoFactor', '_kineticFactor']):
                        bad = [i for i in range(len(ars)) if not close(impl[i, j], m[i, j], 1e-9)]
                        if bad:
                            i = bad[0]
                            res.disagree('generated def %s_%s' % (sh, col), {'shape': sh, 'ar': ars[i]}, float(impl[i, j]), float(m[i, j]))
                elif what[0] == 'mins':
                    _, sh, mins = what
                    m = t.flts()
                    if not vlib.all_close(mins, m, 1e-12):
                        res.disagree('generated Min constants', {'shape': sh}, mins, m)
                elif what[0] == 'wrap':
                    _, c, out, flat_after = what
                    marr, msc, mafter = t.flts(), t.flts(), t.flts()
                    if not vlib.all_close(out, marr, 1e-9):
                        res.disagree('wrapper array call', c, out.tolist(), marr)
                    if not vlib.all_close(marr, msc, 0.0):
                        res.disagree('model: array call != scalar calls', c, marr, msc)
                    if not vlib.all_close(flat_after, mafter, 0.0):
                        res.disagree('caller\'s array after the call', c, flat_after.tolist(), mafter)
                elif what[0] == 'hist':
                    _, c, r, visited, shape, spec, near = what
                    msearch, mfb, mit, mr, mshape = t.tok(), t.bool(), t.nat(), t.flt(), t.nat()
                    if mshape != SID[shape] or (msearch == 'B') != (spec[0] == 'F'):
                        res.disagree('model bookkeeping: last shape / last specification', c, [shape, spec[0]], [mshape, msearch])
                    elif spec[0] == 'F':
                        impl_search = 'B' if len(visited) >= 3 else 'S'
                        iters = len(visited) - 3
                        if impl_search != msearch:
                            res.disagree('which search the public findRcrit runs after this history (S closed form / B bisection)', c,
                                         {'search': impl_search, 'aspect-ratio evaluations': len(visited), 'r': r}, {'search': msearch, 'r': mr})
                        elif (mfb != (iters >= 100)) or mit != iters or not close(mr, r, 1e-12):
                            if near:
                                res.near_tie_skipped += 1
                            else:
                                res.disagree('findRcrit (fallback, iterations, result)', c, [iters >= 100, iters, r], [mfb, mit, mr])
                    elif not close(mr, r, 1e-12):
                        res.disagree('findRcrit, constant aspect ratio', c, r, mr)

                elif what[0] == 'rhist':
                    _, c, recs = what
                    mshape, n = t.nat(), t.nat()
                    if n != len(recs) or mshape != SID[recs[-1]['shape']]:
                        res.disagree('radius-interface history: number of evaluations / shape after the last one', c,
                                     [len(recs), recs[-1]['shape']], [n, mshape]); continue
                    for r in recs:
                        mcorrect, mmemo = t.flts(), t.flts()
                        if r['spec'][0] == 'S':
                            ars = np.full(len(r['flat']), float(r['spec'][1]))
                        else:
                            ars = np.asarray(realize_vec(r['spec'])(np.array(r['flat'])), dtype=float).reshape(-1)
                        if np.any((np.abs(ars - 1.0) <= 1e-12) & (ars != 1.0)):
                            res.near_tie_skipped += 1; continue          # the clamp at ar = 1 decides on the last bit
                        if not vlib.all_close(r['out'].reshape(-1), mcorrect, 1e-9):
                            as_memo = vlib.all_close(r['out'].reshape(-1), mmemo, 1e-9)
                            res.count('R:implementation-answers-like-the-identity-memo-variant' if as_memo else 'R:implementation-differs-from-both-models')
                            res.disagree('radius interface: evaluation #%d (%s, argument %s) of the history%s' % (
                                             r['op'], r['fn'], r['cls'], ' — the implementation gives the answer of the identity-memo variant (memoRun)' if as_memo else ''),
                                         {'ctor': c['ctor'], 'ops': c['ops'][:r['op'] + 1]}, r['out'].reshape(-1).tolist(), mcorrect)
                            break
                        if not vlib.all_close(mcorrect, mmemo, 1e-9):
                            res.count('R:identity-memo-variant-would-differ')
                            res.count('R:identity-memo-variant-would-differ:' + r['cls'])

    # ---------------- (D) direct oracle on grids
    g = fine_grid(ctx.n(400, 100000) * scale)
    below = [0.999999999, 0.5, 0.0, -3.0]
    for sh in SHAPES:
        ars = np.concatenate([g, [0.5, 0.0, 1.0]])
        apply_check(res, guard, SF, 'axes', {'shape': sh, 'ars': ars.tolist()}, short={'shape': sh, 'ars': 'fine_grid'})
        apply_check(res, guard, SF, 'at_one', {'shape': sh, 'below': below})
        for fn in WRAP + ['normalRadii']:
            for k in [9] + [k for k in KGRID[5:] if k != 9]:
                apply_check(res, guard, SF, 'continuity', {'shape': sh, 'fn': fn, 'k': k})
                res.case(('D-cont', sh, fn, k), True)
        res.count('D:continuity-probes', 4 * len(KGRID[5:]))
        if sh in ('needle', 'plate'):
            for fn in WRAP:
                apply_check(res, guard, SF, 'monotone', {'shape': sh, 'fn': fn, 'grid': g.tolist()}, short={'shape': sh, 'fn': fn, 'grid': 'fine_grid'})
                res.case(('D-mono', sh, fn, len(g)), True)
        res.count('D:grid-points', len(g))
    nQ = ctx.n(20, 1500) * scale
    for sh in ('needle', 'plate', 'cuboid'):
        for ar in [1.0 + 1e-6, 1.001, 2.0, 100.0] + [math.exp(rng.uniform(0.0, math.log(100.0))) for _ in range(nQ)]:
            apply_check(res, guard, SF, 'quad', {'shape': sh, 'ar': ar})
            res.case(('D-quad', sh, ar), True)
            res.count('D:quadrature' if sh != 'cuboid' else 'D:cuboid-geometry')
    # ShapeFactor (function of radius) delegates to the description with ar(R); argument arrays untouched
    for sh in SHAPES:
        for fn in WRAP + ['normalRadii']:
            with guard('shapefactor-delegation:%s:%s' % (sh, fn), {'chk': 'none', 'shape': sh, 'fn': fn}):
                sf = SF.ShapeFactor()
                ident = lambda R: R                      # aspect ratio = the radius array itself (same object)
                sf.setPrecipitateShape(CLS_NAME[sh], ident)
                R = np.array([0.25, 0.75, 1.0, 1.5, 4.0, 60.0])
                R0 = R.copy()
                v = getattr(sf, fn)(R)
                w = getattr(sf.description, fn)(R0.copy())
                if not np.array_equal(np.asarray(v), np.asarray(w)):
                    res.violate('shapefactor-delegation:%s:%s' % (sh, fn), 'ShapeFactor.%s(R) differs from description.%s(aspectRatio(R))' % (fn, fn),
                                {'chk': 'none', 'shape': sh}, np.asarray(v).tolist(), np.asarray(w).tolist())
                if not np.array_equal(R, R0):
                    res.violate('argument-modified:radius-array', 'ShapeFactor.%s(R) with aspectRatio = identity wrote into the radius array' % fn,
                                {'chk': 'none', 'shape': sh, 'fn': fn}, R.tolist(), R0.tolist())
                res.case(('D-sf', sh, fn), True)
    guard.finish()
    return res


def search(ctx, broken):
    """something no longer checks: oracle alone on a larger sample"""
    return corr(ctx, oracle_only=True, scale=2)


def replay(ctx, entry):
    v = entry['violation']
    c = v['case']
    SF = load()
    name = c.get('chk')
    hits = []
    if name not in CHECKS:
        r = corr(vlib.Ctx(PROP, entry.get('tier', 'quick'), entry.get('seed', 0)), oracle_only=True)
        hits = [x for x in r.violations if x['key'] == v['key']]
    else:
        args = dict(c['args'])
        if args.get('ars') == 'fine_grid':
            args['ars'] = np.concatenate([fine_grid(400), [0.5, 0.0, 1.0]]).tolist()
        if args.get('grid') == 'fine_grid':
            args['grid'] = fine_grid(400).tolist()
        try:
            hits = [{'key': k, 'what': w, 'observed': o, 'required': q} for k, w, o, q in CHECKS[name](SF, args)]
        except Exception as e:
            if not raised_in_impl(e):
                raise
            hits = [{'key': 'raises:' + name, 'what': 'the code under test raised %r' % e, 'observed': repr(e), 'required': 'no exception'}]
    for x in hits:
        print('  ', x['key'], x['what'], x.get('observed'), x.get('required'))
    return not hits
