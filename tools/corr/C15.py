"""C15 — precipitate shape factors match the geometry they describe.

regenerate(): the inner formulas of the four shape descriptions and the `…Min` constants are traced
from the ShapeFactors.py under test into lean/KawinV/Gen/C15Shape.lean (concolic tracer).
corr(): translator validation (generated defs on Float vs the Python methods), wrapper / clamp model
vs the public wrappers (scalars, arrays, values below 1, argument arrays before/after), bisection
model vs `_findRcrit`; direct oracle: the C15 predicates on the real functions, closed forms against
numerical quadrature of the spheroid area and capacitance integrals."""
import importlib.util, math, os, sys
import numpy as np
import vlib
from vlib import Result, enc_list, f2b, Toks, close

PROP = 'C15'
META = {
    'level_text': 'Lean 4 theorems about definitions REGENERATED on every run from ShapeFactors.py by a concolic tracer (inner formulas and …Min constants of needle/plate/cuboidal/sphere) and about hand models of the wrappers and of the _findRcrit bisection: unit-volume semi-axes with the requested aspect ratio, thermodynamic factor = spheroid (cuboid) area / equal-volume-sphere area and kinetic factor = spheroid capacitance / equal-volume radius as identities with the textbook closed forms (generic ordered field with the transcendental sub-terms as atoms, and over the reals with Mathlib rpow/arcsin/arccos/log), wrappers return the …Min constants at ar <= 1, cuboidal continuity at 1 (…Min = formula(1)), eq.-radius continuity at 1 for needle/plate, scalar call = array call element-wise, clamp leaves the argument unchanged, bisection result/iteration-cap/fallback specification, bracket sign and halving invariants by induction, scalar-aspect closed form is an exact root. Generated defs and models are tied to the code by differential correspondence on every run; the property predicates are also evaluated directly on the real functions, the closed forms against scipy quadrature of the area and capacitance integrals.',
    'level_note': 'Monitored only (oracle, not proved): thermo/kinetic factor of needle and plate tend to 1 at ar -> 1 (asin e / e -> 1) and all needle/plate factors increase with ar (grids on [1,100] and 1+10^-k); closed forms = the area / capacitance integrals (scipy.integrate.quad, rtol 1e-7); cuboidal kinetic factor continuity (the constant is the formula at 1.0001, 9e-7 away from the limit 0.968; continuity tolerance of the oracle is 1e-5 relative); a bracketed root of a continuous objective is found before the 100-iteration cap (oracle on random aspect-ratio functions). Trusted: Lean kernel + Mathlib, axioms propext/Classical.choice/Quot.sound; the tracer tools/py2lean/sym.py (validated numerically on every run); hand models equal the NumPy code as far as this run compared them; exact-field arithmetic instead of IEEE doubles.',
    'technique': 'Lean 4 proof over generated definitions (py2lean) + hand models + differential correspondence + quadrature oracle',
    'design_ref': 'DESIGN.md section 6, C15',
}
LEAN_MODULES = ['KawinV.Props.C15']
MONITORED = [
    'needle/plate thermodynamic and kinetic factor -> 1 as ar -> 1 (asin e / e -> 1): grid 1+10^-k, k=1..15',
    'needle/plate eq.-radius, thermodynamic and kinetic factor increase with ar: fine grid on [1,100] and 1+10^-k',
    'closed forms equal the spheroid area and capacitance integrals: scipy.integrate.quad',
    'cuboidal kinetic factor continuous at 1 to 1e-5 relative (constant = formula(1.0001))',
    'bisection reaches the tolerance before the iteration cap when a root of a continuous objective is bracketed',
]
ASSUMPTIONS = [
    'aspect ratios are finite numbers; the statement covers [1, 100] and inputs below 1 (treated as 1)',
    'theorems are over exact ordered-field / real arithmetic; IEEE doubles compared with rtol 1e-9 (looser where the source formula cancels near ar = 1)',
    'the cube-root / power atoms obey cbrt(x)^3 = x and x^(2/3) = cbrt(x)^2 (discharged for the real-number instance)',
]
TRUSTED = ['tools/py2lean/sym.py concolic tracer and emitter (every generated def is re-validated numerically on each run)',
           'np.atleast_1d / boolean-mask assignment / np.squeeze semantics as modelled in KawinV.Shape (compared on every run)']

SHAPES = ['needle', 'plate', 'cuboid', 'sphere']
CLS = {'needle': 'NeedleDescription', 'plate': 'PlateDescription', 'cuboid': 'CuboidalDescription', 'sphere': 'SphereDescription'}
SETTER = {'needle': 'setNeedleShape', 'plate': 'setPlateShape', 'cuboid': 'setCuboidalShape', 'sphere': 'setSpherical'}
INNER = [('_eqRadius', 'eqRadius'), ('_thermoFactor', 'thermoFactor'), ('_kineticFactor', 'kineticFactor')]
WRAP = ['eqRadiusFactor', 'thermoFactor', 'kineticFactor']
MINS = ['eqRadiusFactorMin', 'thermoFactorMin', 'kineticFactorMin']
GEN_FILE = os.path.join(vlib.LEAN, 'KawinV', 'Gen', 'C15Shape.lean')
SRC = 'kawin/precipitation/parameters/ShapeFactors.py'

_MOD = [None]


def load():
    """the ShapeFactors module of the tree under test (it only needs numpy, so it is loaded by path:
    importing kawin.precipitation pulls pycalphad, ~12 s)"""
    if _MOD[0] is None:
        spec = importlib.util.spec_from_file_location('kawin_C15_ShapeFactors', os.path.join(vlib.REPO, SRC))
        m = importlib.util.module_from_spec(spec)
        spec.loader.exec_module(m)
        _MOD[0] = m
    return _MOD[0]


# ------------------------------------------------------------------ translator
def regenerate(ctx):
    sys.path.insert(0, os.path.join(vlib.VERIF, 'tools', 'py2lean'))
    import sym
    from sym import Sym, emit_def
    SF = load()
    saved_pi = np.pi
    src = sym.HEADER + '\nnamespace KawinV.Gen.C15\n\n'
    np.pi = Sym.atom('pi', math.pi)
    try:
        for sh in SHAPES:
            del sym.PATH[:]
            d = getattr(SF, CLS[sh])()           # __init__ runs under the tracer: the …Min constants are traced too
            ar = np.array([Sym.var('ar', 2.5)], dtype=object)
            where = '%s %s' % (SRC, CLS[sh])
            out = d._normalRadii(ar)
            if getattr(out, 'shape', None) != (1, 3):
                raise RuntimeError('%s._normalRadii: unexpected shape %r' % (CLS[sh], getattr(out, 'shape', None)))
            s, _ = emit_def(sh + '_normalRadii', ['ar'], list(out[0]), where + '._normalRadii', ['r0', 'r1', 'r2'])
            src += s
            for meth, nm in INNER:
                out = getattr(d, meth)(ar)
                if getattr(out, 'shape', None) != (1,):
                    raise RuntimeError('%s.%s: unexpected shape' % (CLS[sh], meth))
                s, _ = emit_def('%s_%s' % (sh, nm), ['ar'], Sym.const(out[0]), where + '.' + meth)
                src += s
            for attr in MINS:
                v = getattr(d, attr)
                if isinstance(v, np.ndarray):
                    if v.size != 1:
                        raise RuntimeError('%s.%s is not a scalar' % (CLS[sh], attr))
                    v = v.reshape(-1)[0]
                s, _ = emit_def('%s_%s' % (sh, attr), [], Sym.const(v), where + '.' + attr + ' as computed by __init__')
                src += s
            if sym.PATH:
                raise RuntimeError('%s: the traced formulas branch on the aspect ratio: %r' % (CLS[sh], sym.PATH[:3]))
    finally:
        np.pi = saved_pi
    src += 'end KawinV.Gen.C15\n'
    return [os.path.relpath(GEN_FILE, vlib.VERIF)] if vlib.write_if_changed(GEN_FILE, src) else []
