"""C15 — precipitate shape factors match the geometry they describe.

regenerate(): the inner formulas of the four shape descriptions and the `…Min` constants are traced
from the ShapeFactors.py under test into lean/KawinV/Gen/C15Shape.lean (concolic tracer).
corr(): translator validation (generated defs on Float vs the Python methods), wrapper / clamp model
vs the public wrappers (scalars, arrays, values below 1, argument arrays before/after), bisection
model vs `_findRcrit`; direct oracle: the C15 predicates on the real functions, closed forms against
numerical quadrature of the spheroid area and capacitance integrals."""
import importlib.util, math, os, sys
import numpy as np
import vlib
from vlib import Result, enc_list, f2b, Toks, close

PROP = 'C15'
META = {
    'level_text': 'Lean 4 theorems about definitions REGENERATED on every run from ShapeFactors.py by a concolic tracer (inner formulas and …Min constants of needle/plate/cuboidal/sphere) and about hand models of the public wrappers and of the _findRcrit bisection: unit-volume semi-axes with the requested aspect ratio; thermodynamic factor = spheroid (cuboid) area / equal-volume-sphere area and kinetic factor = spheroid capacitance / equal-volume radius as identities with the textbook closed forms (generic ordered field with the transcendental sub-terms as atoms, and over the reals with Mathlib rpow/arcsin/arccos/log, no atom hypotheses left); wrappers return the …Min constants at ar <= 1; continuity at 1 <=> …Min = formula(1), and over the reals ContinuousAt at 1 of all twelve public factor functions and of the semi-axes (needle/plate thermodynamic and kinetic factor tend to 1 via asin e/e -> 1 and (log(1+e)-log(1-e))/e -> 2, cuboid kinetic factor tends to 0.968); eq.-radius factor strictly increasing; scalar call = array call element-wise; clamp leaves the argument unchanged; bisection result / iteration-cap / fallback specification, bracket sign and halving invariants by induction, scalar-aspect closed form is an exact root. Generated defs and models are tied to the code by differential correspondence on every run; the property predicates are also evaluated directly on the real functions, the closed forms against scipy quadrature of the area and capacitance integrals.',
    'level_note': 'Monitored only (oracle, not proved): thermodynamic and kinetic factor of needle and plate increase with ar (grids on [1,100] and 1+10^-k); closed forms = the area / capacitance integrals (scipy.integrate.quad, rtol 1e-7); a bracketed root of a continuous objective is found before the 100-iteration cap (oracle on random aspect-ratio functions; the Lean theorem gives the bracket of width (Rmax-Rs)/2^n with a sign change, not convergence in 100 steps). The bracket invariant needs f(RcritSphere) != 0: with an exact root at the lower end the code walks off it and ends in the fallback, which is then that root (counter-example kept in Props/C15.lean). Trusted: Lean kernel + Mathlib, axioms propext/Classical.choice/Quot.sound; the tracer tools/py2lean/sym.py (every generated def re-validated numerically on each run); hand models equal the NumPy code as far as this run compared them; exact-field / real arithmetic instead of IEEE doubles (oracle continuity tolerance 1e-7 relative + 3*10^-k).',
    'technique': 'Lean 4 proof over generated definitions (py2lean) + hand models + differential correspondence + quadrature oracle',
    'design_ref': 'DESIGN.md section 6, C15',
}
LEAN_MODULES = ['KawinV.Props.C15']
MONITORED = [
    'needle/plate thermodynamic and kinetic factor increase with ar: fine grid on [1,100] and 1+10^-k (eq.-radius factor: proved)',
    'closed forms equal the spheroid area and capacitance integrals: scipy.integrate.quad at random ratios',
    'bisection reaches the tolerance before the iteration cap when a root of a continuous objective is strictly bracketed',
    'IEEE evaluation of the factors near ar = 1 stays within 1e-7 of the value at 1 (real-number continuity: proved)',
]
ASSUMPTIONS = [
    'aspect ratios are finite numbers; the statement covers [1, 100] and inputs below 1 (treated as 1)',
    'theorems are over exact ordered-field / real arithmetic; IEEE doubles compared with rtol 1e-9 (looser where the source formula cancels near ar = 1)',
    'the cube-root / power atoms obey cbrt(x)^3 = x and x^(2/3) = cbrt(x)^2 (discharged for the real-number instance)',
]
TRUSTED = ['tools/py2lean/sym.py concolic tracer and emitter (every generated def is re-validated numerically on each run)',
           'np.atleast_1d / boolean-mask assignment / np.squeeze semantics as modelled in KawinV.Shape (compared on every run)']

SHAPES = ['needle', 'plate', 'cuboid', 'sphere']
CLS = {'needle': 'NeedleDescription', 'plate': 'PlateDescription', 'cuboid': 'CuboidalDescription', 'sphere': 'SphereDescription'}
SETTER = {'needle': 'setNeedleShape', 'plate': 'setPlateShape', 'cuboid': 'setCuboidalShape', 'sphere': 'setSpherical'}
INNER = [('_eqRadius', 'eqRadius'), ('_thermoFactor', 'thermoFactor'), ('_kineticFactor', 'kineticFactor')]
WRAP = ['eqRadiusFactor', 'thermoFactor', 'kineticFactor']
MINS = ['eqRadiusFactorMin', 'thermoFactorMin', 'kineticFactorMin']
GEN_FILE = os.path.join(vlib.LEAN, 'KawinV', 'Gen', 'C15Shape.lean')
SRC = 'kawin/precipitation/parameters/ShapeFactors.py'

_MOD = [None]


def load():
    """the ShapeFactors module of the tree under test (it only needs numpy, so it is loaded by path:
    importing kawin.precipitation pulls pycalphad, ~12 s)"""
    if _MOD[0] is None:
        spec = importlib.util.spec_from_file_location('kawin_C15_ShapeFactors', os.path.join(vlib.REPO, SRC))
        m = importlib.util.module_from_spec(spec)
        spec.loader.exec_module(m)
        _MOD[0] = m
    return _MOD[0]


# ------------------------------------------------------------------ translator
def regenerate(ctx):
    sys.path.insert(0, os.path.join(vlib.VERIF, 'tools', 'py2lean'))
    import sym
    from sym import Sym, emit_def
    SF = load()
    saved_pi = np.pi
    src = sym.HEADER + '\nnamespace KawinV.Gen.C15\n\n'
    np.pi = Sym.atom('pi', math.pi)
    try:
        for sh in SHAPES:
            del sym.PATH[:]
            d = getattr(SF, CLS[sh])()           # __init__ runs under the tracer: the …Min constants are traced too
            ar = np.array([Sym.var('ar', 2.5)], dtype=object)
            where = '%s %s' % (SRC, CLS[sh])
            out = d._normalRadii(ar)
            if getattr(out, 'shape', None) != (1, 3):
                raise RuntimeError('%s._normalRadii: unexpected shape %r' % (CLS[sh], getattr(out, 'shape', None)))
            s, _ = emit_def(sh + '_normalRadii', ['ar'], list(out[0]), where + '._normalRadii', ['r0', 'r1', 'r2'])
            src += s
            for meth, nm in INNER:
                out = getattr(d, meth)(ar)
                if getattr(out, 'shape', None) != (1,):
                    raise RuntimeError('%s.%s: unexpected shape' % (CLS[sh], meth))
                s, _ = emit_def('%s_%s' % (sh, nm), ['ar'], Sym.const(out[0]), where + '.' + meth)
                src += s
            for attr in MINS:
                v = getattr(d, attr)
                if isinstance(v, np.ndarray):
                    if v.size != 1:
                        raise RuntimeError('%s.%s is not a scalar' % (CLS[sh], attr))
                    v = v.reshape(-1)[0]
                s, _ = emit_def('%s_%s' % (sh, attr), [], Sym.const(v), where + '.' + attr + ' as computed by __init__')
                src += s
            if sym.PATH:
                raise RuntimeError('%s: the traced formulas branch on the aspect ratio: %r' % (CLS[sh], sym.PATH[:3]))
    finally:
        np.pi = saved_pi
    src += 'end KawinV.Gen.C15\n'
    return [os.path.relpath(GEN_FILE, vlib.VERIF)] if vlib.write_if_changed(GEN_FILE, src) else []


# ------------------------------------------------------------------ helpers
SID = {'needle': 0, 'plate': 1, 'cuboid': 2, 'sphere': 3}
KGRID = list(range(1, 16))                    # 1 + 10^-k
CONT_TOL = 1e-7                               # relative jump tolerated at ar = 1 (see META.level_note)


def desc(SF, sh):
    return getattr(SF, CLS[sh])()


def arfun(kind, p0, p1, p2):
    if kind == 0:
        return lambda R: p0
    if kind == 1:
        return lambda R: p0 + p1 * (R / p2)
    if kind == 2:
        return lambda R: p0 * (R / p2) ** p1
    return lambda R: p0 + p1 / (1.0 + R / p2)


def fine_grid(n):
    """[1, 100]: uniform + logarithmic + 1 + 10^-k, sorted, unique"""
    g = np.concatenate([np.linspace(1.0, 100.0, n), np.exp(np.linspace(0.0, math.log(100.0), n)),
                        1.0 + 10.0 ** (-np.array(KGRID, dtype=float)), [1.0, 100.0]])
    g = np.unique(np.clip(g, 1.0, 100.0))
    return g


# ---- quadrature references (independent of the closed forms)
def quad_area_ratio(a, c):
    """area of the spheroid with equatorial semi-axis a and polar semi-axis c / area of the equal-volume sphere;
    surface of revolution: S = 4 pi a * int_0^c sqrt(1 + z^2 (a^2 - c^2)/c^4) dz"""
    from scipy.integrate import quad
    k = (a * a - c * c) / c ** 4
    val, err = quad(lambda z: math.sqrt(max(0.0, 1.0 + z * z * k)), 0.0, c, epsabs=0, epsrel=1e-12, limit=400)
    S = 4 * math.pi * a * val
    R = (a * a * c) ** (1.0 / 3.0)
    return S / (4 * math.pi * R * R)


def quad_cap_ratio(a, c):
    """capacitance of the spheroid (a, a, c) / equal-volume radius; C = 2 / int_0^inf dt / sqrt((a^2+t)^2 (c^2+t))
    (sphere of radius R: C = R)"""
    from scipy.integrate import quad
    f = lambda t: 1.0 / ((a * a + t) * math.sqrt(c * c + t))
    L = 10.0 * max(a, c) ** 2
    v1, _ = quad(f, 0.0, L, epsabs=0, epsrel=1e-12, limit=400)
    # tail with t = L / u^2, u in (0, 1]:  dt = -2 L / u^3 du
    g = lambda u: (2.0 * L / u ** 3) * f(L / (u * u)) if u > 0 else 0.0
    v2, _ = quad(g, 0.0, 1.0, epsabs=0, epsrel=1e-12, limit=400)
    C = 2.0 / (v1 + v2)
    R = (a * a * c) ** (1.0 / 3.0)
    return C / R


# ------------------------------------------------------------------ oracle predicates on the real functions
# each returns a list of (key, what, observed, required); `args` is JSON-able and enough to replay
def chk_axes(SF, args):
    sh, ars = args['shape'], np.array(args['ars'], dtype=float)
    d = desc(SF, sh)
    out = []
    rad = np.atleast_2d(d.normalRadii(ars.copy()))
    eff = np.maximum(ars, 1.0)
    for i, ar in enumerate(eff):
        r = rad[i]
        vol = r[0] * r[1] * r[2] * (1.0 if sh == 'cuboid' else 4 * math.pi / 3)
        if not close(vol, 1.0, 1e-12):
            out.append(('unit-volume:' + sh, 'semi-axes for ar=%r do not give unit volume' % float(ars[i]), float(vol), 1.0)); break
        lo, hi = float(np.min(r)), float(np.max(r))
        want = 1.0 if sh == 'sphere' else float(ar)
        if not close(hi / lo, want, 1e-12):
            out.append(('aspect:' + sh, 'long/short semi-axis for ar=%r' % float(ars[i]), hi / lo, want)); break
        mid = float(np.sort(r)[1])
        twin = lo if sh in ('needle', 'cuboid') else hi
        if sh != 'sphere' and not close(mid, twin, 1e-14):
            out.append(('axes-pair:' + sh, 'the two equal axes differ for ar=%r' % float(ars[i]), mid, twin)); break
    return out


def chk_quad(SF, args):
    sh, ar = args['shape'], float(args['ar'])
    d = desc(SF, sh)
    out = []
    th, kin, eq = float(d.thermoFactor(ar)), float(d.kineticFactor(ar)), float(d.eqRadiusFactor(ar))
    if sh == 'needle':
        a, c = 1.0, ar
        eqw = ar ** (1 / 3)
    elif sh == 'plate':
        a, c = ar, 1.0
        eqw = ar ** (2 / 3)
    else:   # cuboid: elementary geometry, edges 1, 1, ar
        R = (3 * ar / (4 * math.pi)) ** (1 / 3)
        want = (2 + 4 * ar) / (4 * math.pi * R * R)
        if not close(th, want, 1e-12):
            out.append(('thermo-vs-geometry:cuboid', 'thermoFactor(%r) is not cuboid area / equal-volume sphere area' % ar, th, want))
        if not close(eq, R, 1e-12):
            out.append(('eqradius-vs-geometry:cuboid', 'eqRadiusFactor(%r) is not the equal-volume radius of the 1x1xar cuboid' % ar, eq, R))
        return out
    wa = quad_area_ratio(a, c)
    wc = quad_cap_ratio(a, c)
    if not close(th, wa, 1e-7):
        out.append(('thermo-vs-area-integral:' + sh, 'thermoFactor(%r) differs from the quadrature of the spheroid area / sphere area' % ar, th, wa))
    if not close(kin, wc, 1e-7):
        out.append(('kinetic-vs-capacitance-integral:' + sh, 'kineticFactor(%r) differs from the quadrature of the capacitance / equal-volume radius' % ar, kin, wc))
    if not close(eq, eqw, 1e-12):
        out.append(('eqradius-vs-geometry:' + sh, 'eqRadiusFactor(%r) is not the equal-volume radius for short axis 1' % ar, eq, eqw))
    return out


def chk_at_one(SF, args):
    """wrappers at and below 1: the …Min constants; needle/plate/sphere: exactly 1"""
    sh = args['shape']
    d = desc(SF, sh)
    out = []
    for fn, mn in zip(WRAP, MINS):
        m = float(getattr(d, mn))
        ref = float(getattr(d, fn)(1.0))
        if ref != m:
            out.append(('value-at-1:%s:%s' % (sh, fn), '%s(1) is not the %s constant' % (fn, mn), ref, m))
        if sh != 'cuboid' and ref != 1.0:
            out.append(('value-at-1-is-1:%s:%s' % (sh, fn), '%s(1) != 1' % fn, ref, 1.0))
        for x in args['below']:
            v = float(getattr(d, fn)(x))
            if v != ref:
                out.append(('below-1-as-1:%s:%s' % (sh, fn), '%s(%r) differs from %s(1)' % (fn, x, fn), v, ref)); break
    r1 = np.asarray(d.normalRadii(1.0), dtype=float)
    for x in args['below']:
        rx = np.asarray(d.normalRadii(x), dtype=float)
        if not np.array_equal(rx, r1):
            out.append(('below-1-as-1:%s:normalRadii' % sh, 'normalRadii(%r) differs from normalRadii(1)' % x, rx.tolist(), r1.tolist())); break
    return out


def chk_continuity(SF, args):
    sh, fn, k = args['shape'], args['fn'], int(args['k'])
    d = desc(SF, sh)
    lo, hi = 1.0, 1.0 + 10.0 ** (-k)
    f = getattr(d, fn)
    a, b = np.asarray(f(lo), dtype=float), np.asarray(f(hi), dtype=float)
    tol = CONT_TOL + 3 * 10.0 ** (-k)
    bad = np.abs(b - a) > tol * np.maximum(np.abs(a), 1e-300)
    if np.any(bad):
        return [('continuity-at-1:%s:%s' % (sh, fn), '%s jumps at aspect ratio 1: %s(1) vs %s(1+1e-%d)' % (fn, fn, fn, k),
                 {'ar_lo': lo, 'value_lo': a.tolist(), 'ar_hi': hi, 'value_hi': b.tolist()}, 'relative difference <= %g' % tol)]
    return []


def chk_monotone(SF, args):
    sh, fn = args['shape'], args['fn']
    d = desc(SF, sh)
    g = np.array(args['grid'], dtype=float)
    v = np.asarray(getattr(d, fn)(g.copy()), dtype=float)
    out = []
    if not np.all(np.isfinite(v)):
        i = int(np.argmax(~np.isfinite(v)))
        return [('finite:%s:%s' % (sh, fn), '%s(%r) is not finite' % (fn, float(g[i])), float(v[i]), 'finite')]
    if v[0] != 1.0 or np.any(v < 1.0 - 1e-9):
        i = int(np.argmax(v < 1.0 - 1e-9)) if np.any(v < 1.0 - 1e-9) else 0
        out.append(('at-least-1:%s:%s' % (sh, fn), '%s(%r) < 1 (or != 1 at ar = 1)' % (fn, float(g[i])), float(v[i]), '>= 1, = 1 at ar = 1'))
    dv = np.diff(v)
    # rounding noise of the source formulas near ar = 1 is ~1e-16/e (e = eccentricity, cancellation in
    # log(1+e)-log(1-e) and pi/2-arccos(e)): slack 1e-15/e + 1e-13 relative
    with np.errstate(divide='ignore'):
        ecc = np.sqrt(np.maximum(1.0 - 1.0 / g[:-1] ** 2, 0.0))
        slack = (np.where(ecc > 0, 1e-15 / ecc, 1e-7) + 1e-13) * np.abs(v[1:])
    bad = dv < -slack
    strict = (g[1:] / g[:-1] >= 1.001) & (dv <= 0)
    if np.any(bad) or np.any(strict):
        i = int(np.argmax(bad | strict))
        out.append(('monotone:%s:%s' % (sh, fn), '%s does not increase between ar=%r and ar=%r' % (fn, float(g[i]), float(g[i + 1])),
                    [float(v[i]), float(v[i + 1])], 'increasing'))
    return out


CONTAINERS = ['ndarray', 'ndarray', 'ndarray', 'int-ndarray', 'list', '0d', 'pyfloat', 'npfloat', '2d']


def make_arg(kind, vals):
    if kind == 'ndarray':
        return np.array(vals, dtype=float)
    if kind == 'int-ndarray':
        return np.array([int(round(v)) for v in vals], dtype=int)
    if kind == 'list':
        return [float(v) for v in vals]
    if kind == '0d':
        return np.array(float(vals[0]))
    if kind == 'pyfloat':
        return float(vals[0])
    if kind == 'npfloat':
        return np.float64(vals[0])
    if kind == '2d':
        return np.array(vals, dtype=float).reshape(2, -1)
    raise ValueError(kind)


def snapshot(x):
    return x.copy() if isinstance(x, np.ndarray) else (list(x) if isinstance(x, list) else x)


def same(x, y):
    if isinstance(x, np.ndarray):
        return isinstance(y, np.ndarray) and x.shape == y.shape and x.dtype == y.dtype and np.array_equal(x, y, equal_nan=x.dtype.kind == 'f')
    if isinstance(x, float) and math.isnan(x):
        return isinstance(y, float) and math.isnan(y)
    return type(x) is type(y) and x == y


def run_wrapper(SF, args):
    """call one public wrapper; returns (flat output, argument unchanged?, flat values actually passed)"""
    d = desc(SF, args['shape'])
    x = make_arg(args['container'], args['vals'])
    before = snapshot(x)
    out = getattr(d, args['fn'])(x)
    flat_in = np.asarray(before, dtype=float).reshape(-1)
    return np.asarray(out, dtype=float).reshape(-1), same(before, x), flat_in, (np.asarray(x, dtype=float).reshape(-1))


def chk_wrapper(SF, args):
    """no mutation; array call = scalar calls element-wise"""
    out, unchanged, flat_in, flat_after = run_wrapper(SF, args)
    res = []
    sh, fn = args['shape'], args['fn']
    if not unchanged:
        res.append(('argument-modified:%s' % args['container'], '%s.%s wrote into the caller\'s %s argument' % (CLS[sh], fn, args['container']),
                    flat_after.tolist(), flat_in.tolist()))
    d = desc(SF, sh)
    w = 3 if fn == 'normalRadii' else 1
    sc = []
    for v in flat_in:
        sc += np.asarray(getattr(d, fn)(float(v)), dtype=float).reshape(-1).tolist()
    if len(sc) != len(out) or not all(close(a, b, 1e-13) for a, b in zip(out, sc)):
        res.append(('scalar-vs-array:%s:%s' % (sh, fn), 'array call differs from the scalar calls element by element', out.tolist(), sc))
    return res


def run_bisect(SF, args):
    sf = SF.ShapeFactor()
    k, p0, p1, p2 = args['kind'], args['p0'], args['p1'], args['p2']
    if args.get('scalar_ar'):
        sf.setPrecipitateShape(CLS_NAME[args['shape']], p0)
    else:
        sf.setPrecipitateShape(CLS_NAME[args['shape']], arfun(k, p0, p1, p2))
    sf.tol = args['tol']
    calls = []
    real_tf = sf.thermoFactor

    def counting(R):
        v = real_tf(R)
        calls.append((float(R), float(v)))
        return v
    sf.thermoFactor = counting
    r = float(sf.findRcrit(args['Rs'], args['Rmax']))
    sf.thermoFactor = real_tf
    return sf, r, calls


CLS_NAME = {'needle': 'needle', 'plate': 'plate', 'cuboid': 'cubic', 'sphere': 'sphere'}


def chk_bisect(SF, args):
    sf, r, calls = run_bisect(SF, args)
    Rs, Rmax, tol = args['Rs'], args['Rmax'], args['tol']
    obj = lambda R: R / (Rs * float(sf.thermoFactor(R))) - 1
    out = []
    if args.get('scalar_ar'):
        if abs(obj(r)) > 1e-14:
            out.append(('rcrit-scalar-not-root', 'findRcrit with a scalar aspect ratio is not a root of R = Rs*thermoFactor', obj(r), 0.0))
        return out
    iters = len(calls) - 3
    fmin, fmax = obj(Rs), obj(Rmax)
    if iters >= 100:
        if r != Rs or iters != 100:
            out.append(('bisect-cap', 'after the iteration cap the fallback RcritSphere must be returned (100 iterations)', [r, iters], [Rs, 100]))
        if fmin * fmax < 0 and tol >= 1e-9:
            out.append(('bisect-bracketed-root-not-found', 'objective changes sign on [Rs, Rmax] but the search hit the iteration cap and returned RcritSphere',
                        {'r': r, 'f(Rs)': fmin, 'f(Rmax)': fmax}, '|f(r)| <= tol'))
    else:
        if not (abs(obj(r)) <= tol * (1 + 1e-9)):
            out.append(('bisect-result-not-root', 'returned radius does not satisfy |r/(Rs*f(r)) - 1| <= tol', abs(obj(r)), tol))
        if not (min(Rs, Rmax) <= r <= max(Rs, Rmax)):
            out.append(('bisect-result-outside-bracket', 'returned radius outside [Rs, Rmax]', r, [Rs, Rmax]))
    return out


CHECKS = {'axes': chk_axes, 'quad': chk_quad, 'at_one': chk_at_one, 'continuity': chk_continuity,
          'monotone': chk_monotone, 'wrapper': chk_wrapper, 'bisect': chk_bisect}


def apply_check(res, SF, name, args, short=None):
    """run one oracle predicate; violations carry what replay needs"""
    for key, what, obs, req in CHECKS[name](SF, args):
        res.violate(key, what, {'chk': name, 'args': short if short is not None else args}, obs, req)


# ------------------------------------------------------------------ case generators
def gen_vals(rng, n):
    vals = []
    for _ in range(n):
        c = rng.random()
        if c < 0.25:
            vals.append(rng.choice([0.0, 0.3, 0.5, -2.0, 0.999999, 1.0 - 1e-12, 0.9]))
        elif c < 0.40:
            vals.append(1.0)
        elif c < 0.50:
            vals.append(1.0 + 10.0 ** (-rng.randint(3, 12)))
        elif c < 0.97:
            vals.append(math.exp(rng.uniform(0.0, math.log(100.0))))
        else:
            vals.append(float('nan'))
    return vals


def gen_wrapper_case(rng):
    sh = rng.choice(SHAPES)
    fn = rng.choice(WRAP + ['normalRadii'])
    cont = rng.choice(CONTAINERS)
    if cont == '2d' and fn == 'normalRadii':
        cont = 'ndarray'
    n = 1 if cont in ('0d', 'pyfloat', 'npfloat') else (2 * rng.randint(1, 4) if cont == '2d' else rng.choice([1, 1, 2, 3, 5, 8, 13]))
    vals = gen_vals(rng, n)
    if cont == 'int-ndarray':
        vals = [float(rng.choice([0, 1, 1, 2, 3, 7, 50, -1])) for _ in range(n)]
    if fn == 'normalRadii':
        vals = [v for v in vals if not math.isnan(v)] or [2.0]
        if cont in ('0d', 'pyfloat', 'npfloat'):
            vals = vals[:1]
    return {'shape': sh, 'fn': fn, 'container': cont, 'vals': vals}


def gen_bisect_case(rng):
    sh = rng.choice(['needle', 'needle', 'needle', 'plate', 'plate', 'plate', 'cuboid', 'cuboid', 'sphere'])
    kind = rng.choice([0, 1, 1, 2, 2, 3])
    Rs = 10 ** rng.uniform(-10, -8)
    Rmax = Rs * rng.choice([1.05, 1.3, 2.0, 3.0, 5.0, 10.0, 30.0]) * rng.uniform(1.0, 1.2)
    if kind == 0:
        p0, p1 = rng.choice([0.5, 1.2, 2.3, 7.0, 40.0]), 0.0
    elif kind == 1:
        p0, p1 = rng.choice([0.2, 0.95, 1.0, 1.5, 3.0]), rng.choice([0.1, 0.5, 1.0, 2.0])
    elif kind == 2:
        p0, p1 = rng.choice([0.7, 1.3, 2.3, 5.0]), rng.choice([0.5, 1.1, 2.0, -0.5])
    else:
        p0, p1 = rng.choice([0.5, 1.0, 2.0]), rng.choice([1.0, 5.0, 30.0])
    tol = rng.choice([1e-3, 1e-3, 1e-3, 1e-2, 1e-6, 1e-9])
    return {'shape': sh, 'kind': kind, 'p0': p0, 'p1': p1, 'p2': Rs, 'tol': tol, 'Rs': Rs, 'Rmax': Rmax}


# ------------------------------------------------------------------ correspondence + oracle
def corr(ctx, oracle_only=False, scale=1):
    res = Result()
    res.rule = ('(A) generated defs: 4 shapes x aspect ratios log-uniform/uniform on [1+1e-6, 100] + fixed points; '
                '(B) public wrappers: 4 shapes x {eqRadiusFactor, thermoFactor, kineticFactor, normalRadii} x container '
                '(float/int ndarray, list, 0-d, python/numpy scalar, 2-d) x values below 1 / at 1 / 1+10^-k / up to 100 / NaN; '
                '(C) _findRcrit: 4 shapes x 4 aspect-ratio function families x bracket width x tol; '
                '(D) grids on [1,100] and 1+10^-k, k=1..15, quadrature at random ratios. '
                'non-trivial = aspect ratio > 1 involved (A,B,D) / more than 0 iterations (C); distinct = full case tuple')
    res.monitored = list(MONITORED)
    SF = load()
    rng = ctx.rng
    use_model = ctx.driver_ok and not oracle_only
    lines, after = [], []          # driver lines and what to do with each answer

    # ---------------- (A) translator validation
    nA = ctx.n(300, 20000) * scale
    for sh in SHAPES:
        d = desc(SF, sh)
        ars = [1.000001, 1.001, 1.5, 2.0, 10.0, 100.0]
        ars += [math.exp(rng.uniform(math.log(1.000001), math.log(100.0))) for _ in range(nA // 2)]
        ars += [rng.uniform(1.0001, 100.0) for _ in range(nA // 2)]
        arr = np.array(ars)
        impl = np.column_stack([np.atleast_2d(d._normalRadii(arr.copy())), d._eqRadius(arr.copy()),
                                d._thermoFactor(arr.copy()), d._kineticFactor(arr.copy())])
        mins = [float(getattr(d, m)) for m in MINS]
        for a in ars:
            res.case(('A', sh, a), True)
        res.count('A:' + sh, len(ars))
        if len(res.samples) < 1:
            res.sample({'part': 'A', 'shape': sh, 'ar': ars[7], 'r0 r1 r2 eqRadius thermo kinetic': impl[7].tolist()})
        if use_model:
            lines.append('c15.gen %d %s' % (SID[sh], enc_list(ars))); after.append(('gen', sh, ars, impl))
            lines.append('c15.mins %d' % SID[sh]); after.append(('mins', sh, mins))

    # ---------------- (B) wrappers
    nB = ctx.n(500, 60000) * scale
    for i in range(nB):
        c = gen_wrapper_case(rng)
        try:
            out, unchanged, flat_in, flat_after = run_wrapper(SF, c)
        except Exception as e:
            res.violate('wrapper-raises:%s:%s' % (c['shape'], c['fn']), 'public function raised %r' % e, {'chk': 'wrapper', 'args': c})
            continue
        nontriv = bool(np.any(flat_in > 1))
        res.case(('B', c['shape'], c['fn'], c['container'], tuple(repr(v) for v in c['vals'])), nontriv)
        res.count('B:container:' + c['container']); res.count('B:fn:' + c['fn'])
        res.count('B:has-below-1' if np.any(flat_in < 1) else 'B:all>=1')
        if len(res.samples) < 2:
            res.sample({'part': 'B', **c, 'output': out.tolist()})
        apply_check(res, SF, 'wrapper', c)
        if use_model:
            if c['fn'] == 'normalRadii':
                lines.append('c15.radii %d %s' % (SID[c['shape']], enc_list(flat_in)))
            else:
                lines.append('c15.wrap %d %d %s' % (SID[c['shape']], WRAP.index(c['fn']), enc_list(flat_in)))
            after.append(('wrap', c, out, flat_after))

    # ---------------- (C) bisection
    nC = ctx.n(300, 30000) * scale
    for i in range(nC):
        c = gen_bisect_case(rng)
        sf, r, calls = run_bisect(SF, c)
        iters = len(calls) - 3
        res.case(('C',) + tuple(sorted(c.items())), iters > 0)
        res.count('C:kind%d' % c['kind']); res.count('C:' + c['shape'])
        res.count('C:fallback' if iters >= 100 else 'C:converged')
        Rs, tol = c['Rs'], c['tol']
        fm = [R / (Rs * v) - 1 for R, v in calls]
        res.count('C:bracketed' if fm[0] * fm[1] < 0 else 'C:root-at-Rs' if fm[0] == 0 else 'C:not-bracketed')
        if len(res.samples) < 3:
            res.sample({'part': 'C', **c, 'r': r, 'iterations': iters})
        apply_check(res, SF, 'bisect', c)
        if use_model:
            near = any(abs(abs(f) - tol) <= 1e-9 * tol + 1e-13 for f in fm[2:])
            lines.append('c15.bisect %d %d %s %s %s %s %s %s' % (SID[c['shape']], c['kind'], f2b(c['p0']), f2b(c['p1']), f2b(c['p2']),
                                                               f2b(tol), f2b(Rs), f2b(c['Rmax'])))
            after.append(('bisect', c, r, iters, near, calls))
        res.traces += 1
    # scalar aspect ratio: closed form
    for i in range(ctx.n(60, 3000) * scale):
        sh = rng.choice(SHAPES)
        ar = rng.choice([0.5, 1.0, 1.0 + 1e-9, 2.0, 2.7, 13.0, 100.0, math.exp(rng.uniform(0, math.log(100)))])
        Rs = 10 ** rng.uniform(-10, -8)
        c = {'shape': sh, 'kind': 0, 'p0': ar, 'p1': 0.0, 'p2': 1.0, 'tol': 1e-3, 'Rs': Rs, 'Rmax': 10 * Rs, 'scalar_ar': True}
        res.case(('Cs', sh, ar, Rs), ar > 1)
        res.count('C:scalar-aspect')
        apply_check(res, SF, 'bisect', c)
        if use_model:
            sf, r, _ = run_bisect(SF, c)
            lines.append('c15.rscalar %d %s %s' % (SID[sh], f2b(ar), f2b(Rs))); after.append(('rscalar', c, r))

    # ---------------- model answers
    if use_model:
        ans = vlib.run_driver(PROP, lines)
        for a, what in zip(ans, after):
            t = Toks(a)
            if not t.ok:
                res.disagree('model error ' + str(t.err), what[1] if isinstance(what[1], dict) else what[1:3], 'ok', a); continue
            if what[0] == 'gen':
                _, sh, ars, impl = what
                m = np.array(t.flts()).reshape(len(ars), 6)
                for j, col in enumerate(['normalRadii[0]', 'normalRadii[1]', 'normalRadii[2]', '_eqRadius', '_thermoFactor', '_kineticFactor']):
                    bad = [i for i in range(len(ars)) if not close(impl[i, j], m[i, j], 1e-9)]
                    if bad:
                        i = bad[0]
                        res.disagree('generated def %s_%s' % (sh, col), {'shape': sh, 'ar': ars[i]}, float(impl[i, j]), float(m[i, j]))
            elif what[0] == 'mins':
                _, sh, mins = what
                m = t.flts()
                if not vlib.all_close(mins, m, 1e-12):
                    res.disagree('generated Min constants', {'shape': sh}, mins, m)
            elif what[0] == 'wrap':
                _, c, out, flat_after = what
                marr, msc, mafter = t.flts(), t.flts(), t.flts()
                if not vlib.all_close(out, marr, 1e-9):
                    res.disagree('wrapper array call', c, out.tolist(), marr)
                if not vlib.all_close(marr, msc, 0.0):
                    res.disagree('model: array call != scalar calls', c, marr, msc)
                if not vlib.all_close(flat_after, mafter, 0.0):
                    res.disagree('caller\'s array after the call', c, flat_after.tolist(), mafter)
            elif what[0] == 'bisect':
                _, c, r, iters, near, calls = what
                fb, mit, mr = t.bool(), t.nat(), t.flt()
                if (fb != (iters >= 100)) or mit != iters or not close(mr, r, 1e-12):
                    if near:
                        res.near_tie_skipped += 1
                    else:
                        res.disagree('_findRcrit (fallback, iterations, result)', c, [iters >= 100, iters, r], [fb, mit, mr])
            elif what[0] == 'rscalar':
                _, c, r = what
                if not close(t.flt(), r, 1e-12):
                    res.disagree('_findRcritScalar', c, r, a)

    # ---------------- (D) direct oracle on grids
    g = fine_grid(ctx.n(400, 100000) * scale)
    below = [0.999999999, 0.5, 0.0, -3.0]
    for sh in SHAPES:
        ars = np.concatenate([g, [0.5, 0.0, 1.0]])
        apply_check(res, SF, 'axes', {'shape': sh, 'ars': ars.tolist()}, short={'shape': sh, 'ars': 'fine_grid'})
        apply_check(res, SF, 'at_one', {'shape': sh, 'below': below})
        for fn in WRAP + ['normalRadii']:
            for k in [9] + [k for k in KGRID[5:] if k != 9]:
                apply_check(res, SF, 'continuity', {'shape': sh, 'fn': fn, 'k': k})
                res.case(('D-cont', sh, fn, k), True)
        res.count('D:continuity-probes', 4 * len(KGRID[5:]))
        if sh in ('needle', 'plate'):
            for fn in WRAP:
                apply_check(res, SF, 'monotone', {'shape': sh, 'fn': fn, 'grid': g.tolist()}, short={'shape': sh, 'fn': fn, 'grid': 'fine_grid'})
                res.case(('D-mono', sh, fn, len(g)), True)
        res.count('D:grid-points', len(g))
    nQ = ctx.n(20, 1500) * scale
    for sh in ('needle', 'plate', 'cuboid'):
        for ar in [1.0 + 1e-6, 1.001, 2.0, 100.0] + [math.exp(rng.uniform(0.0, math.log(100.0))) for _ in range(nQ)]:
            apply_check(res, SF, 'quad', {'shape': sh, 'ar': ar})
            res.case(('D-quad', sh, ar), True)
            res.count('D:quadrature' if sh != 'cuboid' else 'D:cuboid-geometry')
    # ShapeFactor (function of radius) delegates to the description with ar(R); argument arrays untouched
    for sh in SHAPES:
        sf = SF.ShapeFactor()
        ident = lambda R: R                      # aspect ratio = the radius array itself (same object)
        sf.setPrecipitateShape(CLS_NAME[sh], ident)
        R = np.array([0.25, 0.75, 1.0, 1.5, 4.0, 60.0])
        R0 = R.copy()
        for fn in WRAP + ['normalRadii']:
            v = getattr(sf, fn)(R)
            w = getattr(sf.description, fn)(R0.copy())
            if not np.array_equal(np.asarray(v), np.asarray(w)):
                res.violate('shapefactor-delegation:%s:%s' % (sh, fn), 'ShapeFactor.%s(R) differs from description.%s(aspectRatio(R))' % (fn, fn),
                            {'chk': 'none', 'shape': sh}, np.asarray(v).tolist(), np.asarray(w).tolist())
            if not np.array_equal(R, R0):
                res.violate('argument-modified:radius-array', 'ShapeFactor.%s(R) with aspectRatio = identity wrote into the radius array' % fn,
                            {'chk': 'none', 'shape': sh, 'fn': fn}, R.tolist(), R0.tolist())
                R = R0.copy()
            res.case(('D-sf', sh, fn), True)
    return res


def search(ctx, broken):
    """something no longer checks: oracle alone on a larger sample"""
    return corr(ctx, oracle_only=True, scale=2)


def replay(ctx, entry):
    v = entry['violation']
    c = v['case']
    SF = load()
    name = c.get('chk')
    if name not in CHECKS:
        r = corr(vlib.Ctx(PROP, entry.get('tier', 'quick'), entry.get('seed', 0)), oracle_only=True)
        hits = [x for x in r.violations if x['key'] == v['key']]
    else:
        args = dict(c['args'])
        if args.get('ars') == 'fine_grid':
            args['ars'] = np.concatenate([fine_grid(400), [0.5, 0.0, 1.0]]).tolist()
        if args.get('grid') == 'fine_grid':
            args['grid'] = fine_grid(400).tolist()
        hits = [{'key': k, 'what': w, 'observed': o, 'required': q} for k, w, o, q in CHECKS[name](SF, args)]
    for x in hits:
        print('  ', x['key'], x['what'], x.get('observed'), x.get('required'))
    return not hits
