"""C10 — diffusivities: correspondence Mobility.py / FreeEnergyHessian.py <-> KawinV.Mob / KawinV.DMu,
the traced tracer formula, the monitored oracle on the shipped databases, and the user-supplied callable tables
(setMobility / setDiffusivity histories on private instances <-> KawinV.MobTable)."""
import math, os, sys, warnings
import numpy as np
import vlib
from vlib import Result, enc_list, enc_ilist, f2b, Toks, close

PROP = 'C10'
GEN_FILE = os.path.join(vlib.LEAN, 'KawinV', 'Gen', 'C10Tracer.lean')
NTRACE = 3       # number of elements in the traced call (the code is a list comprehension over elements)


# ------------------------------------------------------------------ translator piece
def _trace_objects(sym_mod):
    """duck-typed composition set whose temperature, mobilities and corrections are symbolic"""
    from pycalphad import variables as v
    Sym = sym_mod.Sym
    els = ['E%d' % i for i in range(NTRACE)]

    class PR:
        nonvacant_elements = els
        state_variables = [v.N, v.P, v.T]

    class CS:
        phase_record = PR()
        dof = [1.0, 101325.0, Sym.var('T', 900.0)] + [1.0 / NTRACE] * NTRACE
    cal = {e: (lambda i: (lambda dof: Sym.var('m%d' % i, 1e-17 * (1 + i))))(i) for i, e in enumerate(els)}
    cor = {e: Sym.var('c%d' % i, 1.0 + 0.1 * i) for i, e in enumerate(els)}
    return CS(), cal, cor


def regenerate(ctx):
    sys.path.insert(0, os.path.join(vlib.VERIF, 'tools', 'py2lean'))
    vlib.use_repo()
    import sym
    from sym import emit_def
    with warnings.catch_warnings():
        warnings.simplefilter('ignore')
        from kawin.thermo import Mobility as Mob
    del sym.PATH[:]
    cs, cal, cor = _trace_objects(sym)
    params = ['T'] + [x for i in range(NTRACE) for x in ('c%d' % i, 'm%d' % i)]
    names = ['e%d' % i for i in range(NTRACE)]
    src = sym.HEADER + '\nnamespace KawinV.Gen.C10\n\n'
    out = Mob.mobility_from_composition_set(cs, cal, cor)
    if getattr(out, 'shape', None) != (NTRACE,):
        raise RuntimeError('mobility_from_composition_set: unexpected shape %r' % (getattr(out, 'shape', None),))
    s, _ = emit_def('mobility', params, list(out), 'kawin/thermo/Mobility.py mobility_from_composition_set (mobility correction c, callable value m)', names)
    src += s
    out = Mob.tracer_diffusivity(cs, cal, cor)
    if getattr(out, 'shape', None) != (NTRACE,):
        raise RuntimeError('tracer_diffusivity: unexpected shape %r' % (getattr(out, 'shape', None),))
    s, _ = emit_def('tracer', params, list(out), 'kawin/thermo/Mobility.py tracer_diffusivity', names)
    src += s
    if sym.PATH:
        raise RuntimeError('tracer_diffusivity branches on its arguments: %r' % (sym.PATH[:3],))
    src += 'end KawinV.Gen.C10\n'
    return [os.path.relpath(GEN_FILE, vlib.VERIF)] if vlib.write_if_changed(GEN_FILE, src) else []


META = {
    'level_text': 'PARTLY DECIDED BY PROOF (the algebraic clauses; the first sentence of the property - agreement with finite differences, positive definiteness, eigenvalue signs - is a fact about the CALPHAD functions/pycalphad and is only monitored by the oracle). Lean 4 theorems, for any field and any number of elements, about executable models of mobility_matrix / x_to_u_frac, of the bordered-Hessian assembly hessian(), of the row selection in totalddx/dMudX/partialdMudX over an ARBITRARY inverse matrix, of chemical_diffusivity/interdiffusivity, and about the traced tracer_diffusivity: volume-fixed frame (every substitutional column of the mobility matrix sums to zero, hence the substitutional fluxes J = -M.grad(mu) sum to zero for any gradient); tracer = 8.314*T*mobility element-wise and positive with the mobility; dMudX = -B^T K B, symmetric whenever K is, K symmetric whenever the assembled Hessian is, the assembled Hessian symmetric whenever pycalphad\'s site-fraction block is; Gibbs-Duhem for partialdMudX derived from the assembled bordered system at a stationary composition set; Darken: the binary interdiffusivity pipeline equals (x_R D*_k + x_k D*_R) x_k x_R G\'\'/(RT) with G\'\' what dMudX returns, and is positive when mobilities, G\'\' and T are. USER-SUPPLIED CALLABLE TABLES (Model/MobTable.lean: mobCallables/diffCallables of a phase as finite maps element -> function id, the ops setMobility/setDiffusivity with a dict / one callable / element=X, and which table the diffusivity functions read): for every dict, every history and every meaning of the function ids over any field - after setMobility(dict) every element reads its own entry (lookup_after_setAll) and its tracer diffusivity is R*T*M of the function given FOR it (tracer_after_setAll), a later single-element write wins and touches nothing else (last_write_wins, setOne_touches_only_e, setAll_then_keeps, setAll_overrides), the mobility table has priority over the diffusivity table, the tracer depends on T and the element\'s own function only; witness theorems for the late-binding closure variant (late_reads_last, late_binding_witness, late_binding_tracer_witness). Tied to the real class on every run: random op histories on private instances of the shipped databases (incl. the Al-Zr variant without any mobility parameters) against the driver, the real closures identified by probing them at two temperatures. The models are tied to kawin/thermo on every run (inverse Hessian, mobilities, mole fractions captured from real pycalphad composition sets and from duck-typed random phases; outputs compared to rtol 1e-9), and every clause is also evaluated directly on the implementation.',
    'level_note': 'MONITORED ONLY (oracle on grids over the matrix-phase region of the shipped databases; these are facts about the CALPHAD functions and pycalphad\'s derivatives/solver, not about kawin\'s logic, and no theorem covers them): dMudX equals the central finite difference of the equilibrium chemical potentials through getLocalEq; dMudX positive definite; interdiffusivity eigenvalues real and positive (positive scalar for binaries); tracer diffusivities/mobilities positive; stationarity of the converged composition set (hypothesis of the Gibbs-Duhem/Darken theorems, checked numerically as Gibbs-Duhem residual). np.linalg.inv is not modelled (its result is an input; symmetry of the inverse is proved from symmetry of the matrix). Element re-ordering in getInterdiffusivity/getTracerDiffusivity is proved in C11 (Model/Permute.lean, wrapMat_equivariant / wrapVecRef_equivariant); here it is only exercised by a paired evaluation. Exact-field theorems vs IEEE doubles. The statement of C10 is dominated by the monitored clauses: what is PROVED is the algebraic half (tracer = RTM, Darken, volume-fixed frame, symmetry), what decides the first sentence of the property on the databases is the oracle. Known finding (known_findings.txt, key darken-public-diffusivity-only-database): on the diffusivity-only Al-Zr databases the PUBLIC getInterdiffusivity/getTracerDiffusivity pair does not satisfy Darken (solvent tracer reported as exp(0) = 1).',
    'technique': 'Lean 4 proof over fields (Finset sums, Mathlib Matrix for the inverse) + py2lean trace of tracer_diffusivity + model/implementation differential correspondence on captured inverse Hessians + monitored oracle (finite differences, eigenvalues) on the shipped databases',
    'design_ref': 'DESIGN.md section 6, C10',
}
LEAN_MODULES = ['KawinV.Props.C10']
MONITORED = [
    'dMudX equals the central finite difference of equilibrium chemical potentials w.r.t. composition (public getLocalEq), stable matrix-phase region of the shipped databases',
    'dMudX positive definite in the stable single-phase region',
    'interdiffusivity matrix has real positive eigenvalues (positive scalar for a binary)',
    'mobilities / tracer diffusivities from the database callables are positive',
    'converged composition sets are stationary (Gibbs-Duhem residual of partialdMudX ~ 0): hypothesis of gibbs_duhem_of_stationary / darken_pipeline_ref*',
    'element re-ordering of getInterdiffusivity/getTracerDiffusivity (theorems live in C11; paired evaluation here)',
]
ASSUMPTIONS = [
    'temperature positive, substitutional mole fractions do not sum to zero',
    'Darken: binary substitutional phase, mole fractions sum to one, composition set stationary (first-order equilibrium condition), bordered Hessian invertible',
    'exact-field theorems vs IEEE doubles: outputs compared with rtol 1e-9 scaled by the magnitude of the summed terms',
    'user-table histories: user functions are functions of T alone (the documented setMobility/setDiffusivity contract), a dict has distinct keys; a raising call (element=X on a phase without a table) leaves the state unchanged',
    'stable matrix-phase region = sampled box per database filtered by non-positive precipitate driving force w.r.t. the loaded phases',
]
TRUSTED = ['np.linalg.inv (result captured and used as model input)', 'pycalphad phase-record callables (formulahess, formulagrad, formulamole_*, internal_cons_jac) and local_equilibrium',
           'np.matmul / np.sum reduction order (compared to tolerance)']

RGAS = 8.314


# ------------------------------------------------------------------ kawin handles
def _kawin():
    vlib.use_repo()
    with warnings.catch_warnings():
        warnings.simplefilter('ignore')
        from kawin.thermo import FreeEnergyHessian as FEH, Mobility as Mob
    return FEH, Mob


class CaptureInv:
    """records the results of np.linalg.inv while active (None for a call that raised)"""
    def __enter__(self):
        self.orig = np.linalg.inv
        self.calls = []

        def inv(a, *k, **kw):
            try:
                r = self.orig(a, *k, **kw)
            except Exception:
                self.calls.append(None)
                raise
            self.calls.append(np.array(r, dtype=float, copy=True))
            return r
        np.linalg.inv = inv
        return self

    def __exit__(self, *a):
        np.linalg.inv = self.orig
        return False


# ------------------------------------------------------------------ duck-typed phases
class _Sp:
    def __init__(self, name): self.name = name


class _Var:
    def __init__(self, name, sub): self.species = _Sp(name); self.sublattice_index = sub


class StubPR:
    def __init__(self, els, subl, ratios, d2g, dg, dup_constraint, junk):
        from pycalphad import variables as v
        self.nonvacant_elements = list(els)
        self.state_variables = [v.N, v.P, v.T]
        self.num_statevars = 3
        self.variables = [_Var(sp, si) for si, sps in enumerate(subl) for sp in sps]
        self.phase_dof = len(self.variables)
        self.nsub = len(subl)
        self.dup = dup_constraint
        self.num_internal_cons = self.nsub + (1 if dup_constraint else 0)
        self.ratios = ratios
        self._d2g, self._dg, self._junk = d2g, dg, junk

    def formulamole_obj(self, out, dof, idx):
        e = self.nonvacant_elements[idx]
        out[0] = sum(self.ratios[vv.sublattice_index] * dof[3 + i] for i, vv in enumerate(self.variables) if vv.species.name == e)

    def formulamole_grad(self, out, dof, idx):
        e = self.nonvacant_elements[idx]
        out[:] = 0
        for i, vv in enumerate(self.variables):
            if vv.species.name == e:
                out[3 + i] = self.ratios[vv.sublattice_index]

    def formulagrad(self, out, dof):
        out[:3] = self._junk[:3]
        out[3:] = self._dg

    def formulahess(self, out, dof):
        out[:, :] = self._junk[3]          # state-variable rows/columns hold junk: the code must not read them
        out[3:, 3:] = self._d2g

    def internal_cons_jac(self, out, dof):
        out[:, :] = 0
        for i, vv in enumerate(self.variables):
            out[vv.sublattice_index, 3 + i] = 1
        if self.dup:
            out[self.nsub, :] = out[0, :]


class StubCS:
    def __init__(self, pr, dof, X):
        self.phase_record, self.dof, self.X, self.NP = pr, dof, X, 1.0


SUBST = ['AL', 'CR', 'CU', 'FE', 'MG', 'NI', 'SI', 'TI', 'ZR']
INTER = ['B', 'C', 'H', 'N', 'O']


def make_stub(seed, kind):
    """kind: 'subst' | 'interst' | 'binary-stationary' | 'singular'; fully determined by (seed, kind)"""
    import random
    rng = random.Random(seed)
    r = np.random.default_rng(rng.getrandbits(32))
    if kind == 'binary-stationary':
        ns, ni = 2, 0
    elif kind == 'subst':
        ns, ni = rng.randint(2, 5), 0
    elif kind == 'singular':
        ns, ni = rng.randint(2, 3), rng.randint(0, 1)
    else:
        ns, ni = rng.randint(1, 3), rng.randint(1, 2)
    sub_els = sorted(rng.sample(SUBST, ns))
    int_els = sorted(rng.sample(INTER, ni))
    els = sorted(sub_els + int_els)
    va0 = rng.random() < 0.3
    subl = [sub_els + (['VA'] if va0 else [])]
    ratios = [1.0]
    if ni or rng.random() < 0.5:
        va1 = (not ni) or rng.random() < 0.75      # interstitial sublattice without vacancies: vaTerms default 1
        subl.append(int_els + (['VA'] if va1 else []))
        ratios.append(rng.choice([1.0, 3.0, 0.5]))
    y = []
    for si, sps in enumerate(subl):
        w = r.random(len(sps)) + 0.05
        if si == 0 and va0:
            w[-1] = 1e-4 * r.random()
        if si == 1 and 'VA' in sps and len(sps) > 1:
            w[:-1] *= 0.1
        y += list(w / w.sum())
    y = np.array(y)
    T = rng.uniform(500.0, 1800.0)
    dof = np.concatenate(([1.0, 101325.0, T], y))
    p = len(y)
    A = r.normal(size=(p, p)) * 3e4
    d2g = A @ A.T / 3e4 + np.diag(RGAS * T / np.maximum(y, 1e-6))
    d2g = (d2g + d2g.T) / 2
    junk = [r.normal(), r.normal(), r.normal(), r.normal() * 1e5]
    pr = StubPR(els, subl, ratios, d2g, np.zeros(p), kind == 'singular', junk)
    n = len(els)
    moleA = np.zeros(n); dxdy = np.zeros((n, p + 3))
    for A_ in range(n):
        tmp = np.zeros(1); pr.formulamole_obj(tmp, dof, A_); moleA[A_] = tmp[0]
        pr.formulamole_grad(dxdy[A_, :], dof, A_)
    X = moleA / moleA.sum()
    mu = r.normal(size=n) * 5e4
    if kind == 'binary-stationary':
        jac = np.zeros((pr.num_internal_cons, p + 3)); pr.internal_cons_jac(jac, dof)
        lam = r.normal(size=pr.num_internal_cons) * 1e4
        pr._dg = dxdy[:, 3:].T @ mu + jac[:, 3:].T @ lam          # first-order equilibrium condition
    else:
        pr._dg = r.normal(size=p) * 5e4
    cs = StubCS(pr, dof, X)
    mobv = {e: 10 ** r.uniform(-24, -12) for e in els}
    cal = {e: (lambda val: (lambda dof_: val))(mobv[e]) for e in els}
    ck = rng.choice(['none', 'partial', 'full'])
    if ck == 'none':
        cor = None
    else:
        cor = {e: float(10 ** r.uniform(-1, 1)) for e in els if ck == 'full' or rng.random() < 0.5}
    ref = rng.choice(sub_els)
    return dict(kind='stub:' + kind, cs=cs, mu=mu, ref=ref, cal=cal, cor=cor, vacPoor=rng.random() < 0.3,
                desc=dict(kind='stub:' + kind, seed=seed, els=els, subl=subl, ratios=ratios, T=T, y=y.tolist(), ref=ref))


# ------------------------------------------------------------------ real databases
_DB = {}


def _load(name, private=False):
    """private=True: a fresh instance that the caller may reconfigure (user-table histories); never cached here"""
    if name in _DB and not private:
        return _DB[name]
    vlib.use_repo()
    with warnings.catch_warnings():
        warnings.simplefilter('ignore')
        from kawin.thermo import GeneralThermodynamics, BinaryThermodynamics, MulticomponentThermodynamics
        from kawin.tests import datasets as ds
        ex = os.path.join(vlib.REPO, 'examples')
        if name == 'NiCrAl':
            th = MulticomponentThermodynamics(ds.NICRAL_TDB, ['NI', 'CR', 'AL'], ['FCC_A1', 'FCC_L12'], drivingForceMethod='tangent')
        elif name == 'NiAlCr':
            th = MulticomponentThermodynamics(ds.NICRAL_TDB, ['NI', 'AL', 'CR'], ['FCC_A1', 'FCC_L12'], drivingForceMethod='tangent')
        elif name == 'AlCrNi':
            th = MulticomponentThermodynamics(ds.NICRAL_TDB, ['AL', 'CR', 'NI'], ['FCC_A1', 'FCC_L12'], drivingForceMethod='tangent')
        elif name == 'NiAl':
            th = BinaryThermodynamics(ds.NICRAL_TDB, ['NI', 'AL'], ['FCC_A1', 'FCC_L12'], drivingForceMethod='tangent')
        elif name == 'NiCr':
            th = BinaryThermodynamics(ds.NICRAL_TDB, ['NI', 'CR'], ['FCC_A1'], drivingForceMethod='tangent')   # no second phase loaded: box kept inside the gamma field (x_Cr <= 0.30, T >= 1000 K)
        elif name == 'AlZr':
            th = BinaryThermodynamics(ds.ALZR_TDB, ['AL', 'ZR'], ['FCC_A1', 'AL3ZR'], drivingForceMethod='tangent')
        elif name == 'AlZr-nomob':      # the shipped Al-Zr database variant without any mobility/diffusivity parameters
            th = BinaryThermodynamics(ds.ALZR_TDB_NO_MOB, ['AL', 'ZR'], ['FCC_A1', 'AL3ZR'], drivingForceMethod='tangent')
        elif name == 'AlZr-ex':
            th = BinaryThermodynamics(os.path.join(ex, 'AlScZr.tdb'), ['AL', 'ZR'], ['FCC_A1', 'AL3ZR'], drivingForceMethod='tangent')
        elif name == 'FeCrNi':
            th = GeneralThermodynamics(os.path.join(ex, 'FeCrNi.tdb'), ['FE', 'CR', 'NI'], ['FCC_A1', 'BCC_A2'])
        elif name == 'AlMgSi':
            th = MulticomponentThermodynamics(os.path.join(ex, 'AlMgSi.tdb'), ['AL', 'MG', 'SI'],
                                              ['FCC_A1', 'MGSI_B_P', 'MG5SI6_B_DP', 'B_PRIME_L', 'U1_PHASE', 'U2_PHASE'])
        elif name == 'CuTi':
            th = BinaryThermodynamics(os.path.join(ex, 'CuTi.tdb'), ['CU', 'TI'], ['FCC_A1', 'CU4TI'])
        else:
            raise KeyError(name)
        try:
            th.setDFSamplingDensity(2000); th.setEQSamplingDensity(500)
        except Exception:
            pass
    if private:
        return th
    _DB[name] = th
    return th


def _loguni(rng, lo, hi):
    return 10 ** rng.uniform(math.log10(lo), math.log10(hi))


# sampling boxes in the matrix phase (solute order = th.elements[1:-1]); filtered by precipitate driving force
BOXES = {
    'NiCrAl': lambda g: ([g.uniform(0.005, 0.25), g.uniform(0.005, 0.12)], g.uniform(1000, 1500)),
    'NiAlCr': lambda g: ([g.uniform(0.005, 0.12), g.uniform(0.005, 0.25)], g.uniform(1000, 1500)),
    'AlCrNi': None,
    'NiAl': lambda g: (g.uniform(0.002, 0.12), g.uniform(1000, 1500)),
    'NiCr': lambda g: (g.uniform(0.005, 0.30), g.uniform(1000, 1500)),
    'AlZr': lambda g: (_loguni(g, 1e-7, 2e-3), g.uniform(600, 900)),
    'AlZr-ex': lambda g: (_loguni(g, 1e-7, 2e-3), g.uniform(600, 900)),
    'AlZr-nomob': lambda g: (_loguni(g, 1e-7, 2e-3), g.uniform(600, 900)),
    'FeCrNi': lambda g: ([g.uniform(0.02, 0.25), g.uniform(0.08, 0.40)], g.uniform(1200, 1500)),
    'AlMgSi': lambda g: ([_loguni(g, 1e-4, 1e-2), _loguni(g, 1e-4, 1e-2)], g.uniform(700, 850)),
    'CuTi': lambda g: (_loguni(g, 1e-4, 3e-2), g.uniform(800, 1150)),
}


def stable(th, x, T):
    """no precipitate phase among the loaded ones has a positive driving force"""
    for p in th.phases[1:]:
        try:
            dg, _ = th.getDrivingForce(x, T, precPhase=p, removeCache=True)
        except Exception:
            return None
        if not np.all(np.isfinite(dg)) or float(np.max(dg)) > 0:
            return False
    return True


def real_case(seed, name, xT=None):
    import random
    rng = random.Random(seed)
    th = _load(name)
    x, T = xT if xT is not None else BOXES[name](rng)
    phase = th.phases[0]
    st = stable(th, x, T)
    res, css = th.getLocalEq(x, T, 0, [phase])
    cs = css[0]
    mu = np.array(res.chemical_potentials, dtype=float)
    cal = th.mobCallables.get(phase)
    synthetic = cal is None
    els = list(cs.phase_record.nonvacant_elements)
    if synthetic:      # database without mobility parameters (Al-Zr): real thermodynamics, synthetic positive mobilities
        r = np.random.default_rng(rng.getrandbits(32))
        vals = {e: 10 ** r.uniform(-24, -14) for e in els}
        cal = {e: (lambda val: (lambda dof_: val))(vals[e]) for e in els}
    cor = dict(th.mobility_correction)
    return dict(kind='real:' + name, db=name, th=th, x=x, T=T, stable=st, cs=cs, mu=mu, ref=th.elements[0], cal=cal, cor=cor,
                vacPoor=False, synthetic=synthetic, converged=bool(getattr(res, 'converged', True)),
                desc=dict(kind='real:' + name, seed=seed, x=x, T=T, phase=phase, ref=th.elements[0], synthetic_mobility=synthetic, stable=st))


# ------------------------------------------------------------------ evaluation of one case on the implementation
def gather(case):
    """calls the real functions; captures the model inputs"""
    FEH, Mob = _kawin()
    cs, mu, ref, cal, vp = case['cs'], case['mu'], case['ref'], case['cal'], case['vacPoor']
    cor = lambda: (None if case['cor'] is None else dict(case['cor']))
    pr = cs.phase_record
    els = list(pr.nonvacant_elements)
    n = len(els); p = pr.phase_dof; k = pr.num_internal_cons; sv = pr.num_statevars
    dof = np.array(cs.dof, dtype=float)
    o = dict(els=els, n=n, p=p, k=k, size=p + k + 1 + n, i0=p + k + 1, refIdx=els.index(ref), dof=dof)
    o['T'] = float(dof[pr.state_variables.index(__import__('pycalphad').variables.T)])
    # inputs of hessian(), obtained the way the code obtains them
    dxdy = np.zeros((n, len(dof))); moleA = np.zeros((n, 1))
    for A in range(n):
        pr.formulamole_grad(dxdy[A, :], cs.dof, A)
        pr.formulamole_obj(moleA[A, :], cs.dof, A)
    dg = np.zeros(len(dof)); pr.formulagrad(dg, cs.dof)
    d2g = np.zeros((len(dof), len(dof))); pr.formulahess(d2g, cs.dof)
    jac = np.zeros((k, len(dof))); pr.internal_cons_jac(jac, cs.dof)
    o.update(d2g=d2g[sv:, sv:].copy(), dg=dg[sv:].copy(), jac=jac[:, sv:].copy(), dxdy=dxdy[:, sv:].copy(), moleA=moleA[:, 0].copy())
    o['X'] = np.array(cs.X, dtype=float)
    # the real functions
    o['H'] = FEH.hessian(mu, cs)
    with CaptureInv() as cap:
        o['ddx'] = FEH.totalddx(mu, cs, ref)
    o['K'] = cap.calls[-1] if cap.calls else None
    o['ninv'] = len(cap.calls)
    o['tot'] = FEH.dMudX(mu, cs, ref)
    o['par'] = FEH.partialdMudX(mu, cs)
    o['mob'] = np.array(Mob.mobility_from_composition_set(cs, cal, cor()), dtype=float)
    o['tracer'] = np.array(Mob.tracer_diffusivity(cs, cal, cor()), dtype=float)
    o['Mm'] = Mob.mobility_matrix(cs, cal, cor(), vp)
    o['Dkj'], o['hret'] = Mob.chemical_diffusivity(mu, cs, cal, cor(), True, vp)
    o['Dn'], _ = Mob.interdiffusivity(mu, cs, ref, cal, cor(), False, vp)
    # per-element correction and raw callable value (inputs of the traced formula)
    cd = case['cor'] or {}
    o['corr'] = np.array([float(cd.get(e, 1)) for e in els])
    o['raw'] = np.array([float(cal[e](dof)) for e in els])
    # interstitial flags and vacancy terms (inputs of the mobility-matrix model)
    o['interst'] = [1 if e in Mob.interstitials else 0 for e in els]
    va, it = {}, {}
    for i, vv in enumerate(pr.variables):
        if vv.species.name == 'VA':
            va[vv.sublattice_index] = float(dof[len(pr.state_variables) + i])
        if vv.species.name in Mob.interstitials:
            it[vv.species.name] = vv.sublattice_index
    o['yVa'] = np.array([va.get(it[e], 1.0) if e in it else 1.0 for e in els])
    return o


# ------------------------------------------------------------------ protocol lines for the model
def model_lines(case, o, g):
    n, p, k, size, i0, ref = o['n'], o['p'], o['k'], o['size'], o['i0'], o['refIdx']
    mu = case['mu']
    hasK = o['K'] is not None
    Kl = enc_list(o['K'].ravel()) if hasK else enc_list([])
    it = enc_ilist(o['interst']); vp = vlib.enc_bool(case['vacPoor'])
    L = ['c10.hess %d %d %d %s %s %s %s %s %s' % (p, k, n, enc_list(o['d2g'].ravel()), enc_list(o['dg']), enc_list(mu),
                                                  enc_list(o['jac'].ravel()), enc_list(o['dxdy'].ravel()), enc_list(o['moleA'])),
         'c10.dmu %d %d %d %d %s %s' % (size, i0, n, ref, vlib.enc_bool(hasK), Kl),
         'c10.mob %d %s %s %s %s %s %s' % (n, it, vp, enc_list(o['X']), enc_list(o['mob']), enc_list(o['yVa']), enc_list(g)),
         'c10.inter %d %d %d %d %s %s %s %s %s %s %s' % (size, i0, n, ref, it, vp, enc_list(o['X']), enc_list(o['mob']), enc_list(o['yVa']),
                                                         vlib.enc_bool(hasK), Kl)]
    ntr = 0
    for a in range(0, n, 3):
        idx = [min(a + j, n - 1) for j in range(3)]
        L.append('c10.tracer %s %s' % (f2b(o['T']), ' '.join('%s %s' % (f2b(o['corr'][i]), f2b(o['raw'][i])) for i in idx)))
        ntr += 1
    dark = n == 2 and not any(o['interst'])
    if dark:
        kk = 1 - ref
        L.append('c10.darken %s %s %s %s %s %s %s' % (f2b(o['X'][kk]), f2b(o['X'][ref]), f2b(o['mob'][kk]), f2b(o['mob'][ref]),
                                                      f2b(o['tot'][0, 0]), f2b(RGAS), f2b(o['T'])))
    return L, ntr, dark


def _mat(t, r, c):
    v = t.flts()
    if len(v) != r * c:
        raise ValueError('model answered %d numbers for a %dx%d matrix' % (len(v), r, c))
    return np.array(v).reshape(r, c)


def mclose(a, b, rtol, scale=0.0):
    a = np.asarray(a, dtype=float).ravel(); b = np.asarray(b, dtype=float).ravel()
    return len(a) == len(b) and all(close(x, y, rtol, scale) for x, y in zip(a, b))


def compare_model(res, case, o, g, answers, ntr, dark):
    d = case['desc']
    n, size = o['n'], o['size']
    it = iter(answers)

    def nxt(what):
        t = Toks(next(it))
        if not t.ok:
            res.disagree(what + ': model error ' + str(t.err), d, 'ok', t.err)
            return None
        return t
    t = nxt('c10.hess')
    if t is not None:
        mH = _mat(t, size, size)
        if not mclose(o['H'], mH, 1e-9, 1e-300):
            res.disagree('hessian() assembly', d, o['H'].tolist(), mH.tolist())
    t = nxt('c10.dmu')
    if t is not None:
        mddx = _mat(t, size, n - 1); mtot = _mat(t, n - 1, n - 1); mpar = _mat(t, n, n)
        ks = float(np.abs(o['K']).max()) if o['K'] is not None else 0.0
        kmu = float(np.abs(o['K'][o['i0']:, o['i0']:]).max()) if o['K'] is not None else 0.0
        if not mclose(o['ddx'], mddx, 1e-9, ks * 1e-3):
            res.disagree('totalddx', d, np.asarray(o['ddx']).tolist(), mddx.tolist())
        if not mclose(o['tot'], mtot, 1e-9, kmu):
            res.disagree('dMudX', d, o['tot'].tolist(), mtot.tolist())
        if not mclose(o['par'], mpar, 1e-9, 1e-300):
            res.disagree('partialdMudX', d, np.asarray(o['par']).tolist(), mpar.tolist())
    t = nxt('c10.mob')
    if t is not None:
        t.flts(); t.flt(); mMm = _mat(t, n, n); mJ = np.array(t.flts()); mJs = t.flt()
        if not mclose(o['Mm'], mMm, 1e-9, 1e-300):
            res.disagree('mobility_matrix', d, o['Mm'].tolist(), mMm.tolist())
        J = -(o['Mm'] @ g)
        sc = float(np.abs(o['Mm'] * g[None, :]).sum(axis=1).max())
        if not mclose(J, mJ, 1e-9, sc):
            res.disagree('flux -M.g', d, J.tolist(), mJ.tolist())
    t = nxt('c10.inter')
    if t is not None:
        mDkj = _mat(t, n, n); mDn = _mat(t, n - 1, n - 1)
        sc = float((np.abs(o['Mm']) @ np.abs(o['par'])).max())
        if not mclose(o['Dkj'], mDkj, 1e-9, sc):
            res.disagree('chemical_diffusivity', d, o['Dkj'].tolist(), mDkj.tolist())
        if not mclose(o['Dn'], mDn, 1e-9, sc):
            res.disagree('interdiffusivity', d, o['Dn'].tolist(), mDn.tolist())
    for a in range(ntr):
        t = nxt('c10.tracer')
        if t is not None:
            mm = t.flts(); mt = t.flts()
            idx = [min(3 * a + j, n - 1) for j in range(3)]
            if not mclose(o['mob'][idx], mm, 1e-12) or not mclose(o['tracer'][idx], mt, 1e-12):
                res.disagree('traced mobility/tracer formula', d, [o['mob'][idx].tolist(), o['tracer'][idx].tolist()], [mm, mt])
    if dark:
        t = nxt('c10.darken')
        if t is not None:
            md = t.flt()
            if case.get('stationary', False) and not close(float(o['Dn'][0, 0]), md, case.get('darken_tol', 1e-7)):
                res.disagree('interdiffusivity vs Lean Darken combination', d, float(o['Dn'][0, 0]), md)


# ------------------------------------------------------------------ direct oracle on the implementation
def oracle_algebra(res, case, o, g, tag):
    d = case['desc']
    n = o['n']; it = o['interst']; Mm = np.asarray(o['Mm'], dtype=float)
    sub = [a for a in range(n) if not it[a]]
    # tracer = R T M
    want = RGAS * o['T'] * o['mob']
    if not mclose(o['tracer'], want, 1e-12):
        res.violate('tracer-not-RTM:' + tag, 'tracer_diffusivity is not 8.314*T*mobility', d, o['tracer'].tolist(), want.tolist())
    if not mclose(o['mob'], o['corr'] * o['raw'], 1e-12):
        res.violate('mobility-not-correction-times-callable:' + tag, 'mobility_from_composition_set is not correction*callable', d,
                    o['mob'].tolist(), (o['corr'] * o['raw']).tolist())
    # volume-fixed frame: substitutional column sums and flux sum
    usum = float(sum(o['X'][a] for a in sub))
    if usum != 0 and np.all(np.isfinite(Mm)):
        for b in range(n):
            col = float(sum(Mm[a, b] for a in sub)); sc = float(sum(abs(Mm[a, b]) for a in sub))
            if abs(col) > 1e-9 * sc:
                res.violate('mobmatrix-column-sum:' + tag, 'column %d of the substitutional block of mobility_matrix does not sum to zero' % b, d, col, 0.0)
                break
        J = -(Mm @ g)
        js = float(sum(J[a] for a in sub)); sc = float(sum(np.abs(Mm[a, :] * g).sum() for a in sub))
        if abs(js) > 1e-9 * sc:
            res.violate('subst-flux-sum:' + tag, 'substitutional fluxes -M.grad(mu) do not sum to zero', dict(d, grad=g.tolist()), js, 0.0)
        for a in range(n):          # interstitial rows/columns: diagonal only
            if it[a] and (np.abs(np.delete(Mm[a, :], a)).max(initial=0.0) != 0 or np.abs(np.delete(Mm[:, a], a)).max(initial=0.0) != 0):
                res.violate('interstitial-offdiagonal:' + tag, 'interstitial element %d has off-diagonal mobility entries' % a, d)
    # symmetry of dMudX when the site-fraction Hessian block is symmetric
    tot = np.asarray(o['tot'], dtype=float)
    if o['K'] is not None and np.abs(o['d2g'] - o['d2g'].T).max() <= 1e-12 * np.abs(o['d2g']).max():
        Hs = np.abs(o['H'] - o['H'].T).max()
        if Hs > 1e-12 * np.abs(o['H']).max():
            res.violate('hessian-asymmetric:' + tag, 'hessian() is not symmetric although the site-fraction block is', d, float(Hs), 0.0)
        if np.abs(tot - tot.T).max() > 1e-8 * np.abs(tot).max():
            res.violate('dmudx-asymmetric:' + tag, 'dMudX is not symmetric', d, tot.tolist(), None)
        # -B^T K B, computed independently from the captured inverse
        i0, ref = o['i0'], o['refIdx']
        nr = [a for a in range(n) if a != ref]
        B = np.zeros((o['size'], n - 1))
        for c, a in enumerate(nr):
            B[i0 + a, c] = 1; B[i0 + ref, c] = -1
        want = -(B.T @ o['K'] @ B)
        if not mclose(tot, want, 1e-9, float(np.abs(o['K'][i0:, i0:]).max())):
            res.violate('dmudx-not-BtKB:' + tag, 'dMudX is not -B^T.inv(H).B', d, tot.tolist(), want.tolist())
    if o['K'] is None and (np.abs(tot).max() != 0 or np.abs(o['par']).max() != 0):
        res.violate('singular-not-zero:' + tag, 'inversion failed but dMudX/partialdMudX are not zero', d)


def oracle_darken(res, case, o, tag, tol):
    """binary substitutional: Gibbs-Duhem residual of the partial matrix and the Darken identity"""
    d = case['desc']
    if not (o['n'] == 2 and not any(o['interst']) and o['K'] is not None):
        return
    X, P = o['X'], np.asarray(o['par'], dtype=float)
    ref = o['refIdx']; k = 1 - ref
    gd = X @ P
    sc = np.abs(X[:, None] * P).sum(axis=0)
    res.extra['gd_residual_max'] = max(res.extra.get('gd_residual_max', 0.0), float((np.abs(gd) / sc).max()))
    if np.any(np.abs(gd) > tol * sc):
        res.violate('gibbs-duhem-residual:' + tag, 'partialdMudX does not satisfy Gibbs-Duhem (composition set not stationary)', d, gd.tolist(), 0.0)
        return
    G2 = float(o['tot'][0, 0])
    T = o['T']
    Dk, DR = RGAS * T * o['mob'][k], RGAS * T * o['mob'][ref]
    want = (X[ref] * Dk + X[k] * DR) * (X[k] * X[ref] * G2 / (RGAS * T))
    got = float(o['Dn'][0, 0])
    res.extra['darken_relerr_max'] = max(res.extra.get('darken_relerr_max', 0.0), abs(got - want) / max(abs(want), 1e-300))
    if not close(got, want, tol):
        res.violate('darken:' + tag, 'binary interdiffusivity is not (x_R D*_k + x_k D*_R) x_k x_R G\'\'/(RT)', d, got, want)
    res.count('darken-checked')


def fd_dmudx(th, x, T, phase):
    """central finite differences (Richardson) of the equilibrium chemical potentials through getLocalEq"""
    els = list(th.elements[:-1]); alpha = sorted(els); ref = els[0]
    sol = [e for e in alpha if e != ref]
    user = els[1:]
    xv = np.atleast_1d(np.array(x, dtype=float))
    xr = 1.0 - xv.sum()
    n = len(sol)
    ri = alpha.index(ref)

    def mu_at(xx):
        r, _ = th.getLocalEq(xx if len(xx) > 1 else float(xx[0]), T, 0, [phase])
        return np.array(r.chemical_potentials, dtype=float)

    J = np.zeros((n, n))
    for c, e in enumerate(sol):
        kx = user.index(e)
        h = min(2e-4, 0.05 * xv[kx], 0.05 * xr)

        def der(hh):
            xp = xv.copy(); xp[kx] += hh; xm = xv.copy(); xm[kx] -= hh
            return (mu_at(xp) - mu_at(xm)) / (2 * hh)
        dd = (4 * der(h / 2) - der(h)) / 3
        for cp, e2 in enumerate(sol):
            J[cp, c] = dd[alpha.index(e2)] - dd[ri]
    return J


def oracle_monitored(res, case, o, tag):
    """facts about the CALPHAD functions: evaluated on stable matrix-phase points of the shipped databases only"""
    d = case['desc']
    th = case['th']; x, T = case['x'], case['T']
    tot = np.asarray(o['tot'], dtype=float)
    sym = (tot + tot.T) / 2
    ev = np.linalg.eigvalsh(sym)
    if not (ev.min() > 0):
        res.violate('not-positive-definite:' + tag, 'dMudX is not positive definite in the stable matrix region', d, ev.tolist(), '> 0')
    J = fd_dmudx(th, x, T, th.phases[0])
    err = float(np.abs(J - tot).max() / np.abs(tot).max())
    res.extra['fd_relerr_max'] = max(res.extra.get('fd_relerr_max', 0.0), err)
    if err > FD_TOL:
        res.violate('fd-mismatch:' + tag, 'dMudX differs from the finite-difference derivative of the equilibrium chemical potentials', d, tot.tolist(), J.tolist())
    if not case['synthetic']:
        if not np.all(o['tracer'] > 0) or not np.all(o['mob'] > 0):
            res.violate('tracer-nonpositive:' + tag, 'tracer diffusivity / mobility not positive', d, o['tracer'].tolist(), '> 0')
    Dn = np.asarray(o['Dn'], dtype=float)
    w = np.linalg.eigvals(Dn)
    if np.any(np.abs(w.imag) > 1e-9 * np.abs(w).max()) or not np.all(w.real > 0):
        res.violate('interdiffusivity-eigenvalues:' + tag, 'interdiffusivity eigenvalues are not real and positive', d, [complex(z).__repr__() for z in w], 'real > 0')
    res.count('monitored-point:' + tag)


FD_TOL = 5e-5     # observed maximum over 8000 points of all five databases: 3e-6


def oracle_public(res, case, o, tag):
    """public API: getInterdiffusivity / getTracerDiffusivity are the function outputs re-ordered to the user's element order"""
    if case['synthetic']:
        return
    d = case['desc']; th = case['th']; x, T = case['x'], case['T']
    els = o['els']; ref = case['ref']
    user = list(th.elements[1:-1]); alpha_nr = [e for e in els if e != ref]
    D = np.atleast_2d(np.asarray(th.getInterdiffusivity(x, T), dtype=float))
    want = np.array([[o['Dn'][alpha_nr.index(a), alpha_nr.index(b)] for b in user] for a in user])
    if not mclose(D, want, 1e-7, float(np.abs(want).max()) * 1e-3):
        res.violate('public-interdiffusivity-order:' + tag, 'getInterdiffusivity is not interdiffusivity() in the user element order', d, D.tolist(), want.tolist())
    tr = np.asarray(th.getTracerDiffusivity(x, T), dtype=float)
    uall = list(th.elements[:-1])
    wt = np.array([o['tracer'][els.index(e)] for e in uall])
    if not mclose(tr, wt, 1e-7):
        res.violate('public-tracer-order:' + tag, 'getTracerDiffusivity is not tracer_diffusivity() in the user element order', d, tr.tolist(), wt.tolist())


def oracle_public_vector(res, case, o, tag):
    """array calls of the public API: one composition at two temperatures (and a second composition) in ONE call answer, point by
    point, what the scalar calls answer - the value handed out for (x, T2) is the interdiffusivity / tracer diffusivity AT (x, T2)"""
    if case['synthetic']:
        return
    d = case['desc']; th = case['th']; x, T = case['x'], case['T']
    T2 = T + (40.0 if T < 1400 else -40.0)
    x2 = [v * 0.93 for v in x] if isinstance(x, (list, tuple, np.ndarray)) else x * 0.93
    pts = [(x, T), (x, T2), (x2, T2), (x, T)]
    xs = [q[0] for q in pts]; Ts = [q[1] for q in pts]
    Dv = np.asarray(th.getInterdiffusivity(xs, Ts), dtype=float)
    tv = np.asarray(th.getTracerDiffusivity(xs, Ts), dtype=float)
    for i, (xi, Ti) in enumerate(pts[:3]):
        Ds = np.asarray(th.getInterdiffusivity(xi, Ti), dtype=float)
        ts = np.asarray(th.getTracerDiffusivity(xi, Ti), dtype=float)
        dd = dict(d, point=i, x_i=np.asarray(xi).tolist(), T_i=Ti, call='x=%r, T=%r' % (np.asarray(xs).tolist(), Ts))
        if not mclose(np.atleast_2d(Dv[i]), np.atleast_2d(Ds), 1e-6, float(np.abs(Ds).max()) * 1e-3):
            res.violate('public-array-call-interdiffusivity:' + tag, 'entry %d of an array call of getInterdiffusivity is not the interdiffusivity at that '
                        '(composition, temperature)' % i, dd, np.asarray(Dv[i]).tolist(), Ds.tolist())
        if not mclose(np.atleast_1d(tv[i]), np.atleast_1d(ts), 1e-6):
            res.violate('public-array-call-tracer:' + tag, 'entry %d of an array call of getTracerDiffusivity is not the tracer diffusivity at that '
                        '(composition, temperature)' % i, dd, np.asarray(tv[i]).tolist(), ts.tolist())
    res.count('public-array-call-checked:' + tag)


KEY_DIFFONLY = 'darken-public-diffusivity-only-database'


def oracle_public_diffonly(res, case, o, tag):
    """public API on a phase that has DQ/DF parameters only (Al-Zr): getInterdiffusivity takes the *_from_diff path"""
    th = case['th']; phase = th.phases[0]
    if th.mobCallables.get(phase) is not None or th.diffCallables.get(phase) is None or o['n'] != 2:
        return
    x, T = case['x'], case['T']
    D = float(np.squeeze(th.getInterdiffusivity(x, T)))
    tr = np.asarray(th.getTracerDiffusivity(x, T), dtype=float)          # user order: [reference, solute]
    ref = o['refIdx']; k = 1 - ref
    X = o['X']
    phi = X[k] * X[ref] * float(o['tot'][0, 0]) / (RGAS * T)
    want = (X[ref] * tr[1] + X[k] * tr[0]) * phi
    res.count('public-diffusivity-only-point:' + tag)
    if not (D > 0) or not np.all(tr > 0):
        res.violate('public-diffusivity-nonpositive:' + tag, 'public diffusivities not positive', case['desc'], [D, tr.tolist()], '> 0')
    if not close(D, want, 1e-6):
        res.violate(KEY_DIFFONLY, 'getInterdiffusivity is not the Darken combination of getTracerDiffusivity and the thermodynamic factor '
                    '(phase with diffusivity parameters only: tracer of the element without parameters is exp(0) = %g)' % tr[0],
                    dict(case['desc'], tracer=tr.tolist(), phi=phi), D, want)


def oracle_pair(res, seed, xT):
    """paired evaluation NI-CR-AL vs NI-AL-CR (theorems in C11)"""
    a = _load('NiCrAl'); b = _load('NiAlCr')
    (xcr, xal), T = xT
    D1 = np.asarray(a.getInterdiffusivity([xcr, xal], T)); D2 = np.asarray(b.getInterdiffusivity([xal, xcr], T))
    t1 = np.asarray(a.getTracerDiffusivity([xcr, xal], T)); t2 = np.asarray(b.getTracerDiffusivity([xal, xcr], T))
    d = dict(kind='pair:NiCrAl/NiAlCr', x=[xcr, xal], T=T, seed=seed)
    if not mclose(D1, D2[::-1, ::-1], 1e-6, float(np.abs(D1).max()) * 1e-3):
        res.violate('elem-order:interdiffusivity', 'getInterdiffusivity is not equivariant under re-ordering of the solutes', d, D1.tolist(), D2.tolist())
    if not mclose(t1, t2[[0, 2, 1]], 1e-6):
        res.violate('elem-order:tracer', 'getTracerDiffusivity is not equivariant under re-ordering of the solutes', d, t1.tolist(), t2.tolist())
    res.count('pair-checked')


# ------------------------------------------------------------------ user-supplied callable tables (setMobility / setDiffusivity)
NPOOL = 5
_UDB = {}


def _load_user(name):
    """private instance + what its tables were after construction (restored before every case)"""
    if name not in _UDB:
        th = _load(name, private=True)
        phase = th.phases[0]
        _UDB[name] = (th, phase, th.mobCallables.get(phase), th.diffCallables.get(phase))
    return _UDB[name]


def make_pool(rng):
    """NPOOL Arrhenius functions A.exp(-Q/(R.T)), strictly ordered at every temperature and >= 1.5 decades apart:
    a function is identified by its values at two temperatures"""
    la = rng.uniform(-16.0, -12.0)
    A, Q = [], sorted(rng.uniform(5e4, 1.5e5) for _ in range(NPOOL))
    for _ in range(NPOOL):
        A.append(10 ** la)
        la -= rng.uniform(1.5, 2.5)
    return list(zip(A, Q))


def pool_func(A, Q):
    return lambda T: A * math.exp(-Q / (RGAS * T))


def make_history(rng, n):
    """ops: ('A', w, [(e, f), ...]) dict in that key order | ('S', w, f) one callable | ('O', w, e, f, [(e', f'), ...], pos)
    element=e with a dict that may carry further (ignored) entries; w = 'M' setMobility | 'D' setDiffusivity"""
    ops = []
    nops = rng.randint(1, 5)
    for i in range(nops):
        w = 'M' if rng.random() < 0.7 else 'D'
        r = rng.random()
        if r < (0.65 if i == 0 else 0.4):
            keys = list(range(n)); rng.shuffle(keys)
            if n > 1 and rng.random() < 0.1:
                keys = keys[:rng.randint(1, n - 1)]          # partial dict: the other elements are left without a callable
            if rng.random() < 0.85:
                fids = rng.sample(range(NPOOL), len(keys))   # all different
            else:
                fids = [rng.randrange(NPOOL) for _ in keys]
            ops.append(('A', w, list(zip(keys, fids))))
        elif r < (0.75 if i == 0 else 0.55):
            ops.append(('S', w, rng.randrange(NPOOL)))
        else:
            e = rng.randrange(n)
            extra = [(x, rng.randrange(NPOOL)) for x in range(n) if x != e and rng.random() < 0.4]
            ops.append(('O', w, e, rng.randrange(NPOOL), extra, rng.randint(0, len(extra))))
    return ops


def enc_op(op):
    if op[0] == 'A':
        return 'A %s %d %s' % (op[1], len(op[2]), ' '.join('%d %d' % p for p in op[2]))
    if op[0] == 'S':
        return 'S %s %d' % (op[1], op[2])
    return 'O %s %d %d' % (op[1], op[2], op[3])


def spec_step(state, op, n):
    """the documented behaviour, on plain dicts (None = the phase has no table): returns raised"""
    w = op[1]
    if op[0] == 'A':
        state[w] = {e: f for e, f in op[2]}          # a new table: every element bound to its own entry
    elif op[0] == 'S':
        state[w] = {e: op[2] for e in range(n)}
    else:
        if state[w] is None:
            return True
        state[w][op[2]] = op[3]                      # last write for that element wins, nothing else touched
    return False


def spec_read(state, e):
    for w in ('M', 'D'):
        if state[w] is not None:
            return (w, state[w][e]) if e in state[w] else ('K', None)
    return ('N', None)


def apply_op(th, phase, els, funcs, op):
    setter = th.setMobility if op[1] == 'M' else th.setDiffusivity
    if op[0] == 'A':
        setter({els[e]: funcs[f] for e, f in op[2]}, phase)
    elif op[0] == 'S':
        setter(funcs[op[2]], phase)
    else:
        items = list(op[4]); items.insert(op[5], (op[2], op[3]))
        setter({els[e]: funcs[f] for e, f in items}, phase, element=els[op[2]])


def probe_table(tab, init, base, els, dofs, Ts, funcs):
    """identify every entry of a callable table: -2 no table, -1 no entry, 1000+e / 2000+e the database's own callable
    (object identity), f < NPOOL the user's function with the same values at both probe temperatures, -3 none of them"""
    if tab is None:
        return [-2] * len(els)
    out = []
    for i, e in enumerate(els):
        if e not in tab:
            out.append(-1); continue
        c = tab[e]
        if init is not None and c is init.get(e):
            out.append(base + i); continue
        vals = [float(c(d)) for d in dofs]
        hit = [f for f in range(len(funcs)) if all(close(vals[j], funcs[f](Ts[j]), 1e-12) for j in range(len(Ts)))]
        out.append(hit[0] if len(hit) == 1 else -3)
    return out


def user_eval(res, U, x, T, state, tag, where):
    """one evaluation point after some prefix of the history: public API + module functions vs the functions the user gave.
    Returns what the model is compared with (None when the point could not be evaluated)."""
    FEH, Mob = _kawin()
    th, phase, els, n, funcs, corr = U['th'], U['phase'], U['els'], U['n'], U['funcs'], U['corr']
    d = dict(U['desc'], x=x, T=T, after=where)
    reads = [spec_read(state, i) for i in range(n)]
    bad = [r[0] for r in reads if r[0] in ('K', 'N')]
    uall = list(th.elements[:-1]); ref = th.elements[0]
    if bad:
        # the table in use lacks an element (or there is none): the implementation raises KeyError / ValueError
        try:
            tr = th.getTracerDiffusivity(x, T)
        except (KeyError, ValueError, TypeError) as e:
            res.count('user-read-raises:' + type(e).__name__)
            return dict(raised=True)
        res.disagree('reading a callable table that lacks an element does not raise', d, np.asarray(tr, dtype=float).tolist(), 'KeyError / ValueError')
        return dict(raised=True)
    eq, css = th.getLocalEq(x, T, 0, [phase])
    cs = css[0]
    mu = np.array(eq.chemical_potentials, dtype=float)
    dof = np.array(cs.dof, dtype=float)
    Tcs = float(dof[U['Tidx']])
    path = reads[0][0]

    def fval(i):
        w, f = reads[i]
        if f < 1000:
            return funcs[f](Tcs)
        return float((U['init_mob'] if f < 2000 else U['init_diff'])[els[i]](cs.dof))
    raw = np.array([corr[i] * fval(i) for i in range(n)])
    want_tr = RGAS * Tcs * raw if path == 'M' else raw
    cor = lambda: {e: corr[i] for i, e in enumerate(els)}
    # public API
    tr = np.atleast_1d(np.asarray(th.getTracerDiffusivity(x, T), dtype=float))
    D = np.atleast_2d(np.asarray(th.getInterdiffusivity(x, T), dtype=float))
    want_pub = np.array([want_tr[els.index(e)] for e in uall])
    own = 'mobility' if path == 'M' else 'diffusivity'
    if not mclose(tr, want_pub, 1e-9):
        res.violate('user-%s-tracer-not-own-function:%s' % (own, tag),
                    'after the setMobility/setDiffusivity history getTracerDiffusivity of an element is not %s of the function given FOR that element '
                    '(last write per element wins)' % ('R*T*M_e(T)' if path == 'M' else 'D_e(T)'),
                    dict(d, elements=uall, reads=[[els[i], reads[i][0], reads[i][1]] for i in range(n)]), tr.tolist(), want_pub.tolist())
    if not np.all(tr > 0):
        res.violate('user-tracer-nonpositive:' + tag, 'tracer diffusivity from positive user functions is not positive', d, tr.tolist(), '> 0')
    user = list(th.elements[1:-1]); alpha_nr = [e for e in els if e != ref]
    o = dict(tracer_pub=tr.tolist())
    if path == 'M':
        tab = th.mobCallables[phase]
        m = np.array(Mob.mobility_from_composition_set(cs, tab, cor()), dtype=float)
        t2 = np.array(Mob.tracer_diffusivity(cs, tab, cor()), dtype=float)
        if not mclose(m, raw, 1e-12):
            res.violate('user-mobility-from-composition-set:' + tag, 'mobility_from_composition_set with the table left by the history is not correction * the function given for the element',
                        d, m.tolist(), raw.tolist())
        o.update(raw=m, tracer=t2)
        # the given mobilities, wrapped by the harness itself, through the (separately checked) module functions
        mine = {}
        for i, e in enumerate(els):
            f = reads[i][1]
            mine[e] = (lambda g, k: (lambda dof_: g(dof_[k])))(funcs[f], U['Tidx']) if f < 1000 else U['init_mob'][e]
        vp = th.vacancyPoorInterstitialSublattice.get(phase, False)
        Dn, _ = Mob.interdiffusivity(mu, cs, ref, mine, cor(), False, vp)
        Dn = np.atleast_2d(np.asarray(Dn, dtype=float))
        want = np.array([[Dn[alpha_nr.index(a), alpha_nr.index(b)] for b in user] for a in user])
        if not mclose(D, want, 1e-7, float(np.abs(want).max()) * 1e-3):
            res.violate('user-mobility-interdiffusivity:' + tag, 'getInterdiffusivity is not the interdiffusivity of the mobilities the user gave per element',
                        d, D.tolist(), want.tolist())
        if n == 2 and bool(getattr(eq, 'converged', True)):
            X = np.array(cs.X, dtype=float); r_ = els.index(ref); k = 1 - r_
            G2 = float(np.atleast_2d(FEH.dMudX(mu, cs, ref))[0, 0])
            dk = (X[r_] * want_tr[k] + X[k] * want_tr[r_]) * (X[k] * X[r_] * G2 / (RGAS * Tcs))
            if not close(float(D[0, 0]), dk, 1e-6):
                res.violate('user-mobility-darken:' + tag, 'binary getInterdiffusivity is not the Darken combination of R*T*M of the given mobilities and the thermodynamic factor',
                            d, float(D[0, 0]), dk)
            res.count('user-darken-checked')
    else:
        tab = th.diffCallables[phase]
        t2 = np.array(Mob.tracer_diffusivity_from_diff(cs, tab, cor()), dtype=float)
        o.update(raw=t2, tracer=t2)
        want = np.diag([want_tr[els.index(e)] for e in user])
        if not mclose(D, want, 1e-9):
            res.violate('user-diffusivity-interdiffusivity:' + tag, 'getInterdiffusivity (diffusivity table) is not diag(D_e(T)) of the functions given for the solutes',
                        d, D.tolist(), want.tolist())
    o['Tcs'] = Tcs
    o['dbm'] = [float(U['init_mob'][e](cs.dof)) if U['init_mob'] is not None else 0.0 for e in els]
    o['dbd'] = [float(U['init_diff'][e](cs.dof)) if U['init_diff'] is not None else 0.0 for e in els]
    o['raised'] = False
    o['alluser'] = all(r[1] < 1000 for r in reads)
    return o


def user_case(res, name, seed):
    import random
    rng = random.Random(seed)
    th, phase, init_mob, init_diff = _load_user(name)
    from pycalphad import variables as v
    els = sorted(e for e in th.elements if e != 'VA'); n = len(els)
    tag = 'user-' + name
    pool = make_pool(rng); funcs = [pool_func(A, Q) for A, Q in pool]
    ops = make_history(rng, n)
    x, T = BOXES[name](rng)
    x2, T2 = BOXES[name](rng)
    corr = [1.0] * n
    ck = rng.random()
    if ck < 0.15:
        corr = [float(10 ** rng.uniform(-1, 1))] * n
    elif ck < 0.5:
        corr = [float(10 ** rng.uniform(-1, 1)) if rng.random() < 0.6 else 1.0 for _ in range(n)]
    desc = dict(kind='user:' + name, seed=seed, elements=els, phase=phase, ops=[list(o) for o in ops],
                pool=[[A, Q] for A, Q in pool], correction=corr, database_tables=dict(mobility=init_mob is not None, diffusivity=init_diff is not None))
    U = dict(th=th, phase=phase, els=els, n=n, funcs=funcs, corr=corr, desc=desc, init_mob=init_mob, init_diff=init_diff,
             Tidx=th.stateVariables.index(v.T))
    out = dict(desc=desc, name=name, n=n, ops=ops, pool=pool, corr=corr, steps=[], final=None, lines=[],
               init=(init_mob is not None, init_diff is not None), nontrivial=False)
    state = {'M': None if init_mob is None else {i: 1000 + i for i in range(n)},
             'D': None if init_diff is None else {i: 2000 + i for i in range(n)}}
    try:
        th.mobCallables[phase] = None if init_mob is None else dict(init_mob)
        th.diffCallables[phase] = None if init_diff is None else dict(init_diff)
        if ck < 0.15:
            th.setMobilityCorrection('all', corr[0])
        else:
            for i, e in enumerate(els):
                if corr[i] != 1.0:
                    th.setMobilityCorrection(e, corr[i])
        # probe inputs: a real dof vector of the phase with the temperature replaced
        _, css = th.getLocalEq(x, T, 0, [phase])
        base = np.array(css[0].dof, dtype=float)
        Ts = [T, T2 if abs(T2 - T) > 1.0 else T + 37.0]
        dofs = []
        for t in Ts:
            dd = base.copy(); dd[U['Tidx']] = t; dofs.append(dd)
        for j, op in enumerate(ops):
            want_raise = spec_step(state, op, n)
            raised = False
            try:
                apply_op(th, phase, els, funcs, op)
            except TypeError:
                if not want_raise:
                    raise
                raised = True
            res.count('user-op:' + op[0] + op[1] + (':raises' if raised else ''))
            if want_raise and not raised:
                res.disagree('setMobility/setDiffusivity(element=...) on a phase without a table does not raise', dict(desc, after=j), 'no exception', 'TypeError')
                break
            if op[0] == 'A' and len(op[2]) == n:
                res.count('user-dict-order:' + ''.join(str(e) for e, _ in op[2]))
            pm = probe_table(th.mobCallables[phase], init_mob, 1000, els, dofs, Ts, funcs)
            pd = probe_table(th.diffCallables[phase], init_diff, 2000, els, dofs, Ts, funcs)
            # direct oracle on the tables: every element carries the function the user gave FOR it (last write wins)
            for w, got, lab in (('M', pm, 'mobility'), ('D', pd, 'diffusivity')):
                want = [-2] * n if state[w] is None else [state[w].get(i, -1) for i in range(n)]
                if got != want:
                    res.violate('user-%s-table-wrong-function:%s' % (lab, tag),
                                'after the history the %s callable of an element is not the function the user gave for that element '
                                '(functions identified by their values at two temperatures; -1 no entry, -2 no table, -3 unknown function)' % lab,
                                dict(desc, after=j, elements=els), got, want)
            ev = user_eval(res, U, x, T, state, tag, j)
            out['steps'].append(dict(raised=raised, want_raise=want_raise, pm=pm, pd=pd, ev=ev))
            if ev and not ev.get('raised') and any(spec_read(state, i)[1] is not None and spec_read(state, i)[1] < 1000 for i in range(n)):
                out['nontrivial'] = True
        # the whole history: a second temperature, and a second composition at that temperature
        ev2 = user_eval(res, U, x, T2, state, tag, 'end:T2')
        out['final'] = ev2
        if ev2 and not ev2.get('raised') and ev2.get('alluser'):
            ev3 = user_eval(res, U, x2, T2, state, tag, 'end:x2')
            if ev3 and not ev3.get('raised') and not mclose(ev3['tracer_pub'], ev2['tracer_pub'], 1e-13):
                res.violate('user-tracer-depends-on-composition:' + tag,
                            'tracer diffusivities from user functions of T alone differ between two compositions at the same temperature',
                            dict(desc, x=[x, x2], T=T2), ev3['tracer_pub'], ev2['tracer_pub'])
            res.count('user-dependence-checked')
    finally:
        th.mobCallables[phase] = init_mob
        th.diffCallables[phase] = init_diff
        th.setMobilityCorrection('all', 1)
    # model lines: the same history at the two temperatures
    head = 'c10.table %d %s %s %d %s %d %s' % (n, vlib.enc_bool(init_mob is not None), vlib.enc_bool(init_diff is not None),
                                               len(ops), ' '.join(enc_op(o) for o in ops), len(pool),
                                               ' '.join('%s %s' % (f2b(A), f2b(Q)) for A, Q in pool))
    last = [s['ev'] for s in out['steps'] if s['ev'] and not s['ev'].get('raised')]
    for ev in ((last[-1] if last else None), out['final'] if out['final'] and not out['final'].get('raised') else None):
        if ev is None:
            out['lines'].append(head + ' %s %s %s %s' % (f2b(T), enc_list(corr), enc_list([0.0] * n), enc_list([0.0] * n)))
        else:
            out['lines'].append(head + ' %s %s %s %s' % (f2b(ev['Tcs']), enc_list(corr), enc_list(ev['dbm']), enc_list(ev['dbd'])))
    return out


def _opt(tok):
    return None if tok == 'none' else vlib.b2f(tok)


def compare_user(res, uc, answers):
    d, n = uc['desc'], uc['n']
    for li, ans in enumerate(answers):
        t = Toks(ans)
        if not t.ok:
            res.disagree('c10.table: model error ' + str(t.err), d, 'ok', t.err); return
        rows = []
        for _ in uc['ops']:
            raised = t.bool()
            cells = []
            for e in range(n):
                me, de, rc, raw, tr = int(t.tok()), int(t.tok()), t.tok(), _opt(t.tok()), _opt(t.tok())
                cells.append((me, de, rc, raw, tr))
            rows.append((raised, cells))
        if li == 0:
            for j, ((raised, cells), st) in enumerate(zip(rows, uc['steps'])):
                if raised != st['raised']:
                    res.disagree('setMobility/setDiffusivity op %d raises' % j, d, st['raised'], raised)
                if [c[0] for c in cells] != st['pm'] or [c[1] for c in cells] != st['pd']:
                    res.disagree('callable tables after op %d (function ids)' % j, d, [st['pm'], st['pd']], [[c[0] for c in cells], [c[1] for c in cells]])
                ev = st['ev']
                model_raises = any(c[2] in ('K', 'N') for c in cells)
                if ev is not None and bool(ev.get('raised')) != model_raises:
                    res.disagree('read after op %d raises' % j, d, ev.get('raised'), model_raises)
            evs = [s['ev'] for s in uc['steps'] if s['ev'] and not s['ev'].get('raised')]
            ev = evs[-1] if evs else None
            idx = max([j for j, s in enumerate(uc['steps']) if s['ev'] and not s['ev'].get('raised')], default=None)
        else:
            ev = uc['final'] if uc['final'] and not uc['final'].get('raised') else None
            idx = len(rows) - 1
        if ev is not None and idx is not None:
            cells = rows[idx][1]
            mraw = [c[3] for c in cells]; mtr = [c[4] for c in cells]
            if any(v is None for v in mraw + mtr) or not mclose(ev['raw'], mraw, 1e-12) or not mclose(ev['tracer'], mtr, 1e-12):
                res.disagree('values read from the callable table (correction*function, tracer)', dict(d, line=li),
                             [np.asarray(ev['raw']).tolist(), np.asarray(ev['tracer']).tolist()], [mraw, mtr])


USER_QUICK = {'AlZr-nomob': 40, 'AlZr': 16, 'NiAl': 12, 'NiCr': 8, 'NiCrAl': 28, 'NiAlCr': 12}
USER_THOROUGH = {'AlZr-nomob': 600, 'AlZr': 300, 'NiAl': 200, 'NiCr': 150, 'NiCrAl': 500, 'NiAlCr': 300, 'FeCrNi': 300, 'AlMgSi': 300,
                 'CuTi': 200, 'AlZr-ex': 100}


# ------------------------------------------------------------------ driver
STUB_KINDS = ['subst', 'interst', 'binary-stationary', 'singular']


def plan(ctx):
    """list of (kind, name, seed)"""
    P = []
    ns = ctx.n(120, 1500)
    for kind in STUB_KINDS:
        for _ in range(ns if kind != 'singular' else max(6, ns // 8)):
            P.append(('stub', kind, ctx.rng.getrandbits(40)))
    real = {'NiCrAl': ctx.n(60, 1200), 'NiAl': ctx.n(20, 300), 'NiCr': ctx.n(20, 300), 'AlZr': ctx.n(60, 1200)}
    if ctx.thorough:
        real.update({'NiAlCr': 300, 'FeCrNi': 1200, 'AlMgSi': 1200, 'CuTi': 1200, 'AlZr-ex': 300})
    for name, cnt in real.items():
        for _ in range(cnt):
            P.append(('real', name, ctx.rng.getrandbits(40)))
    for name, cnt in (USER_THOROUGH if ctx.thorough else USER_QUICK).items():
        for _ in range(cnt):
            P.append(('user', name, ctx.rng.getrandbits(40)))
    return P


def build_case(kind, name, seed, xT=None):
    if kind == 'stub':
        c = make_stub(seed, name)
        c['stationary'] = name == 'binary-stationary'
        c['darken_tol'] = 1e-7
        return c
    c = real_case(seed, name, xT)
    c['stationary'] = True          # monitored: the solver converged to a stationary composition set
    c['darken_tol'] = 1e-6
    return c


def run(ctx, P, use_model=True):
    import random
    res = Result()
    res.rule = ('duck-typed random phases (1-2 sublattices, 2-7 elements, interstitials C/N/O/H/B with and without vacancies, '
                'mobility correction none/partial/full, vacancy-poor flag, stationary binaries, singular Hessians) and real pycalphad '
                'composition sets from getLocalEq on sampled (x, T) boxes of the matrix phase of the shipped databases; '
                'non-trivial = invertible bordered Hessian; distinct = (kind, seed). User tables: random histories (1-5 ops) of setMobility/setDiffusivity '
                'with a dict of different Arrhenius functions in a random key order (sometimes partial) / one function / element=X (dict with further ignored entries), '
                'random mobility corrections, on private instances of Al-Zr without parameters, Al-Zr (diffusivity only), Ni-Al, Ni-Cr, Ni-Cr-Al, Ni-Al-Cr; evaluated after '
                'every op at one (x, T) and at the end at a second T and a second x; non-trivial = a user function is read without error; '
                'array calls of getInterdiffusivity / getTracerDiffusivity (the same composition at two temperatures, a second composition, a repeat) compared entry by entry with the scalar calls')
    res.monitored = list(MONITORED)
    cases, lines, spans, ucases = [], [], [], []
    G = vlib.guarded
    with warnings.catch_warnings():
        warnings.simplefilter('ignore')
        for kind, name, seed in P:
            tag = name if kind == 'real' else 'stub-' + name
            ident = dict(kind=kind + ':' + name, seed=seed)
            if kind == 'user':
                # setMobility / setDiffusivity history on a private instance: oracles run inside, model lines are returned
                ok, uc = G(res, 'user-table:' + name, ident, user_case, res, name, seed)
                res.case((kind, name, seed), bool(ok and uc['nontrivial']))
                if not ok:
                    res.count('case-aborted:user-' + name)
                    continue
                res.count('case:user-' + name)
                ucases.append((uc, len(lines), len(uc['lines'])))
                lines += uc['lines']
                if sum(1 for s_ in res.samples if s_.get('kind', '').startswith('user:')) < 1:
                    res.sample(dict(uc['desc'], tracer_after_history=(uc['final'] or {}).get('tracer_pub')), cap=4)
                continue
            # every case runs in its own guard: an exception raised inside kawin becomes a violation carrying the case
            ok, case = G(res, 'build-case:' + tag, ident, build_case, kind, name, seed)
            if not ok:
                res.count('case-aborted:' + tag)
                res.case((kind, name, seed), False)      # evaluated: the evaluation ended in a violation
                continue
            if kind == 'real' and not case['converged']:
                res.count('not-converged:' + name)
                continue
            ok, o = G(res, 'diffusivity-functions:' + tag, case['desc'], gather, case)
            if not ok:
                res.count('case-aborted:' + tag)
                res.case((kind, name, seed), False)      # evaluated: the evaluation ended in a violation
                continue
            if kind == 'stub' and name == 'singular' and o['K'] is not None:
                res.count('singular-stub-inverted-by-roundoff-skipped')      # 1e20-sized inverse: nothing to compare
                continue
            g = np.random.default_rng(seed & 0xffffffff).normal(size=o['n']) * 1e4
            ok, ml = G(res, 'model-lines:' + tag, case['desc'], model_lines, case, o, g)
            if not ok:
                continue
            L, ntr, dark = ml
            # bookkeeping only after every implementation call of the case succeeded
            spans.append((len(lines), len(L), ntr, dark))
            lines += L
            cases.append((kind, name, seed, case, o, g))
        answers = None
        if use_model and ctx.driver_ok:
            ok, answers = G(res, 'model-driver', dict(lines=len(lines)), vlib.run_driver, PROP, lines)
            if not ok:
                answers = None
        if answers is not None:
            for uc, st, ln in ucases:
                try:
                    compare_user(res, uc, answers[st:st + ln])
                except (ValueError, StopIteration, IndexError) as e:
                    res.disagree('model answer malformed: %r' % (e,), uc['desc'], None, answers[st:st + ln][:1])
        npairs = 0; nvec = {}
        for (kind, name, seed, case, o, g), (st, ln, ntr, dark) in zip(cases, spans):
            tag = name if kind == 'real' else 'stub-' + name
            d = case['desc']
            res.case((kind, name, seed), o['K'] is not None)
            res.count('case:' + tag)
            res.count('elements:%d' % o['n'])
            if any(o['interst']):
                res.count('with-interstitials')
            if o['K'] is None:
                res.count('inverse-failed')
            if len(res.samples) < 3 and (kind == 'real' or name == 'interst'):
                res.sample(dict(d, dMudX=np.asarray(o['tot']).tolist(), interdiffusivity=np.asarray(o['Dn']).tolist(),
                                tracer=o['tracer'].tolist()))
            if answers is not None:
                try:
                    compare_model(res, case, o, g, answers[st:st + ln], ntr, dark)
                except (ValueError, StopIteration, IndexError) as e:
                    res.disagree('model answer malformed: %r' % (e,), d, None, answers[st:st + ln][:2])
            G(res, 'oracle-algebra:' + tag, d, oracle_algebra, res, case, o, g, tag)
            if kind == 'stub':
                if name == 'binary-stationary':
                    G(res, 'oracle-darken:' + tag, d, oracle_darken, res, case, o, tag, 1e-7)
            else:
                G(res, 'oracle-darken:' + tag, d, oracle_darken, res, case, o, tag, 1e-6)
                G(res, 'public-api:' + tag, d, oracle_public, res, case, o, tag)
                G(res, 'public-api-diffusivity-only:' + tag, d, oracle_public_diffonly, res, case, o, tag)
                if nvec.get(name, 0) < ctx.n(3, 40):
                    nvec[name] = nvec.get(name, 0) + 1
                    G(res, 'public-api-array-call:' + tag, d, oracle_public_vector, res, case, o, tag)
                if case['stable']:
                    G(res, 'monitored:' + tag, d, oracle_monitored, res, case, o, tag)
                else:
                    res.count('outside-stable-region:' + tag)
                if name == 'NiCrAl' and npairs < ctx.n(4, 200):
                    G(res, 'pair:NiCrAl/NiAlCr', dict(kind='pair:NiCrAl/NiAlCr', x=case['x'], T=case['T'], seed=seed),
                      oracle_pair, res, seed, (case['x'], case['T']))
                    npairs += 1
    vlib.finish_guard(res)
    return res


def corr(ctx):
    return run(ctx, plan(ctx))


def search(ctx, broken):
    """something no longer checks: oracle alone on a fresh, larger sample"""
    P = plan(ctx) + plan(ctx)
    return run(ctx, P, use_model=False)


def replay(ctx, entry):
    c = entry['violation']['case']
    if 'kind' not in c and isinstance(c.get('case'), dict):      # violation produced by the guard: the case is nested
        c = c['case']
    kind, _, name = c['kind'].partition(':')
    if kind == 'pair':
        r = Result()
        vlib.guarded(r, 'pair:NiCrAl/NiAlCr', c, oracle_pair, r, c.get('seed', 0), (c['x'], c['T']))
        vlib.finish_guard(r)
    else:
        r = run_one(ctx, kind, name, c['seed'])
    for v in r.violations:
        print('  ', v['key'], v['what'], v['observed'], v['required'])
    return not r.violations


def run_one(ctx, kind, name, seed):
    ctx.driver_ok = False
    return run(ctx, [(kind, name, seed)], use_model=False)
