"""C10 — diffusivities: correspondence Mobility.py / FreeEnergyHessian.py <-> KawinV.Mob / KawinV.DMu,
the traced tracer formula, and the monitored oracle on the shipped databases."""
import math, os, sys, warnings
import numpy as np
import vlib
from vlib import Result, enc_list, enc_ilist, f2b, Toks, close

PROP = 'C10'
GEN_FILE = os.path.join(vlib.LEAN, 'KawinV', 'Gen', 'C10Tracer.lean')
NTRACE = 3       # number of elements in the traced call (the code is a list comprehension over elements)


# ------------------------------------------------------------------ translator piece
def _trace_objects(sym_mod):
    """duck-typed composition set whose temperature, mobilities and corrections are symbolic"""
    from pycalphad import variables as v
    Sym = sym_mod.Sym
    els = ['E%d' % i for i in range(NTRACE)]

    class PR:
        nonvacant_elements = els
        state_variables = [v.N, v.P, v.T]

    class CS:
        phase_record = PR()
        dof = [1.0, 101325.0, Sym.var('T', 900.0)] + [1.0 / NTRACE] * NTRACE
    cal = {e: (lambda i: (lambda dof: Sym.var('m%d' % i, 1e-17 * (1 + i))))(i) for i, e in enumerate(els)}
    cor = {e: Sym.var('c%d' % i, 1.0 + 0.1 * i) for i, e in enumerate(els)}
    return CS(), cal, cor


def regenerate(ctx):
    sys.path.insert(0, os.path.join(vlib.VERIF, 'tools', 'py2lean'))
    vlib.use_repo()
    import sym
    from sym import emit_def
    with warnings.catch_warnings():
        warnings.simplefilter('ignore')
        from kawin.thermo import Mobility as Mob
    del sym.PATH[:]
    cs, cal, cor = _trace_objects(sym)
    params = ['T'] + [x for i in range(NTRACE) for x in ('c%d' % i, 'm%d' % i)]
    names = ['e%d' % i for i in range(NTRACE)]
    src = sym.HEADER + '\nnamespace KawinV.Gen.C10\n\n'
    out = Mob.mobility_from_composition_set(cs, cal, cor)
    if getattr(out, 'shape', None) != (NTRACE,):
        raise RuntimeError('mobility_from_composition_set: unexpected shape %r' % (getattr(out, 'shape', None),))
    s, _ = emit_def('mobility', params, list(out), 'kawin/thermo/Mobility.py mobility_from_composition_set (mobility correction c, callable value m)', names)
    src += s
    out = Mob.tracer_diffusivity(cs, cal, cor)
    if getattr(out, 'shape', None) != (NTRACE,):
        raise RuntimeError('tracer_diffusivity: unexpected shape %r' % (getattr(out, 'shape', None),))
    s, _ = emit_def('tracer', params, list(out), 'kawin/thermo/Mobility.py tracer_diffusivity', names)
    src += s
    if sym.PATH:
        raise RuntimeError('tracer_diffusivity branches on its arguments: %r' % (sym.PATH[:3],))
    src += 'end KawinV.Gen.C10\n'
    return [os.path.relpath(GEN_FILE, vlib.VERIF)] if vlib.write_if_changed(GEN_FILE, src) else []
