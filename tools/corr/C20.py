"""C20 — saved files and surrogates reproduce what they were made from.

regenerate():  lean/KawinV/Gen/C20Tables.lean is rebuilt from $VERIF_REPO on every run by RUNNING the real code with
               recording objects:  PrecipitationData.ATTRIBUTES; for the precipitation model (2 phases, marker data in
               every observable slot) and the diffusion model the lines `(key, slot, optional)` of toDict (which slot's
               value lands under which key, and whether the line is skipped for a None slot) and of fromDict (recording
               dict: which key is read into which slot, KeyError or default for a missing key); for every getter of an
               untrained BinarySurrogate / MulticomponentSurrogate the thermodynamics method it falls through to
               (recording mock thermodynamics).
corr():        model <-> implementation: the Lean model (KawinV.SaveLoad with the generated tables) is run on the
               states of REAL runs (file keys, load outcome, every slot after load) and on ndarray -> JSON -> ndarray.
               direct oracle: save -> load into a freshly constructed model of the same configuration -> every slot
               bit-for-bit (Al-Zr precipitation runs saved mid-run and after completion, PSD recording on/off; diffusion
               models with recording on / off / switched off / removed; StrengthModel; the dedicated recorded-PSD file);
               untrained surrogate getters against the thermodynamics call of the same quantity; trained surrogates at
               their training points; surrogates rebuilt from their JSON file."""
import contextlib, inspect, io, json, math, os, shutil, tempfile, warnings
import numpy as np
import vlib
from vlib import Result, enc_list, f2b, b2f, Toks, close

PROP = 'C20'
META = {
    'level_text': 'Lean 4 theorems about an executable model of the save/load layers (npz archive = identity on float arrays, load error on a saved None; toDict/fromDict = tables of (key, slot, optional) lines; JSON = ndarray.tolist / np.array) whose tables are EXTRACTED from the running code on every run: key coverage (every key read is written into the same slot; the 16 histories, per-phase PBM data / PSD / bounds / sizes / aspect-ratio table, diffusion t, x and recorded arrays are written and read) by `decide` over the generated tables; round trip load(save s) = ok s\' with every observable equal for every state, any number of distinct phase names and any array contents (keys of different phases cannot collide: prefix-freeness of the generated key prefixes); a diffusion file loads whatever the recording options (after the repair in known_findings.txt; the unrepaired table is proved to fail); the recorded size-distribution history is proved NOT to survive (finding); every untrained surrogate getter falls through to the thermodynamics method of the same name, unchanged arguments and result (`decide` over the recorded table); fromJson(toJson d) = d for well-formed arrays of any rank.',
    'level_note': 'Trusted: Lean kernel + Mathlib (axioms propext/Classical.choice/Quot.sound). The tables are what the recording run observed on marker data for a 2-phase and a 3-phase model (data-dependent branches of toDict/fromDict other than "slot is None"/"key missing" would not be seen; none exist today); NumPy savez/load, zip compression, dtype handling, json printing/parsing of numbers (repr round trip) are trusted and only compared on this run\'s cases. MONITORED (oracle only, SciPy RBFInterpolator): a trained surrogate reproduces its training data at the training points; a surrogate rebuilt from its file gives the same predictions. Continuing a run after a reload is outside the statement and recorded as a finding. This kawin version has no recording interval, so "recording options" are on / off / switched off / data removed.',
    'technique': 'Lean 4 proof over extracted tables (decide) + structural induction; model/implementation differential correspondence; direct save->load->compare oracle on real runs',
    'design_ref': 'DESIGN.md section 6, C20',
}
LEAN_MODULES = ['KawinV.Props.C20']
MONITORED = [
    'a trained surrogate reproduces its training data at the training points (SciPy RBFInterpolator; oracle, rtol 1e-6)',
    'a surrogate rebuilt from its saved JSON file gives bit-identical predictions (oracle at random query points)',
    'StrengthModel.save/load and PopulationBalanceModel.saveRecordedPSD/loadRecordedPSD reproduce their arrays (oracle; same npz layer)',
]
ASSUMPTIONS = [
    'the model has been solved at least once (an unsolved precipitation model holds eqAspectRatio = None and cannot be loaded back)',
    'phase names of one model are distinct',
    'finite array contents; array dtype (finalTime may be saved as int64) is not modelled, values are compared as doubles',
    'underlying thermodynamics compared with removeCache=True (pycalphad results depend on the cache state otherwise)',
]
TRUSTED = ['np.savez_compressed / np.load / dict(NpzFile) semantics as modelled in KawinV.SaveLoad (compared on every run)',
           'json.dump / json.load number printing and parsing', 'SciPy RBFInterpolator']

GEN_FILE = os.path.join(vlib.LEAN, 'KawinV', 'Gen', 'C20Tables.lean')
PHASE_SLOTS = ['PBM.(min,max,bins)', 'PBM.PSD', 'PBM.PSDbounds', 'PBM.PSDsize', 'eqAspectRatio',
               'PBM._recordedTime', 'PBM._recordedBins', 'PBM._recordedPSD']
PSDREC_SLOTS = ['PBM._recordedTime', 'PBM._recordedBins', 'PBM._recordedPSD']
DIFF_SLOTS = ['t', 'x', '_recordedX', '_recordedTime']


class StopRun(Exception):
    pass


def _quiet():
    return contextlib.redirect_stdout(io.StringIO())


# ============================================================================ slots of the real objects
def _attributes():
    vlib.use_repo()
    from kawin.precipitation.PrecipitationParameters import PrecipitationData
    return list(PrecipitationData.ATTRIBUTES)


def precip_slot_names(model):
    names = ['pData.' + a for a in _attributes()]
    for ph in model.phases:
        names += ['%s@%s' % (s, ph) for s in PHASE_SLOTS]
    return names


def precip_get(model, slot):
    if slot.startswith('pData.'):
        return getattr(model.pData, slot[6:], None)
    name, ph = slot.split('@')
    p = list(model.phases).index(ph)
    pbm = model.PBM[p]
    if name == 'PBM.(min,max,bins)':
        return np.array([pbm.min, pbm.max, pbm.bins], dtype=float)
    if name == 'eqAspectRatio':
        return model.eqAspectRatio[p]
    return getattr(pbm, name[4:], None)


def precip_set(model, slot, v):
    if slot.startswith('pData.'):
        setattr(model.pData, slot[6:], v); return
    name, ph = slot.split('@')
    p = list(model.phases).index(ph)
    pbm = model.PBM[p]
    if name == 'PBM.(min,max,bins)':
        pbm.min, pbm.max, pbm.bins = float(v[0]), float(v[1]), int(v[2])
    elif name == 'eqAspectRatio':
        model.eqAspectRatio[p] = v
    else:
        setattr(pbm, name[4:], v)


def diff_get(model, slot):
    return getattr(model, slot, None)


def diff_set(model, slot, v):
    setattr(model, slot, v)


def same(a, b):
    """bit-for-bit equality of two slot values (None only equals None); dtype ignored, values as doubles"""
    if a is None or b is None:
        return a is None and b is None
    a = np.asarray(a); b = np.asarray(b)
    if a.dtype == object or b.dtype == object:
        return False
    if a.shape != b.shape:
        return False
    return np.array_equal(np.asarray(a, dtype=float), np.asarray(b, dtype=float), equal_nan=True)


def brief(v):
    if v is None:
        return None
    a = np.asarray(v)
    return {'shape': list(a.shape), 'head': np.ravel(a)[:3].tolist() if a.dtype != object else repr(v)[:40]}


# ============================================================================ table extraction (regenerate)
class RecDict(dict):
    """dict that records which keys are read, in order"""
    def __init__(self, *a):
        super().__init__(*a); self.reads = []

    def _log(self, k):
        if k not in self.reads:
            self.reads.append(k)

    def __getitem__(self, k):
        self._log(k); return super().__getitem__(k)

    def get(self, k, default=None):
        self._log(k); return super().get(k, default)

    def __contains__(self, k):
        self._log(k); return super().__contains__(k)

    def pop(self, k, *a):
        self._log(k); return super().pop(k, *a)


class _Marker:
    """distinct finite doubles; every array handed out is different from every other one"""
    def __init__(self):
        self.k = 0

    def arr(self, shape):
        n = int(np.prod(shape)) if len(shape) else 1
        self.k += 1
        a = (1000.0 * self.k + np.arange(n, dtype=float) * 0.25 + 0.125).reshape(shape)
        return a

    def pbm(self):
        self.k += 1
        return np.array([1e-10 * self.k, 2.5e-9 * self.k, 5 + self.k], dtype=float)     # max >= 10*min: the PBM constructor enforces it


def _new_precip(phases, elements):
    vlib.use_repo()
    from kawin.precipitation import PrecipitateModel
    return PrecipitateModel(phases=list(phases), elements=list(elements))


def _new_diff_plain(record=True):
    vlib.use_repo()
    from kawin.diffusion import SinglePhaseModel
    return SinglePhaseModel([-1.0, 1.0], 5, ['A', 'B', 'C'], ['ALPHA'], record=record)


def _fill(model, names, setter, mk):
    vals = {}
    for i, s in enumerate(names):
        if s.startswith('PBM.(min'):
            v = mk.pbm()
        elif s == 't':
            v = mk.arr(())
        else:
            v = mk.arr((3 + i % 3, 2) if i % 2 else (4 + i % 3,))
        setter(model, s, v); vals[s] = v
    return vals


def _match(value, candidates):
    """name of the candidate whose value equals `value` (as double arrays), else None"""
    for name, v in candidates.items():
        try:
            if same(np.asarray(value, dtype=float), v):
                return name
        except (TypeError, ValueError):
            pass
    return None


def extract_tables(new_model, names_of, getter, setter):
    """run the real toDict / fromDict of a freshly built model on marker data; returns (writes, reads) as lists of
    (key, slot, optional)"""
    mk = _Marker()
    m = new_model()
    names = names_of(m)
    vals = _fill(m, names, setter, mk)
    d = m.toDict()
    writes = []
    for k, v in d.items():
        slot = _match(v, vals) or '?'
        opt = False
        if slot != '?' and not slot.startswith('PBM.(min'):
            setter(m, slot, None)
            try:
                opt = k not in m.toDict()
            finally:
                setter(m, slot, vals[slot])
        writes.append((k, slot, opt))
    # ---- reads: recording dict with fresh marker data per key
    def fresh_data(keys):
        data = {}
        for k in keys:
            proto = d.get(k)
            if proto is not None and np.asarray(proto, dtype=float).shape == (3,) and _match(proto, {s: v for s, v in vals.items() if s.startswith('PBM.(min')}):
                data[k] = mk.pbm()
            elif proto is not None:
                data[k] = mk.arr(np.asarray(proto, dtype=float).shape)
            else:
                data[k] = mk.arr((4,))
        return data
    keys = list(d.keys())
    for _attempt in range(40):
        data = fresh_data(keys)
        m2 = new_model()
        rec = RecDict(data)
        try:
            m2.fromDict(rec)
            break
        except KeyError as e:        # fromDict reads a key toDict does not write: add it and look for further reads
            k = e.args[0]
            if k in keys:
                raise
            keys.append(k)
    else:
        raise RuntimeError('fromDict keeps raising KeyError')
    names2 = names_of(m2)
    got = {s: getter(m2, s) for s in names2}
    reads = []
    for k in rec.reads:
        slots = [s for s in names2 if got[s] is not None and k in data and _safe_same(got[s], data[k])]
        # optional?  remove the key and see what a fresh model does
        m3 = new_model(); names3 = names_of(m3)
        before = {s: getter(m3, s) for s in names3}
        less = RecDict({kk: vv for kk, vv in fresh_data(keys).items() if kk != k})
        try:
            m3.fromDict(less); opt = True
        except KeyError:
            opt = False
        if not slots:
            reads.append((k, '?', opt))
        for s in slots:
            o = opt
            if opt and getter(m3, s) is not None:
                reads.append((k, '?keeps-default:' + s, o))      # a missing key leaves something else than None
            else:
                reads.append((k, s, o))
    return writes, reads


def _safe_same(a, b):
    try:
        return same(np.asarray(a, dtype=float), np.asarray(b, dtype=float))
    except (TypeError, ValueError):
        return False


def templates(entries, phases):
    """split (key, slot, opt) lines into global lines and per-phase templates; raises if the phases disagree"""
    glob, per = [], {ph: [] for ph in phases}
    for k, s, o in entries:
        for ph in phases:
            if k.endswith(ph) and (s.endswith('@' + ph) or '@' not in s):
                per[ph].append((k[:-len(ph)], s[:-(len(ph) + 1)] if s.endswith('@' + ph) else s, o)); break
        else:
            glob.append((k, s, o))
    first = per[phases[0]]
    for ph in phases[1:]:
        if per[ph] != first:
            raise RuntimeError('per-phase lines differ between phases: %r vs %r' % (first, per[ph]))
    return glob, first


def expand(glob, per, phases):
    out = list(glob)
    for ph in phases:
        out += [(k + ph, (s + '@' + ph) if s != '?' else s, o) for k, s, o in per]
    return out


class RecTherm:
    """recording mock thermodynamics: every method call is logged and answered with a unique token"""
    def __init__(self, n):
        self.numElements = n
        self.elements = ['E%d' % i for i in range(n)]
        self.phases = ['MATRIX', 'PREC']
        self.calls = []

    def __getattr__(self, name):
        if name.startswith('__'):
            raise AttributeError(name)

        def f(*a, **k):
            tok = ('RESULT', name, len(self.calls))
            self.calls.append((name, a, k, tok))
            return tok
        return f


def surrogate_getters(cls):
    out = []
    for name in sorted(dir(cls)):
        if name.startswith('_') or name.startswith('train') or name in ('toJson', 'fromJson'):
            continue
        if callable(getattr(cls, name)):
            out.append(name)
    return out


def fallthrough_table(cls, nel):
    """for every public getter of an untrained surrogate: thermodynamics methods called, and whether the positional
    arguments went through unchanged and the result came back unchanged"""
    table, passes = [], []
    for g in surrogate_getters(cls):
        th = RecTherm(nel)
        s = cls(th)
        sig = inspect.signature(getattr(s, g))
        args = [('ARG', p.name) for p in sig.parameters.values()
                if p.default is inspect.Parameter.empty and p.kind in (p.POSITIONAL_ONLY, p.POSITIONAL_OR_KEYWORD)]
        try:
            r = getattr(s, g)(*args)
        except Exception as e:      # a getter that touches its arguments before the fall-through
            table.append((g, '?raises-' + type(e).__name__)); passes.append((g, False)); continue
        if not th.calls:
            table.append((g, '?no-call')); passes.append((g, False)); continue
        for name, a, k, tok in th.calls:
            table.append((g, name))
        name, a, k, tok = th.calls[-1]
        flat = list(a) + list(k.values())
        ok = len(th.calls) == 1 and r is tok and all(any(x is y for y in flat) for x in args)
        passes.append((g, bool(ok)))
    return table, passes


def lean_str(s):
    return '"' + s.replace('\\', '\\\\').replace('"', '\\"') + '"'


def lean_entries(name, doc, entries):
    body = ',\n   '.join('(%s, %s, %s)' % (lean_str(k), lean_str(s), 'true' if o else 'false') for k, s, o in entries)
    return '/-- %s -/\ndef %s : List (String × String × Bool) :=\n  [%s]\n' % (doc, name, body)


def lean_pairs(name, doc, pairs, second=lean_str):
    ty = 'String × String' if second is lean_str else 'String × Bool'
    body = ',\n   '.join('(%s, %s)' % (lean_str(a), second(b)) for a, b in pairs)
    return '/-- %s -/\ndef %s : List (%s) :=\n  [%s]\n' % (doc, name, ty, body)


def lean_strs(name, doc, xs):
    return '/-- %s -/\ndef %s : List String :=\n  [%s]\n' % (doc, name, ', '.join(lean_str(x) for x in xs))


def build_tables():
    vlib.use_repo()
    with warnings.catch_warnings():
        warnings.simplefilter('ignore')
        from kawin.thermo import BinarySurrogate, MulticomponentSurrogate
        attrs = _attributes()
        rec_ph = ['PHA', 'PHB']
        pw, pr = extract_tables(lambda: _new_precip(rec_ph, ['E1', 'E2']), precip_slot_names, precip_get, precip_set)
        gW, phW = templates(pw, rec_ph)
        gR, phR = templates(pr, rec_ph)
        # the templates must also describe a model with other names and another number of phases / elements
        ph3 = ['X1', 'Y22', 'Z333']
        pw3, pr3 = extract_tables(lambda: _new_precip(ph3, ['E1']), precip_slot_names, precip_get, precip_set)
        if sorted(pw3) != sorted(expand(gW, phW, ph3)) or sorted(pr3) != sorted(expand(gR, phR, ph3)):
            raise RuntimeError('toDict/fromDict lines of a 3-phase model are not the per-phase templates of the 2-phase model')
        dw, dr = extract_tables(lambda: _new_diff_plain(True), lambda m: list(DIFF_SLOTS), diff_get, diff_set)
        bt, bp = fallthrough_table(BinarySurrogate, 2)
        mt, mp = fallthrough_table(MulticomponentSurrogate, 3)
    return dict(attrs=attrs, rec_ph=rec_ph, pw=pw, pr=pr, gW=gW, phW=phW, gR=gR, phR=phR, dw=dw, dr=dr,
                bg=surrogate_getters(BinarySurrogate), mg=surrogate_getters(MulticomponentSurrogate), bt=bt, bp=bp, mt=mt, mp=mp)


def render_tables(t):
    b = lambda x: 'true' if x else 'false'
    parts = ['/-\nGENERATED on every run by tools/corr/C20.py regenerate() — do not edit.\n'
             'Tables read off the running kawin code with recording objects (marker arrays in every observable slot,\n'
             'a recording dict handed to fromDict, a recording mock thermodynamics under the untrained surrogates).\n'
             'A line is (dictionary key, model slot, optional).  Slot "?" = no observable slot matched.\n-/\n'
             'namespace KawinV.Gen.C20\n',
             lean_strs('attributes', 'PrecipitationData.ATTRIBUTES', t['attrs']),
             lean_entries('precipGlobalW', 'PrecipitateModel.toDict: lines not depending on the phase', t['gW']),
             lean_entries('precipPhaseW', 'PrecipitateModel.toDict: lines executed per phase (key = prefix + phase name, slot = name@phase)', t['phW']),
             lean_entries('precipGlobalR', 'PrecipitateModel.fromDict: lines not depending on the phase', t['gR']),
             lean_entries('precipPhaseR', 'PrecipitateModel.fromDict: lines executed per phase', t['phR']),
             lean_strs('precipRecordedPhases', 'phase names of the model the lines were recorded on', t['rec_ph']),
             lean_entries('precipRecordedW', 'toDict lines exactly as recorded on that model', t['pw']),
             lean_entries('precipRecordedR', 'fromDict lines exactly as recorded on that model', t['pr']),
             lean_entries('diffW', 'DiffusionModel.toDict', t['dw']),
             lean_entries('diffR', 'DiffusionModel.fromDict', t['dr']),
             lean_strs('binaryGetters', 'public getters of BinarySurrogate', t['bg']),
             lean_pairs('binaryFallthrough', 'untrained BinarySurrogate: (getter, thermodynamics method called)', t['bt']),
             lean_pairs('binaryPassThrough', 'untrained BinarySurrogate: (getter, exactly one call, arguments and result handed through unchanged)', t['bp'], b),
             lean_strs('multiGetters', 'public getters of MulticomponentSurrogate', t['mg']),
             lean_pairs('multiFallthrough', 'untrained MulticomponentSurrogate: (getter, thermodynamics method called)', t['mt']),
             lean_pairs('multiPassThrough', 'untrained MulticomponentSurrogate: (getter, exactly one call, arguments and result handed through unchanged)', t['mp'], b),
             'end KawinV.Gen.C20\n']
    return '\n'.join(parts)


_TABLES = {}


def tables():
    if 't' not in _TABLES:
        _TABLES['t'] = build_tables()
    return _TABLES['t']


def regenerate(ctx):
    changed = vlib.write_if_changed(GEN_FILE, render_tables(tables()))
    return [os.path.relpath(GEN_FILE, vlib.VERIF)] if changed else []
