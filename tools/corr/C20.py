"""C20 — saved files and surrogates reproduce what they were made from.

regenerate():  lean/KawinV/Gen/C20Tables.lean is rebuilt from $VERIF_REPO on every run by RUNNING the real code with
               recording objects:  PrecipitationData.ATTRIBUTES; for the precipitation model (2 phases, marker data in
               every observable slot) and the diffusion model the lines `(key, slot, optional)` of toDict (which slot's
               value lands under which key, and whether the line is skipped for a None slot) and of fromDict (recording
               dict: which key is read into which slot, KeyError or default for a missing key); for every getter of an
               untrained BinarySurrogate / MulticomponentSurrogate the thermodynamics method it falls through to
               (recording mock thermodynamics); and the FORWARDING rows binaryForwarding / multiForwarding: per getter, how the
               untrained branch hands each named parameter and each further keyword argument of the thermodynamics method on
               ("pos" | "kw" | "kw:<other>" | "drop", read off the call the mock received for non-default values of every
               argument), whether it takes *args/**kwargs, and the parameter names of the thermodynamics method.
corr():        model <-> implementation: the Lean model (KawinV.SaveLoad with the generated tables) is run on the
               states of REAL runs (file keys, load outcome, every slot after load) and on ndarray -> JSON -> ndarray.
               direct oracle: save -> load into a freshly constructed model of the same configuration -> every slot
               bit-for-bit (Al-Zr precipitation runs saved mid-run and after completion, PSD recording on/off; diffusion
               models with recording on / off / switched off / removed; StrengthModel; the dedicated recorded-PSD file);
               untrained surrogate getters against the thermodynamics call of the same quantity; untrained pass-through with
               ALL arguments: (a) every getter of both classes on a recording mock in every call form (default / all keywords /
               each keyword alone / positional / positional extras) + random calls, the argument the thermodynamics method
               received under each name compared with what the caller supplied, and the Lean model of the forwarding line
               (KawinV.Forward, rows of the generated table) run on the same calls; (b) untrained and partially trained
               MulticomponentSurrogate of Al-Mg-Si (5 precipitate phases), every phase: exactly the value of the one call made, rtol 1e-6 against an independent call; trained surrogates at
               their training points; surrogates rebuilt from their JSON file.
               SAVE/LOAD HISTORIES in one process (check_histories): random sequences of solve / save / load on 2-3 REUSED file
               names (with and without the .npz suffix), several live models (the original and every loaded one, solved further and
               saved again); after every load the loaded model = deep snapshot of the saved model at the LAST save to that name;
               the Lean file-store model (KawinV.SaveLoad.Proc / step / loadOutcomes) run on the same histories.
               SURROGATE TRAINING (check_surrogate_training): grids with closely spaced points in raw units (every stored training
               value reproduced at every stored training point; node count of the fitted interpolator = number of distinct stored
               points), all training orders x getter calls x toJson/fromJson (rebuilt = original at and between the training
               points; prediction of Q = that of a surrogate on which only Q was trained), and the Lean model of the fitting
               state (KawinV.SurrogateFit) on the same histories.
               fromJson INTO A RECEIVER THAT IS NOT FRESH (check_receivers / run_receiver_case): the file of a trained surrogate is loaded into
               a fresh object, into objects trained for the same quantities on OTHER points (coarser / shifted / other temperatures), into
               an object that loaded an older file, into one trained for other quantities only and into the original itself (both classes,
               all quantities): predictions = the original's at and between the training points (rtol 1e-8), stored data = the file's;
               Lean model KawinV.SurrogateFit.loadInto on the same receiver histories (driver verb sg.load).
               FILE NAMES of the histories: besides the plain names, groups of names with dots that are not the extension and that differ
               only behind the last dot ('run_0.25h' / 'run_0.5h', 'a.b' / 'a.c', 'v1.0.npz' / 'v1.1.npz', in sub-directories, leading dot),
               an earlier check point loaded after a later one was saved; after every save the directory holds exactly one file per
               distinct name, called N or N + '.npz' (also compared with the files of the Lean store model).
               EVERY CLASS WITH A save / load PAIR x EVERY KEYWORD BRANCH OF save (saveload_pairs / save_variants / class_roundtrip /
               fields_oracle / check_classes): the package is walked for save<X> / load<X> method pairs (GenericModel and its subclasses
               PrecipitateModel, SinglePhaseModel, HomogenizationModel, GrainGrowthModel, Coupler; StrengthModel.save(compressed);
               PopulationBalanceModel.saveRecordedPSD(compressed) + PrecipitateModel.saveRecordedPSD(compressed, phase)); regenerate()
               reads the (key, attribute) lines of every branch off the real methods with marker arrays (table saveTables); every
               boolean keyword combination of save is exercised on real runs in which particles exist (rss != ls != solid solution
               strength), on synthetic histories, and in solve / save(name, compressed) / load histories of a coupled StrengthModel;
               the fields save() writes are DISCOVERED (what load changes in a fresh object + attributes found bit for bit in the file)
               and each must come back exactly; two entries of a file are identical only if the fields were."""
import contextlib, copy, inspect, io, json, math, os, re, shutil, tempfile, traceback, warnings
import numpy as np
import vlib
from vlib import Result, enc_list, f2b, b2f, Toks, close

PROP = 'C20'
META = {
    'level_text': 'Lean 4 theorems about an executable model of the save/load layers (npz archive = identity on float arrays, load error on a saved None; toDict/fromDict = tables of (key, slot, optional) lines; JSON = ndarray.tolist / np.array) whose tables are EXTRACTED from the running code on every run: key coverage (every key read is written into the same slot; the 16 histories, per-phase PBM data / PSD / bounds / sizes / aspect-ratio table, diffusion t, x and recorded arrays are written and read) by `decide` over the generated tables; round trip load(save s) = ok s\' with every observable equal for every state, any number of distinct phase names and any array contents (keys of different phases cannot collide: prefix-freeness of the generated key prefixes); a diffusion file loads whatever the recording options (after the repair in known_findings.txt; the unrepaired table is proved to fail); the recorded size-distribution history is proved NOT to survive (finding); every untrained surrogate getter falls through to the thermodynamics method of the same name, unchanged arguments and result (`decide` over the recorded table) and hands EVERY argument of the caller on: Python call binding of the forwarding line is modelled (KawinV.Forward: getter signature with *args/**kwargs -> forwarded call -> thermodynamics signature), `untrained_forwards_all_arguments` decides on the regenerated rows that nothing is dropped or renamed and that the canonical calls (all keywords, each keyword alone, all positional, mixed) deliver every argument under its own name, `forward_faithful_partial` / `untrained_getters_hand_on_every_keyword` prove it for EVERY call with distinct keywords whose positional arguments are for the getter own parameters (a dropped phase and the pre-e476a9c keyword-then-*args line are proved to fail on concrete calls); fromJson(toJson d) = d for well-formed arrays of any rank. HISTORIES: a process = live model objects + a file store (name -> contents, `npzName` = the .npz suffix rule); `files_after_history` / `load_returns_last_save` (+ `precip_`/`diff_` instances over the generated tables): for EVERY sequence of solve / save / load calls on any number of models and file names, load(f) into a fresh model returns every observable of the saved model as it was at the moment of the LAST save to f (specification `lastSaved` read off the history backwards); the variant with a read cache that save does not invalidate is proved to return the first save point (`cached_load_returns_earlier_save_point`). SURROGATE FITTING STATE (KawinV.SurrogateFit: shared kernel settings, per quantity stored data and fitted kernel = what the kernel constructor received, fixed refit order of fromJson; hooks for what `_createInput` does to the settings and what `_fit` does to the training rows, identity in the code): `rebuild_equals_original` (every history of trainings / getter calls, all quantities, any order), `prediction_independent_of_order` / `prediction_as_if_trained_alone`, `settings_const`, `fit_uses_every_training_point`, for every hook that leaves the settings alone; witnesses `flip_rebuilt_differs`, `flip_depends_on_order` (a one-axis input switches normalize off in the shared settings), `filter_drops_training_points` (absolute-tolerance filter before the fit). EVERY CLASS WITH A save/load PAIR, EVERY KEYWORD BRANCH (generated table `saveTables`: one row (class, on-disk format, lines (key, attribute) of that branch of save, lines of load) per class of the package and per value of the `compressed` keyword, read off the real methods on marker arrays): `save_tables_ok` decides `saveRowOk` on every regenerated row (keys distinct, every line of load covered by a line of the branch with the same key AND the same attribute, every line of the branch read back into the attribute it was written from), `saved_fields_roundtrip` / `every_class_every_branch_roundtrips` (load(save s) = ok s\' with every saved field equal, for every row passing `saveRowOk`, any arrays), `saved_entry_is_its_field` / `equal_entries_equal_fields` (two entries of a file are equal only if the two attributes were), `keyword_classes_have_both_branches` (both formats tabulated, same lines), `every_pair_has_a_row`, `strength_fields_saved`; witnesses `swapped_row_rejected`, `swapped_branch_reloads_rss_as_ls`, `swapped_branch_duplicates_an_entry` (the uncompressed branch writing the key ls from rss).',
    'level_note': 'Trusted: Lean kernel + Mathlib (axioms propext/Classical.choice/Quot.sound). The tables are what the recording run observed on marker data for a 2-phase and a 3-phase model (data-dependent branches of toDict/fromDict other than "slot is None"/"key missing" would not be seen; none exist today); NumPy savez/load, zip compression, dtype handling, json printing/parsing of numbers (repr round trip) are trusted and only compared on this run\'s cases. MONITORED (oracle only, SciPy RBFInterpolator): a trained surrogate reproduces its training data at the training points; a surrogate rebuilt from its file gives the same predictions. The history and fitting-state models are tied to the code on every run (same histories through the driver: outcome and every slot of every load; normalize flag of kernelKwargs after every call, per quantity kernel present / fitted normalised / node count for the original and the rebuilt surrogate); what `solve` does to a model and what the SciPy interpolator computes are not modelled (a solve is `any new state`, a kernel is `what its constructor received`). Continuing a run after a reload is outside the statement and recorded as a finding (histories do continue loaded models: whatever state they reach must come back from the next save/load). This kawin version has no recording interval, so "recording options" are on / off / switched off / data removed.',
    'technique': 'Lean 4 proof over extracted tables (decide) + structural induction; model/implementation differential correspondence; direct save->load->compare oracle on real runs',
    'design_ref': 'DESIGN.md section 6, C20',
}
LEAN_MODULES = ['KawinV.Props.C20']
MONITORED = [
    'a trained surrogate reproduces its training data at the training points (SciPy RBFInterpolator; oracle, rtol 1e-6; closely spaced grids 1e-5..1e-2 in x, 0.1..50 K, 1..1000 J/mol, linear and log fits, single axes: the unchanged code is within 1e-9)',
    'a surrogate rebuilt from its saved JSON file gives bit-identical predictions (oracle at random query points; all training orders of 2-3 quantities with 1 and 2 input axes, rtol 1e-8 at and between the training points; Q predicted as by a surrogate trained on Q alone)',
    'a surrogate file loaded into a receiver that already holds trainings / an older file predicts as the original (oracle, rtol 1e-8, 7 receiver classes x all quantities; the fitting state is modelled: load_overwrites_models, load_into_receiver_equals_original)',
    'zip compression of np.savez_compressed vs np.savez is the identity on the arrays (the two branches of StrengthModel.save / saveRecordedPSD are modelled as tables of lines; the bytes on disk are compared through np.load on every case)',
]
ASSUMPTIONS = [
    'histories: kawin has one file format (np.savez_compressed); "the same file" is tested through both spellings of its name (with / without .npz); loads go into freshly constructed models of the same configuration; PSD recording is off in the precipitation histories (known finding psd-recording-not-saved)',
    'training orders: every training leaves at least one non-single input axis (a one-point training stores the data, raises and keeps the old kernel: excluded by the visible hypothesis of rebuild_equals_original); original and rebuilt surrogate are constructed with the same kernel settings (the file does not store them)',
    'the model has been solved at least once (an unsolved precipitation model holds eqAspectRatio = None and cannot be loaded back; a StrengthModel that was never updated saves None and does not load: compared with the model, not a violation)',
    'every class / branch: the file that is loaded is the file save() wrote (StrengthModel.load and loadRecordedPSD hand the name to np.load, which unlike np.savez does not add .npz: counted as an observation, see the histogram); GrainGrowthModel and Coupler inherit GenericModel.save with an empty toDict: nothing is written, the oracle holds vacuously (they are not precipitation or diffusion models; counted as no-fields-written); PrecipitateModel.saveRecordedPSD writes nothing while recording is switched off',
    'phase names of one model are distinct',
    'finite array contents; array dtype (finalTime may be saved as int64) is not modelled, values are compared as doubles',
    'argument forwarding is observed on a recording mock thermodynamics with marker values (non-default value for every parameter; phases PREC2 / PREC3 of a 4-phase mock) and, on the real Al-Mg-Si system, on a spy around the real object; extra positional arguments are taken to follow the documented order: the getter own parameters, then the remaining parameters of the thermodynamics method',
    'the untrained getter must return exactly what the thermodynamics call it made returned (same object, or the same shapes / dtypes / entries), having made exactly one call of the method of the same name with the caller\'s arguments; an independent second thermodynamics call (removeCache=True) is compared with rtol 1e-6 only: two pycalphad evaluations of the same point agree to the minimiser tolerance (1e-12 typical, 6e-10 seen in a precipitate composition, 1e-8 in Al-Mg-Si curvature factors)',
]
TRUSTED = ['np.savez_compressed / np.load / dict(NpzFile) semantics as modelled in KawinV.SaveLoad (compared on every run)',
           'json.dump / json.load number printing and parsing', 'SciPy RBFInterpolator']

GEN_FILE = os.path.join(vlib.LEAN, 'KawinV', 'Gen', 'C20Tables.lean')
PHASE_SLOTS = ['PBM.(min,max,bins)', 'PBM.PSD', 'PBM.PSDbounds', 'PBM.PSDsize', 'eqAspectRatio',
               'PBM._recordedTime', 'PBM._recordedBins', 'PBM._recordedPSD']
PSDREC_SLOTS = ['PBM._recordedTime', 'PBM._recordedBins', 'PBM._recordedPSD']
DIFF_SLOTS = ['t', 'x', '_recordedX', '_recordedTime']


class StopRun(Exception):
    pass


def _quiet():
    return contextlib.redirect_stdout(io.StringIO())


# ============================================================================ slots of the real objects
def _attributes():
    vlib.use_repo()
    from kawin.precipitation.PrecipitationParameters import PrecipitationData
    return list(PrecipitationData.ATTRIBUTES)


def precip_slot_names(model):
    names = ['pData.' + a for a in _attributes()]
    for ph in model.phases:
        names += ['%s@%s' % (s, ph) for s in PHASE_SLOTS]
    return names


def precip_get(model, slot):
    if slot.startswith('pData.'):
        return getattr(model.pData, slot[6:], None)
    name, ph = slot.split('@')
    p = list(model.phases).index(ph)
    pbm = model.PBM[p]
    if name == 'PBM.(min,max,bins)':
        return np.array([pbm.min, pbm.max, pbm.bins], dtype=float)
    if name == 'eqAspectRatio':
        return model.eqAspectRatio[p]
    return getattr(pbm, name[4:], None)


def precip_set(model, slot, v):
    if slot.startswith('pData.'):
        setattr(model.pData, slot[6:], v); return
    name, ph = slot.split('@')
    p = list(model.phases).index(ph)
    pbm = model.PBM[p]
    if name == 'PBM.(min,max,bins)':
        pbm.min, pbm.max, pbm.bins = float(v[0]), float(v[1]), int(v[2])
    elif name == 'eqAspectRatio':
        model.eqAspectRatio[p] = v
    else:
        setattr(pbm, name[4:], v)


def diff_get(model, slot):
    return getattr(model, slot, None)


def diff_set(model, slot, v):
    setattr(model, slot, v)


def same(a, b):
    """bit-for-bit equality of two slot values (None only equals None); dtype ignored, values as doubles"""
    if a is None or b is None:
        return a is None and b is None
    a = np.asarray(a); b = np.asarray(b)
    if a.dtype == object or b.dtype == object:
        return False
    if a.shape != b.shape:
        return False
    return np.array_equal(np.asarray(a, dtype=float), np.asarray(b, dtype=float), equal_nan=True)


def brief(v):
    if v is None:
        return None
    a = np.asarray(v)
    return {'shape': list(a.shape), 'head': np.ravel(a)[:3].tolist() if a.dtype != object else repr(v)[:40]}


# ============================================================================ table extraction (regenerate)
class RecDict(dict):
    """dict that records which keys are read, in order"""
    def __init__(self, *a):
        super().__init__(*a); self.reads = []

    def _log(self, k):
        if k not in self.reads:
            self.reads.append(k)

    def __getitem__(self, k):
        self._log(k); return super().__getitem__(k)

    def get(self, k, default=None):
        self._log(k); return super().get(k, default)

    def __contains__(self, k):
        self._log(k); return super().__contains__(k)

    def pop(self, k, *a):
        self._log(k); return super().pop(k, *a)


class _Marker:
    """distinct finite doubles; every array handed out is different from every other one"""
    def __init__(self):
        self.k = 0

    def arr(self, shape):
        n = int(np.prod(shape)) if len(shape) else 1
        self.k += 1
        a = (1000.0 * self.k + np.arange(n, dtype=float) * 0.25 + 0.125).reshape(shape)
        return a

    def pbm(self):
        self.k += 1
        return np.array([1e-10 * self.k, 2.5e-9 * self.k, 5 + self.k], dtype=float)     # max >= 10*min: the PBM constructor enforces it


def _new_precip(phases, elements):
    vlib.use_repo()
    from kawin.precipitation import PrecipitateModel
    return PrecipitateModel(phases=list(phases), elements=list(elements))


def _new_diff_plain(record=True):
    vlib.use_repo()
    from kawin.diffusion import SinglePhaseModel
    return SinglePhaseModel([-1.0, 1.0], 5, ['A', 'B', 'C'], ['ALPHA'], record=record)


def _new_homog_plain(record=True):
    vlib.use_repo()
    from kawin.diffusion import HomogenizationModel
    return HomogenizationModel([-1.0, 1.0], 5, ['A', 'B', 'C'], ['ALPHA', 'BETA'], record=record)


def _fill(model, names, setter, mk):
    vals = {}
    for i, s in enumerate(names):
        if s.startswith('PBM.(min'):
            v = mk.pbm()
        elif s == 't':
            v = mk.arr(())
        else:
            v = mk.arr((3 + i % 3, 2) if i % 2 else (4 + i % 3,))
        setter(model, s, v); vals[s] = v
    return vals


def _match(value, candidates):
    """name of the candidate whose value equals `value` (as double arrays), else None"""
    for name, v in candidates.items():
        try:
            if same(np.asarray(value, dtype=float), v):
                return name
        except (TypeError, ValueError):
            pass
    return None


def extract_tables(new_model, names_of, getter, setter):
    """run the real toDict / fromDict of a freshly built model on marker data; returns (writes, reads) as lists of
    (key, slot, optional)"""
    mk = _Marker()
    m = new_model()
    names = names_of(m)
    vals = _fill(m, names, setter, mk)
    d = m.toDict()
    writes = []
    for k, v in d.items():
        slot = _match(v, vals) or '?'
        opt = False
        if slot != '?' and not slot.startswith('PBM.(min'):
            setter(m, slot, None)
            try:
                opt = k not in m.toDict()
            except Exception:
                opt = False
            finally:
                setter(m, slot, vals[slot])
        writes.append((k, slot, opt))
    # ---- reads: recording dict with fresh marker data per key
    def fresh_data(keys):
        data = {}
        for k in keys:
            proto = d.get(k)
            if proto is not None and np.asarray(proto, dtype=float).shape == (3,) and _match(proto, {s: v for s, v in vals.items() if s.startswith('PBM.(min')}):
                data[k] = mk.pbm()
            elif proto is not None:
                data[k] = mk.arr(np.asarray(proto, dtype=float).shape)
            else:
                data[k] = mk.arr((4,))
        return data
    keys = list(d.keys())
    for _attempt in range(40):
        data = fresh_data(keys)
        m2 = new_model()
        pre = _fill(m2, names_of(m2), setter, mk)      # marker data in the fresh model too: what does fromDict leave alone / reset?
        rec = RecDict(data)
        try:
            m2.fromDict(rec)
            break
        except KeyError as e:        # fromDict reads a key toDict does not write: add it and look for further reads
            k = e.args[0]
            if k in keys:
                raise
            keys.append(k)
        except Exception:            # fromDict cannot digest what toDict wrote for this state: tabulate what happened up to the failure
            break
    else:
        raise RuntimeError('fromDict keeps raising KeyError')
    names2 = names_of(m2)
    got = {s: getter(m2, s) for s in names2}
    reads = []
    for k in rec.reads:
        slots = [s for s in names2 if got[s] is not None and k in data and _safe_same(got[s], data[k])]
        # optional?  remove the key and see what a fresh model does
        m3 = new_model(); names3 = names_of(m3)
        before = {s: getter(m3, s) for s in names3}
        less = RecDict({kk: vv for kk, vv in fresh_data(keys).items() if kk != k})
        try:
            m3.fromDict(less); opt = True
        except Exception:           # KeyError, or any other failure caused by the missing key: the key is mandatory
            opt = False
        if not slots:
            reads.append((k, '?', opt))
        for s in slots:
            o = opt
            if opt and getter(m3, s) is not None:
                reads.append((k, '?keeps-default:' + s, o))      # a missing key leaves something else than None
            else:
                reads.append((k, s, o))
    read_slots = {r[1] for r in reads}
    resets = []
    for sl in names2:
        if sl in read_slots:
            continue
        if got[sl] is None:
            resets.append(sl)                       # fromDict sets it to None whatever the data
        elif not _safe_same(got[sl], pre[sl]):
            resets.append('?changed:' + sl)         # changed to something that is neither data nor None
    return writes, reads, resets


def _safe_same(a, b):
    try:
        return same(np.asarray(a, dtype=float), np.asarray(b, dtype=float))
    except (TypeError, ValueError):
        return False


def templates(entries, phases):
    """split (key, slot, opt) lines into global lines and per-phase templates; raises if the phases disagree"""
    glob, per = [], {ph: [] for ph in phases}
    for k, s, o in entries:
        for ph in phases:
            if k.endswith(ph) and (s.endswith('@' + ph) or '@' not in s):
                per[ph].append((k[:-len(ph)], s[:-(len(ph) + 1)] if s.endswith('@' + ph) else s, o)); break
        else:
            glob.append((k, s, o))
    first = per[phases[0]]
    for ph in phases[1:]:
        if per[ph] != first:
            raise RuntimeError('per-phase lines differ between phases: %r vs %r' % (first, per[ph]))
    return glob, first


def slot_templates(slots, phases):
    glob, per = [], {ph: [] for ph in phases}
    for sl in slots:
        for ph in phases:
            if sl.endswith('@' + ph):
                per[ph].append(sl[:-(len(ph) + 1)]); break
        else:
            glob.append(sl)
    for ph in phases[1:]:
        if per[ph] != per[phases[0]]:
            raise RuntimeError('per-phase reset slots differ between phases')
    return glob, per[phases[0]]


def expand(glob, per, phases):
    out = list(glob)
    for ph in phases:
        out += [(k + ph, (s + '@' + ph) if s != '?' else s, o) for k, s, o in per]
    return out


# ---------------------------------------------------------------------------- every class with a save / load pair
def saveload_pairs():
    """walk the kawin package under test: every class that defines or inherits a method pair save<X> / load<X>
    -> [(class name, module, save method, load method, signature of the save method)]"""
    vlib.use_repo()
    import importlib, pkgutil
    import kawin
    out = []
    for mi in pkgutil.walk_packages(kawin.__path__, 'kawin.'):
        if '.tests' in mi.name:
            continue
        try:
            mod = importlib.import_module(mi.name)
        except Exception:
            continue
        for n, c in inspect.getmembers(mod, inspect.isclass):
            if c.__module__ != mod.__name__:
                continue
            for a in sorted(dir(c)):
                if a.startswith('save') and callable(getattr(c, a)) and callable(getattr(c, 'load' + a[4:], None)):
                    out.append((c.__name__, c.__module__, a, 'load' + a[4:], str(inspect.signature(getattr(c, a)))))
    return sorted(set(out))


def save_variants(fn):
    """every combination of the boolean keywords of a save method -> [(branch tag, kwargs)]; the tag names the on-disk format:
    'compressed' (np.savez_compressed, also the only format of GenericModel.save) | 'uncompressed' (np.savez)"""
    params = [p for p in list(inspect.signature(fn).parameters.values())[1:] if isinstance(p.default, bool)]
    combos = [{}]
    for p in params:
        combos = [dict(c, **{p.name: v}) for c in combos for v in (True, False)]
    out = []
    for kw in combos:
        tag = 'compressed' if kw.get('compressed', True) else 'uncompressed'
        tag += ''.join(',%s=%s' % (k, v) for k, v in sorted(kw.items()) if k != 'compressed')
        out.append((tag, kw))
    return out


def branch_of(tag):
    return tag.split(',')[0]


def plain_slot_names(obj):
    """instance attributes holding an array or None: the candidates for what a save method writes"""
    return [k for k, v in vars(obj).items() if v is None or isinstance(v, np.ndarray)]


def plain_classes():
    """the classes whose save / load pair is not the per-phase toDict / fromDict of the precipitation model; `new` builds an
    object in the state in which its save method writes a file"""
    vlib.use_repo()
    from kawin.precipitation.coupling import StrengthModel, GrainGrowthModel
    from kawin.precipitation import PopulationBalanceModel
    from kawin.GenericModel import Coupler
    def rec_pbm():
        p = PopulationBalanceModel(); p.setRecording(True); return p
    return [dict(name='StrengthModel', new=StrengthModel, save='save', load='load'),
            dict(name='PopulationBalanceModel', new=rec_pbm, save='saveRecordedPSD', load='loadRecordedPSD'),
            dict(name='GrainGrowthModel', new=GrainGrowthModel, save='save', load='load'),
            dict(name='Coupler', new=lambda: Coupler([GrainGrowthModel()]), save='save', load='load')]


def written_file(d):
    fs = sorted(os.listdir(d))
    if len(fs) != 1:
        raise RuntimeError('save wrote %d files: %s' % (len(fs), fs))
    return os.path.join(d, fs[0])


def read_npz(fn):
    with np.load(fn, allow_pickle=True) as z:
        return {k: (None if z[k].dtype == object else np.array(z[k])) for k in z.files}


def extract_plain_tables(spec):
    """run the real save method (every keyword branch) and the real load method of an object whose array attributes hold
    marker data -> ({branch tag: [(key, slot, optional)]}, [(key, slot, optional)] of load)"""
    mk = _Marker()
    writes, protos = {}, {}
    for tag, kw in save_variants(getattr(spec['new'](), spec['save'])):
        o = spec['new']()
        names = plain_slot_names(o)
        vals = {}
        for i, s in enumerate(names):
            vals[s] = mk.arr((3 + i % 3, 2) if i % 2 else (4 + i % 3,)); setattr(o, s, vals[s])
        def saved():
            d = tempfile.mkdtemp(prefix='kawin_C20_tab_', dir='/tmp')
            try:
                getattr(o, spec['save'])(os.path.join(d, 'f.npz'), **kw)
                return read_npz(written_file(d)) if os.listdir(d) else {}
            finally:
                shutil.rmtree(d, ignore_errors=True)
        f = saved()
        lines = []
        for k, v in f.items():
            slot = (_match(v, vals) if v is not None else None) or '?'
            opt = False
            if slot != '?':
                setattr(o, slot, None)
                try:
                    opt = k not in saved()
                except Exception:
                    opt = False
                finally:
                    setattr(o, slot, vals[slot])
            lines.append((k, slot, opt))
            protos.setdefault(k, v)
        writes[tag] = lines
    # ---- load: a file with fresh marker data under every key any branch writes, loaded into an object full of marker data
    keys = list(protos)
    def fresh_file(d, skip=None):
        data = {k: mk.arr(np.shape(protos[k]) if protos[k] is not None else (4,)) for k in keys if k != skip}
        fn = os.path.join(d, 'g.npz')
        np.savez(fn, **data)
        return fn, data
    d = tempfile.mkdtemp(prefix='kawin_C20_tab_', dir='/tmp')
    try:
        fn, data = fresh_file(d)
        o2 = spec['new']()
        names2 = plain_slot_names(o2)
        pre = {}
        for i, s in enumerate(names2):
            pre[s] = mk.arr((2 + i % 3,)); setattr(o2, s, pre[s])
        getattr(o2, spec['load'])(fn)
        got = {s: getattr(o2, s, None) for s in names2}
        reads = []
        for k in keys:
            slots = [s for s in names2 if got[s] is not None and _safe_same(got[s], data[k])]
            fn3, _ = fresh_file(d, skip=k)
            o3 = spec['new']()
            try:
                getattr(o3, spec['load'])(fn3); opt = True
            except Exception:
                opt = False
            for s in slots:
                reads.append((k, s if not (opt and getattr(o3, s, None) is not None) else '?keeps-default:' + s, opt))
        read_slots = {r[1] for r in reads}
        for s in names2:            # an attribute load changes without taking it from the file
            if s not in read_slots and not _safe_same(got[s], pre[s]):
                reads.append(('?', '?changed:' + s, False))
    finally:
        shutil.rmtree(d, ignore_errors=True)
    return writes, reads


class RecTherm:
    """recording mock thermodynamics: every method call is logged and answered with a unique token"""
    def __init__(self, n):
        self.numElements = n
        self.elements = ['E%d' % i for i in range(n)]
        self.phases = ['MATRIX', 'PREC1', 'PREC2', 'PREC3']      # several precipitate phases: a named phase need not be the default one
        self.calls = []

    def __getattr__(self, name):
        if name.startswith('__'):
            raise AttributeError(name)

        def f(*a, **k):
            tok = ('RESULT', name, len(self.calls))
            self.calls.append((name, a, k, tok))
            return tok
        return f


def surrogate_getters(cls):
    out = []
    for name in sorted(dir(cls)):
        if name.startswith('_') or name.startswith('train') or name in ('toJson', 'fromJson'):
            continue
        if callable(getattr(cls, name)):
            out.append(name)
    return out


def fallthrough_table(cls, nel):
    """for every public getter of an untrained surrogate: thermodynamics methods called, and whether the positional
    arguments went through unchanged and the result came back unchanged"""
    table, passes = [], []
    for g in surrogate_getters(cls):
        th = RecTherm(nel)
        s = cls(th)
        sig = inspect.signature(getattr(s, g))
        args = [('ARG', p.name) for p in sig.parameters.values()
                if p.default is inspect.Parameter.empty and p.kind in (p.POSITIONAL_ONLY, p.POSITIONAL_OR_KEYWORD)]
        try:
            r = getattr(s, g)(*args)
        except Exception as e:      # a getter that touches its arguments before the fall-through
            table.append((g, '?raises-' + type(e).__name__)); passes.append((g, False)); continue
        if not th.calls:
            table.append((g, '?no-call')); passes.append((g, False)); continue
        for name, a, k, tok in th.calls:
            table.append((g, name))
        name, a, k, tok = th.calls[-1]
        flat = list(a) + list(k.values())
        ok = len(th.calls) == 1 and r is tok and all(any(x is y for y in flat) for x in args)
        passes.append((g, bool(ok)))
    return table, passes


# ============================================================================ argument forwarding of the untrained branch
def thermo_class(cls):
    """the thermodynamics class a surrogate class is written for (annotation of its constructor argument)"""
    vlib.use_repo()
    par = inspect.signature(cls.__init__).parameters.get('thermodynamics')
    if par is not None and inspect.isclass(par.annotation):
        return par.annotation
    from kawin.thermo import GeneralThermodynamics
    return GeneralThermodynamics


def getter_spec(cls, g):
    """named parameters (name, default) of the surrogate getter, whether it takes *args / **kwargs, the named parameters of the
    thermodynamics method of the same name, and the further keyword arguments a caller can hand over through **kwargs"""
    named, star_a, star_k = [], False, False
    for p in list(inspect.signature(getattr(cls, g)).parameters.values())[1:]:
        if p.kind == p.VAR_POSITIONAL:
            star_a = True
        elif p.kind == p.VAR_KEYWORD:
            star_k = True
        else:
            named.append((p.name, p.default))
    tm = getattr(thermo_class(cls), g, None)
    tsig = None
    if tm is not None:
        tsig = [(p.name, p.default) for p in list(inspect.signature(tm).parameters.values())[1:]
                if p.kind in (p.POSITIONAL_ONLY, p.POSITIONAL_OR_KEYWORD, p.KEYWORD_ONLY)]
    names = [n for n, _ in named]
    extras = [(n, d) for n, d in (tsig or []) if n not in names] if star_k else []
    nreq = len([1 for _, d in named if d is inspect.Parameter.empty])
    return dict(getter=g, named=named, star_args=star_a, star_kwargs=star_k, tsig=tsig, extras=extras, nreq=nreq)


EMPTY = inspect.Parameter.empty


def arg_value(name, default, phases):
    """a value different from the default (and from what the default resolves to) for the parameter `name`"""
    low = name.lower()
    if 'phase' in low:
        return phases[2] if 'prec' in low else phases[-1]
    if isinstance(default, bool):
        return not default
    return ('ARG', name)


def resolved_default(name, default, phases):
    """what the getter hands on for a named parameter the caller left out (None phases are resolved to the first precipitate /
    the matrix phase by kawin.thermo.utils._getPrecipitatePhase / _getMatrixPhase)"""
    low = name.lower()
    if default is None and 'phase' in low:
        return phases[1] if 'prec' in low else phases[0]
    return default


def tokof(v):
    if isinstance(v, tuple) and len(v) == 2 and v[0] == 'ARG':
        return 'ARG:%s' % v[1]
    if isinstance(v, str):
        return v if (v and ' ' not in v) else repr(v).replace(' ', '_')
    return repr(v).replace(' ', '')


def same_arg(a, b):
    if a is b:
        return True
    return isinstance(a, (str, bool)) and type(a) is type(b) and a == b


def classify_typeerror(msg):
    m = re.search(r"multiple values for (?:keyword )?argument '(\w+)'", msg)
    if m:
        return ('multiple', m.group(1))
    m = re.search(r"unexpected keyword argument '(\w+)'", msg)
    if m:
        return ('unexpected', m.group(1))
    if 'positional argument' in msg:
        return ('toomany',)
    m = re.search(r"missing a required argument: '(\w+)'", msg)
    if m:
        return ('missing', m.group(1))
    return ('other', msg[:60])


def probe_call(cls, nel, g, pos, kw):
    """call the untrained getter on a recording mock thermodynamics; what the mock received"""
    th = RecTherm(nel)
    s = cls(th)
    try:
        r = getattr(s, g)(*pos, **kw)
    except TypeError as e:
        return dict(raised=classify_typeerror(str(e)), msg=str(e), calls=th.calls, result=None, phases=th.phases)
    except Exception as e:
        return dict(raised=('exception', type(e).__name__), msg=str(e), calls=th.calls, result=None, phases=th.phases)
    return dict(raised=None, msg=None, calls=th.calls, result=r, phases=th.phases)


def bind_thermo(cls, g, a, k):
    """bind the call the mock received to the signature of the REAL thermodynamics method: (arguments, None) or (None, error)"""
    tm = getattr(thermo_class(cls), g, None)
    if tm is None:
        return None, ('nomethod',)
    try:
        b = inspect.signature(tm).bind(None, *a, **k)
    except TypeError as e:
        return None, classify_typeerror(str(e))
    d = dict(b.arguments)
    d.pop(next(iter(inspect.signature(tm).parameters)), None)
    return d, None


MOCK_PHASES = RecTherm(2).phases


def canonical_calls(spec):
    """call forms of one getter: (form, positional values, keyword values, intended {thermodynamics parameter: value})"""
    ph = MOCK_PHASES
    val = {n: arg_value(n, d, ph) for n, d in spec['named'] + spec['extras']}
    names = [n for n, _ in spec['named']]
    req, opt = names[:spec['nreq']], names[spec['nreq']:]
    ext = [n for n, _ in spec['extras']]
    forms = [('default', [val[n] for n in req], {}, {n: val[n] for n in req})]
    forms.append(('keyword', [val[n] for n in req], {n: val[n] for n in opt + ext}, {n: val[n] for n in names + ext}))
    for n in opt + ext:
        forms.append(('single-keyword:' + n, [val[n2] for n2 in req], {n: val[n]}, {n2: val[n2] for n2 in req + [n]}))
    if opt:
        forms.append(('positional-named', [val[n] for n in names], {}, {n: val[n] for n in names}))
        forms.append(('positional-named+keyword-extras', [val[n] for n in names], {n: val[n] for n in ext}, {n: val[n] for n in names + ext}))
    if spec['star_args'] and ext:
        # the documented order: the getter's own parameters, then the remaining parameters of the thermodynamics method
        for j in range(1, len(ext) + 1):
            forms.append(('positional-extras:%d' % j, [val[n] for n in names + ext[:j]], {}, {n: val[n] for n in names + ext[:j]}))
    return forms


def forwarding_rows(cls, nel):
    """per getter: how the untrained branch hands each named parameter / each further keyword argument on to the thermodynamics
    method ('pos' | 'kw' | 'kw:<other name>' | 'drop'), read off the call a recording mock received for the all-keyword form"""
    rows = []
    for g in surrogate_getters(cls):
        spec = getter_spec(cls, g)
        form, pos, kw, intended = canonical_calls(spec)[1]
        pr = probe_call(cls, nel, g, pos, kw)
        target, hows, ehows = '?', [], []
        if pr['raised'] is None and len(pr['calls']) == 1:
            target, a, k, _tok = pr['calls'][0]
            claimed = set()

            def how(n):
                v = intended[n]
                for i, y in enumerate(a):
                    if i not in claimed and same_arg(v, y):
                        claimed.add(i)
                        return 'pos'
                if n in k and same_arg(v, k[n]):
                    return 'kw'
                other = [kk for kk, y in k.items() if same_arg(v, y)]
                return 'kw:' + other[0] if other else 'drop'
            hows = [(n, how(n)) for n, _ in spec['named']]
            ehows = [(n, how(n)) for n, _ in spec['extras']]
            # positional hand-over must keep the order of the getter's parameters
            order = [n for n, h in hows if h == 'pos']
            recv = [n for y in a for n in order if same_arg(intended[n], y)]
            if recv != order:
                target = '?reordered'
        elif pr['raised'] is not None:
            target = '?raises-' + '-'.join(pr['raised'])
        else:
            target = '?calls-%d' % len(pr['calls'])
        rows.append((g, target, bool(spec['star_kwargs'] and spec['star_args']), hows, ehows, [n for n, _ in (spec['tsig'] or [])]))
    return rows


def lean_rows(name, doc, rows):
    def pairs(l):
        return '[' + ', '.join('(%s, %s)' % (lean_str(a), lean_str(b)) for a, b in l) + ']'
    body = ',\n   '.join('(%s, %s, %s, %s, %s, [%s])' % (lean_str(g), lean_str(t), 'true' if st else 'false', pairs(h), pairs(e), ', '.join(lean_str(x) for x in ts))
                         for g, t, st, h, e, ts in rows)
    return ('/-- %s -/\ndef %s : List (String × String × Bool × List (String × String) × List (String × String) × List String) :=\n  [%s]\n'
            % (doc, name, body))


def lean_str(s):
    return '"' + s.replace('\\', '\\\\').replace('"', '\\"') + '"'


def lean_entries(name, doc, entries):
    body = ',\n   '.join('(%s, %s, %s)' % (lean_str(k), lean_str(s), 'true' if o else 'false') for k, s, o in entries)
    return '/-- %s -/\ndef %s : List (String × String × Bool) :=\n  [%s]\n' % (doc, name, body)


def lean_pairs(name, doc, pairs, second=lean_str):
    ty = 'String × String' if second is lean_str else 'String × Bool'
    body = ',\n   '.join('(%s, %s)' % (lean_str(a), second(b)) for a, b in pairs)
    return '/-- %s -/\ndef %s : List (%s) :=\n  [%s]\n' % (doc, name, ty, body)


def lean_save_rows(name, doc, rows):
    b = lambda x: 'true' if x else 'false'
    ent = lambda es: '[' + ', '.join('(%s, %s, %s)' % (lean_str(k), lean_str(sl), b(o)) for k, sl, o in es) + ']'
    body = ',\n   '.join('(%s, %s,\n      %s,\n      %s)' % (lean_str(c), lean_str(t), ent(w), ent(r)) for c, t, w, r in rows)
    return '/-- %s -/\ndef %s : List (String × String × List (String × String × Bool) × List (String × String × Bool)) :=\n  [%s]\n' % (doc, name, body)


def lean_strs(name, doc, xs):
    return '/-- %s -/\ndef %s : List String :=\n  [%s]\n' % (doc, name, ', '.join(lean_str(x) for x in xs))


def build_tables():
    vlib.use_repo()
    with warnings.catch_warnings():
        warnings.simplefilter('ignore')
        from kawin.thermo import BinarySurrogate, MulticomponentSurrogate
        attrs = _attributes()
        rec_ph = ['PHA', 'PHB']
        pw, pr, pz = extract_tables(lambda: _new_precip(rec_ph, ['E1', 'E2']), precip_slot_names, precip_get, precip_set)
        gW, phW = templates(pw, rec_ph)
        gR, phR = templates(pr, rec_ph)
        gZ, phZ = slot_templates(pz, rec_ph)
        # the templates must also describe a model with other names and another number of phases / elements
        ph3 = ['X1', 'Y22', 'Z333']
        pw3, pr3, pz3 = extract_tables(lambda: _new_precip(ph3, ['E1']), precip_slot_names, precip_get, precip_set)
        if (sorted(pw3) != sorted(expand(gW, phW, ph3)) or sorted(pr3) != sorted(expand(gR, phR, ph3))
                or sorted(pz3) != sorted(gZ + [z + '@' + ph for ph in ph3 for z in phZ])):
            raise RuntimeError('toDict/fromDict lines of a 3-phase model are not the per-phase templates of the 2-phase model')
        dw, dr, dz = extract_tables(lambda: _new_diff_plain(True), lambda m: list(DIFF_SLOTS), diff_get, diff_set)
        bt, bp = fallthrough_table(BinarySurrogate, 2)
        mt, mp = fallthrough_table(MulticomponentSurrogate, 3)
        bf, mf = forwarding_rows(BinarySurrogate, 2), forwarding_rows(MulticomponentSurrogate, 3)
        # ---- one row per (class with a save/load pair, keyword branch of save)
        rows, kwcls = [], []
        for spec in plain_classes():
            w, r = extract_plain_tables(spec)
            if len(w) > 1:
                kwcls.append(spec['name'])
            rows += [(spec['name'], tag, lines, r) for tag, lines in w.items()]
        hw, hr, hz = extract_tables(lambda: _new_homog_plain(True), lambda m: list(DIFF_SLOTS), diff_get, diff_set)
        rows += [('SinglePhaseModel', 'compressed', dw, dr), ('HomogenizationModel', 'compressed', hw, hr),
                 ('PrecipitateModel', 'compressed', pw, pr)]         # the lines as recorded on the 2-phase model (phases rec_ph)
        if hz != dz:
            raise RuntimeError('HomogenizationModel.fromDict resets %r, SinglePhaseModel.fromDict %r' % (hz, dz))
        pairs = saveload_pairs()
    return dict(rows=rows, kwcls=kwcls, pairs=pairs, bf=bf, mf=mf, attrs=attrs, rec_ph=rec_ph, pw=pw, pr=pr, gW=gW, phW=phW, gR=gR, phR=phR, gZ=gZ, phZ=phZ, dw=dw, dr=dr, dz=dz,
                bg=surrogate_getters(BinarySurrogate), mg=surrogate_getters(MulticomponentSurrogate), bt=bt, bp=bp, mt=mt, mp=mp)


def render_tables(t):
    b = lambda x: 'true' if x else 'false'
    parts = ['/-\nGENERATED on every run by tools/corr/C20.py regenerate() — do not edit.\n'
             'Tables read off the running kawin code with recording objects (marker arrays in every observable slot,\n'
             'a recording dict handed to fromDict, a recording mock thermodynamics under the untrained surrogates).\n'
             'A line is (dictionary key, model slot, optional).  Slot "?" = no observable slot matched.\n-/\n'
             'namespace KawinV.Gen.C20\n',
             lean_strs('attributes', 'PrecipitationData.ATTRIBUTES', t['attrs']),
             lean_entries('precipGlobalW', 'PrecipitateModel.toDict: lines not depending on the phase', t['gW']),
             lean_entries('precipPhaseW', 'PrecipitateModel.toDict: lines executed per phase (key = prefix + phase name, slot = name@phase)', t['phW']),
             lean_entries('precipGlobalR', 'PrecipitateModel.fromDict: lines not depending on the phase', t['gR']),
             lean_entries('precipPhaseR', 'PrecipitateModel.fromDict: lines executed per phase', t['phR']),
             lean_strs('precipGlobalReset', 'PrecipitateModel.fromDict: global slots set to None whatever the data', t['gZ']),
             lean_strs('precipPhaseReset', 'PrecipitateModel.fromDict: per-phase slots set to None whatever the data (the PopulationBalanceModel objects are replaced)', t['phZ']),
             lean_strs('precipRecordedPhases', 'phase names of the model the lines were recorded on', t['rec_ph']),
             lean_entries('precipRecordedW', 'toDict lines exactly as recorded on that model', t['pw']),
             lean_entries('precipRecordedR', 'fromDict lines exactly as recorded on that model', t['pr']),
             lean_entries('diffW', 'DiffusionModel.toDict', t['dw']),
             lean_entries('diffR', 'DiffusionModel.fromDict', t['dr']),
             lean_strs('diffReset', 'DiffusionModel.fromDict: slots set to None whatever the data', t['dz']),
             lean_strs('binaryGetters', 'public getters of BinarySurrogate', t['bg']),
             lean_pairs('binaryFallthrough', 'untrained BinarySurrogate: (getter, thermodynamics method called)', t['bt']),
             lean_pairs('binaryPassThrough', 'untrained BinarySurrogate: (getter, exactly one call, arguments and result handed through unchanged)', t['bp'], b),
             lean_strs('multiGetters', 'public getters of MulticomponentSurrogate', t['mg']),
             lean_pairs('multiFallthrough', 'untrained MulticomponentSurrogate: (getter, thermodynamics method called)', t['mt']),
             lean_pairs('multiPassThrough', 'untrained MulticomponentSurrogate: (getter, exactly one call, arguments and result handed through unchanged)', t['mp'], b),
             lean_rows('binaryForwarding', 'untrained BinarySurrogate, argument forwarding: (getter, thermodynamics method called, takes *args/**kwargs, '
                       '[(named parameter, handed on as "pos" | "kw" | "kw:<other name>" | "drop")], [(further keyword argument of the thermodynamics method, handed on as)], '
                       'parameter names of the thermodynamics method of the same name)', t['bf']),
             lean_rows('multiForwarding', 'untrained MulticomponentSurrogate, argument forwarding (same layout)', t['mf']),
             lean_save_rows('saveTables', 'EVERY class with a save / load pair x EVERY keyword branch of its save method: (class, branch = on-disk format, '
                            'lines (key in the file, attribute written, skipped when None) of that branch, lines (key, attribute stored into, missing key tolerated) of load); '
                            'read off the real methods run on marker arrays in every array attribute', t['rows']),
             lean_strs('saveKeywordClasses', 'classes whose save method has a `compressed` keyword (two branches)', t['kwcls']),
             lean_pairs('saveLoadPairs', 'every class of the package that defines or inherits a save<X> / load<X> method pair: (class, save method)', [(c, a) for c, _m, a, _l, _s in t['pairs']]),
             'end KawinV.Gen.C20\n']
    return '\n'.join(parts)


_TABLES = {}


def tables():
    if 't' not in _TABLES:
        _TABLES['t'] = build_tables()
    return _TABLES['t']


def regenerate(ctx):
    changed = vlib.write_if_changed(GEN_FILE, render_tables(tables()))
    return [os.path.relpath(GEN_FILE, vlib.VERIF)] if changed else []


# ============================================================================ protocol helpers
def enc_val(v):
    if v is None:
        return 'N'
    a = np.asarray(v, dtype=float)
    return 'A %d %s %s' % (a.ndim, ' '.join(str(d) for d in a.shape), enc_list(a.ravel()))


def enc_slots(d):
    return '%d %s' % (len(d), ' '.join('%s %s' % (k, enc_val(v)) for k, v in d.items()))


def parse_rt(line):
    t = Toks(line)
    if not t.ok:
        return {'bad': t.err}
    assert t.tok() == 'K'
    keys = [t.tok() for _ in range(t.nat())]
    kind = t.tok()
    if kind == 'E':
        what = t.tok()
        return {'keys': keys, 'err': (what, t.tok()) if what == 'keyerror' else (what,)}
    slots = {}
    for _ in range(t.nat()):
        name = t.tok(); tag = t.tok()
        if tag == 'N':
            slots[name] = None
        else:
            shape = tuple(t.nat() for _ in range(t.nat()))
            slots[name] = np.array(t.flts(), dtype=float).reshape(shape)
    return {'keys': keys, 'err': None, 'slots': slots}


def show_nest(x):
    if isinstance(x, list):
        return '[ ' + ' '.join(show_nest(y) for y in x) + ' ]' if x else '[  ]'
    return 'nan' if (isinstance(x, float) and math.isnan(x)) else f2b(x)


# ============================================================================ running real models
class StepCap:
    """ends a solve call normally (stop flag from postProcess) after `limit` accepted steps"""
    def __init__(self, model):
        self.model, self.count, self.limit = model, 0, None
        orig = type(model).postProcess
        cap = self

        def pp(time, x):
            x2, stop = orig(model, time, x)
            cap.count += 1
            return x2, (stop or (cap.limit is not None and cap.count >= cap.limit))
        model.postProcess = pp

    def solve(self, simTime, limit, solver='euler'):
        vlib.use_repo()
        from kawin.solver import SolverType
        self.count, self.limit = 0, limit
        with _quiet(), warnings.catch_warnings():
            warnings.simplefilter('ignore')
            self.model.solve(simTime, solverType=SolverType.EXPLICITEULER if solver == 'euler' else SolverType.RK4, verbose=False)
        return self.count


def build_precip(cfg):
    import kwnruns
    vlib.use_repo()
    if cfg['system'] == 'AlZr':
        m = kwnruns.build_binary(x0=cfg['x0'], T=cfg['T'], gamma=cfg['gamma'], bins=cfg['bins'], minBins=cfg['minBins'],
                                 maxBins=cfg['maxBins'], adaptive=cfg['adaptive'], record=False, cMax=cfg.get('cMax', 1e-8))
    elif cfg['system'] == 'NiCrAl':
        m = kwnruns.build_ternary(x0=cfg['x0'], T=cfg['T'], bins=cfg['bins'], minBins=cfg['minBins'], maxBins=cfg['maxBins'])
    else:
        m = _build_almgsi(cfg)
    if cfg['record'] in (True, 'on-off'):
        m.setPSDrecording(True)
    return m


_ALMGSI = {}


ALMGSI_PHASES = ['FCC_A1', 'MGSI_B_P', 'MG5SI6_B_DP', 'B_PRIME_L', 'U1_PHASE', 'U2_PHASE']


def almgsi_therm():
    """Al-Mg-Si with five precipitate phases (kawin.tests.datasets.ALMGSI_DB)"""
    vlib.use_repo()
    if 'th' not in _ALMGSI:
        from kawin.tests.datasets import ALMGSI_DB
        from kawin.thermo import MulticomponentThermodynamics
        th = MulticomponentThermodynamics(ALMGSI_DB, ['AL', 'MG', 'SI'], ALMGSI_PHASES, drivingForceMethod='tangent')
        th.setDFSamplingDensity(2000); th.setEQSamplingDensity(500)
        _ALMGSI['th'] = th
    return _ALMGSI['th']


def _build_almgsi(cfg):
    """the 5-precipitate Al-Mg-Si configuration of test_precipitationSavingLoading"""
    from kawin.tests.datasets import ALMGSI_DB
    from kawin.thermo import MulticomponentThermodynamics
    from kawin.precipitation import PrecipitateModel, PrecipitateParameters, MatrixParameters, TemperatureParameters
    phases = ALMGSI_PHASES
    almgsi_therm()
    matrix = MatrixParameters(['MG', 'SI'])
    matrix.initComposition = list(cfg['x0'])
    matrix.volume.setVolume(1e-5, 'VM', 4)
    gamma = {'MGSI_B_P': 0.18, 'MG5SI6_B_DP': 0.084, 'B_PRIME_L': 0.18, 'U1_PHASE': 0.18, 'U2_PHASE': 0.18}
    precs = []
    for p in phases[1:]:
        pp = PrecipitateParameters(p); pp.gamma = gamma[p]; pp.volume.setVolume(1e-5, 'VM', 4); precs.append(pp)
    return PrecipitateModel(thermodynamics=_ALMGSI['th'], matrixParameters=matrix, precipitateParameters=precs,
                            temperatureParameters=TemperatureParameters(cfg['T']))


def gen_precip_cfg(rng, system='AlZr'):
    if system == 'AlZr':
        bins = rng.choice([60, 75, 75, 90])
        cMax = 1e-8
        if rng.random() < 0.35:            # narrow initial size range: the classes are extended / re-binned during the run
            bins, cMax = rng.choice([40, 50, 60]), 2e-9
        record = rng.choice([True, False, False, 'on-off', 'off-on'])     # PSD recording on / off / switched between the solve calls
        # PSD recording with adaptive=False is not generated: PopulationBalanceModel.record() pads to `bins` columns although the
        # arrays were allocated with maxBins columns and raises ValueError in the first step (the TODO in its docstring) - no run to save
        return dict(system='AlZr', cMax=cMax, x0=round(8e-3 * rng.uniform(0.94, 1.1), 6), T=round(760.0 + rng.uniform(-8, 10), 2),
                    gamma=0.1, bins=bins, minBins=bins - (25 if cMax > 5e-9 else 10), maxBins=bins + (25 if cMax > 5e-9 else 20), adaptive=True if record else rng.random() < 0.6,
                    record=record, steps=[rng.randint(140, 190), rng.randint(100, 150)] if cMax > 5e-9 else [rng.randint(270, 310), rng.randint(90, 130)],
                    solver='euler' if rng.random() < 0.75 else 'rk4', strength=True)
    if system == 'NiCrAl':
        return dict(system='NiCrAl', x0=(round(0.098 * rng.uniform(0.97, 1.03), 5), 0.083), T=1073.0, bins=75, minBins=50, maxBins=100,
                    record=rng.random() < 0.5, steps=[rng.randint(100, 160), rng.randint(80, 140)], solver='euler', strength=False,
                    adaptive=True, gamma=0.023)
    return dict(system='AlMgSi', x0=(0.0072, 0.0057), T=175 + 273.15, record=rng.random() < 0.5,
                steps=[rng.randint(12, 25), rng.randint(8, 20)], solver='euler', strength=False, bins=150, minBins=100, maxBins=200,
                adaptive=True, gamma=None)


class StubTherm:
    """duck-typed thermodynamics for SinglePhaseModel (what test_diffusion's models need: clearCache, getInterdiffusivity)"""
    def __init__(self, E, seed, D0):
        r = np.random.default_rng(seed)
        self.E, self.D0 = E, D0
        self.base = np.eye(E) * r.uniform(0.5, 1.0, E) + (r.uniform(-0.1, 0.1, (E, E)) * (1 - np.eye(E)) if E > 1 else 0)

    def clearCache(self):
        pass

    def getInterdiffusivity(self, x, T, phase=None):
        x = np.atleast_1d(np.asarray(x, dtype=float))
        D = self.D0 * self.base * (1 + 0.4 * x[0])
        return float(D[0, 0]) if self.E == 1 else np.array(D)


ELS = ['NI', 'CR', 'AL', 'CO', 'FE']
REC_OPTIONS = ['on', 'on', 'off', 'off', 'switched-off', 'switched-off', 'switched-on', 'removed', 'mesh-moved']


def gen_diff_cfg(rng):
    E = rng.choice([1, 1, 2, 3])
    N = rng.randint(5, 40)
    L = 10 ** rng.uniform(-4.5, -2.5)
    ncalls = rng.randint(1, 3)
    rec = rng.choice(REC_OPTIONS)
    if rec in ('switched-off', 'switched-on'):
        ncalls = max(ncalls, 2)             # the switch happens BETWEEN solve calls
    return dict(kind='stub', E=E, N=N, L=L, els=rng.sample(ELS, E + 1), rec=rec, tseed=rng.getrandbits(30),
                D0=10 ** rng.uniform(-15, -12), steps=[rng.randint(3, 40) for _ in range(ncalls)],
                prof=[[round(rng.uniform(0.02, 0.9 / E), 4), round(rng.uniform(0.02, 0.9 / E), 4), rng.choice(['step', 'linear'])] for _ in range(E)],
                solver=rng.choice(['euler', 'euler', 'rk4']), T=round(rng.uniform(900, 1400), 1))


_REALTH = {}


def _real_diff_therm(n):
    vlib.use_repo()
    if n not in _REALTH:
        from kawin.tests.datasets import NICRAL_TDB
        from kawin.thermo import GeneralThermodynamics
        _REALTH[n] = GeneralThermodynamics(NICRAL_TDB, ['NI', 'CR'] if n == 2 else ['NI', 'CR', 'AL'], ['FCC_A1', 'BCC_A2'])
    return _REALTH[n]


def build_diff(cfg):
    vlib.use_repo()
    from kawin.diffusion import SinglePhaseModel, HomogenizationModel
    from kawin.diffusion.DiffusionParameters import CompositionProfile, TemperatureParameters
    cp = CompositionProfile()
    for e, (a, b, kind) in enumerate(cfg['prof']):
        el = cfg['els'][e + 1]
        if kind == 'step':
            cp.addStepCompositionStep(el, a, b, 0.0)
        else:
            cp.addLinearCompositionStep(el, a, b)
    zlim = [-cfg['L'] / 2, cfg['L'] / 2]
    record = cfg['rec'] in ('on', 'switched-off', 'removed', 'mesh-moved')
    tp = TemperatureParameters(cfg['T'])
    if cfg['kind'] == 'stub':
        th = StubTherm(cfg['E'], cfg['tseed'], cfg['D0'])
        return SinglePhaseModel(zlim, cfg['N'], cfg['els'], ['ALPHA'], thermodynamics=th, compositionProfile=cp,
                                temperatureParameters=tp, record=record)
    th = _real_diff_therm(len(cfg['els']))
    if cfg['kind'] == 'real-single':
        return SinglePhaseModel(zlim, cfg['N'], cfg['els'], ['FCC_A1'], thermodynamics=th, compositionProfile=cp,
                                temperatureParameters=tp, record=record)
    return HomogenizationModel(zlim, cfg['N'], cfg['els'], ['FCC_A1', 'BCC_A2'], thermodynamics=th, compositionProfile=cp,
                               temperatureParameters=tp, record=record)


def diff_dt_estimate(m, cfg):
    if cfg['kind'] == 'stub':
        return 0.4 * float(m.dz) ** 2 / (cfg['D0'] * 1.4)
    return None          # real thermodynamics: long simulated time, the call is ended by the step cap


# ============================================================================ save -> load -> compare (oracle + model)
def slots_of(model, names, getter):
    return {s: (None if getter(model, s) is None else np.array(getter(model, s), dtype=float, copy=True)) for s in names}


def key_template(k, phases):
    for ph in sorted(phases, key=len, reverse=True):
        if k.endswith(ph):
            return k[:-len(ph)] + '<phase>'
    return k


def slot_template(s):
    return s.split('@')[0]


# ---------------------------------------------------------------------------- the oracle for EVERY class with a save/load pair
CLS = {'lines': [], 'pending': []}       # sl.cls protocol lines of this corr() call (rows of the generated table saveTables)


def _content_key(v):
    a = np.asarray(v, dtype=float)
    return (a.shape, a.tobytes())


def fields_oracle(res, cname, tag, before, f0, f1, raw, desc):
    """ORACLE on one save -> load of one object.  `before`: attribute -> array | None of the saved object (deep copy taken before
    save), `f0` / `f1`: the freshly constructed object before / after load, `raw`: the entries of the file itself.
    The fields save() writes are DISCOVERED: every attribute load() changed in the fresh object and every attribute whose array is,
    bit for bit, an entry of the file.  Each must hold after load exactly what it held in the saved object; and two entries of the
    file hold identical arrays only if as many attributes of the saved object held that array.
    keys  saveload:<class>:<compressed|uncompressed>:<field>-differs | :<key>-holds-the-same-array-as-<key>"""
    br = branch_of(tag)
    names = list(before)
    file_vals = [v for v in raw.values() if v is not None and np.size(v) > 0]
    changed = [n for n in names if not same(f0[n], f1[n])]
    matched = [n for n in names if before[n] is not None and np.size(before[n]) > 0 and any(_safe_same(before[n], v) for v in file_vals)]
    W = [n for n in names if n in changed or n in matched]
    for n in W:
        if not same(before[n], f1[n]):
            src = [m for m in names if m != n and f1[n] is not None and before[m] is not None and same(before[m], f1[n])]
            res.violate('saveload:%s:%s:%s-differs' % (cname, br, slot_template(n)),
                        '%s: after save(%s) -> load into a freshly constructed object the field %s differs from the saved object%s'
                        % (cname, ', '.join('%s=%r' % kv for kv in sorted(desc.get('save_kwargs', {}).items())) or 'default keywords', n,
                           ' (it holds what the saved object had in %s)' % src[0] if src else ''),
                        desc, observed=brief(f1[n]), required=brief(before[n]))
    # two entries of the file with identical contents
    groups = {}
    for k, v in raw.items():
        if v is not None and np.size(v) > 0:
            groups.setdefault(_content_key(v), []).append(k)
    model_count = {}
    for n in names:
        if before[n] is not None and np.size(before[n]) > 0:
            ck = _content_key(before[n]); model_count[ck] = model_count.get(ck, 0) + 1
    for ck, ks in groups.items():
        if len(ks) > 1 and model_count.get(ck, 0) < len(ks):
            res.violate('saveload:%s:%s:%s-holds-the-same-array-as-%s' % (cname, br, key_template(ks[-1], desc.get('phases', [])), key_template(ks[0], desc.get('phases', []))),
                        '%s: the entries %s of the saved file hold one and the same array, but only %d field(s) of the saved object held it'
                        % (cname, ks, model_count.get(ck, 0)), desc, observed={k: brief(raw[k]) for k in ks[:3]}, required='different fields are saved as different entries')
    vals = [before[n] for n in W]
    populated = bool(W) and all(v is not None and np.size(v) > 0 and np.any(np.asarray(v, dtype=float) != 0) for v in vals)
    distinct = len({_content_key(v) for v in vals if v is not None}) == len(vals)
    res.count('saveload:%s:%s' % (cname, br))
    res.count('saveload-fields:%s' % ('none-written' if not W else 'populated-and-pairwise-distinct' if populated and distinct else 'some-empty-zero-or-equal'))
    if not W:
        res.count('saveload:%s:no-fields-written' % cname)
    return W, populated and distinct


def class_roundtrip(res, tmp, cname, tag, kw, orig, make_fresh, names, do_save, do_load, desc, getter=None, unloadable=False):
    """one class, one keyword branch of its save method: save `orig` into an empty directory, load THE FILE THAT WAS WRITTEN into a
    freshly constructed object, `fields_oracle`; queues the Lean-model line (row of the generated table)"""
    getter = getter or (lambda o, n: getattr(o, n, None))
    br = branch_of(tag)
    desc = dict(desc, saveload_class=cname, branch=tag, save_kwargs=dict(kw))
    before = slots_of(orig, names, getter)
    d = tempfile.mkdtemp(prefix='cls_', dir=tmp)
    try:
        fn = do_save(orig, d, kw)
    except Exception as e:
        res.violate('saveload:%s:%s:save-raises-%s' % (cname, br, type(e).__name__), '%s.save raised %s: %s' % (cname, type(e).__name__, str(e)[:120]), desc,
                    observed=traceback.format_exc()[-500:], required='the model is saved'); return None
    if fn is None or not os.path.exists(fn):
        res.violate('saveload:%s:%s:save-wrote-no-file' % (cname, br), '%s.save returned without writing the file (directory now: %s)' % (cname, sorted(os.listdir(d))), desc); return None
    after = slots_of(orig, names, getter)
    ch = [n for n in names if not same(before[n], after[n])]
    if ch:
        res.violate('saveload:%s:%s:save-changes-the-model' % (cname, br), '%s.save changed field(s) %s of the object it saved' % (cname, ch[:6]), desc,
                    observed={n: brief(after[n]) for n in ch[:4]}, required={n: brief(before[n]) for n in ch[:4]})
    raw = read_npz(fn)
    import zipfile
    with zipfile.ZipFile(fn) as z:
        res.count('saveload-file-on-disk:%s' % ('deflated' if any(i.compress_type == zipfile.ZIP_DEFLATED for i in z.infolist()) else 'stored' if z.infolist() else 'empty-archive'))
    fresh = make_fresh()
    f0 = slots_of(fresh, names, getter)
    outcome, f1 = None, None
    try:
        do_load(fresh, fn)
    except KeyError as e:
        outcome = ('keyerror', str(e.args[0]))
    except ValueError as e:
        outcome = ('objarray',) if 'Object arrays' in str(e) else ('ValueError', str(e)[:80])
    except Exception as e:
        outcome = (type(e).__name__, str(e)[:80])
    nontrivial = False
    if outcome is not None:
        if not unloadable:
            res.violate('saveload:%s:%s:load-raises-%s' % (cname, br, {'objarray': 'ValueError-object-arrays', 'keyerror': 'KeyError'}.get(outcome[0], outcome[0])),
                        '%s: load of the file its own save wrote raised %s' % (cname, outcome,), desc, observed=outcome, required='the file loads')
        else:
            res.count('saveload:%s:never-updated-object-saves-None-and-does-not-load' % cname)
    else:
        f1 = slots_of(fresh, names, getter)
        _W, nontrivial = fields_oracle(res, cname, tag, before, f0, f1, raw, desc)
    res.case(('saveload', cname, tag, repr(sorted((k, repr(v)[:40]) for k, v in desc.items() if k not in ('save_kwargs',)))[:200]), nontrivial)
    row = None
    try:
        row = [r for r in tables()['rows'] if r[0] == cname and r[1] == br]
    except Exception:
        pass
    if row:
        tslots = sorted({e[1] for e in row[0][2] + row[0][3]})
        ok = all(t in before for t in tslots)
        if ok:
            CLS['lines'].append('sl.cls %s %s %s %s' % (cname, br, enc_slots({t: before[t] for t in tslots}), enc_slots({t: f0[t] for t in tslots})))
            CLS['pending'].append(dict(desc=desc, file_keys=sorted(raw), outcome=outcome, after=f1, names=tslots))
    return fresh


def compare_classes(res, answers, pending):
    for ans, p in zip(answers, pending):
        res.count('saveload-class-model-compared')
        if ans.strip() == 'U':
            res.disagree('class / branch missing from the generated table', p['desc'], 'a save method with this branch', 'no row'); continue
        r = parse_rt(ans)
        if 'bad' in r:
            res.disagree('save/load class model error', p['desc'], 'ok', r['bad']); continue
        if sorted(r['keys']) != p['file_keys']:
            res.disagree('keys of the saved file', p['desc'], p['file_keys'], sorted(r['keys']))
        impl_err = None if p['outcome'] is None else (p['outcome'] if p['outcome'][0] in ('objarray', 'keyerror') else ('other',))
        if (r['err'] is None) != (impl_err is None) or (r['err'] is not None and tuple(r['err']) != tuple(impl_err)):
            res.disagree('load outcome', p['desc'], p['outcome'], r['err']); continue
        if r['err'] is None:
            for n in p['names']:
                if not same(r['slots'].get(n), p['after'][n]):
                    res.disagree('field %s after load' % n, p['desc'], brief(p['after'][n]), brief(r['slots'].get(n))); break


def save_named(method, name='model.npz'):
    """do_save for class_roundtrip: obj.<method>(<dir>/<name>, **kw); the file to load is the one file the call wrote"""
    def f(obj, d, kw):
        getattr(obj, method)(os.path.join(d, name), **kw)
        fs = sorted(os.listdir(d))
        return os.path.join(d, fs[0]) if len(fs) == 1 else None
    return f


def suffix_observation(res, tmp, cname, obj, make_fresh, save, load):
    """OBSERVATION, not a violation (the file save() wrote loads exactly): np.savez adds '.npz' to a name without it, np.load adds
    nothing, so <obj>.save('name') followed by <fresh>.load('name') raises FileNotFoundError for the classes that hand the name
    straight to NumPy; GenericModel.save / load add the suffix on both sides"""
    d = tempfile.mkdtemp(prefix='sfx_', dir=tmp)
    try:
        getattr(obj, save)(os.path.join(d, 'name'))
        try:
            getattr(make_fresh(), load)(os.path.join(d, 'name'))
            res.count('saveload:%s:suffix-less-name-loads' % cname)
        except FileNotFoundError:
            res.count('saveload:%s:load-needs-.npz-suffix-that-save-adds' % cname)
    except Exception as e:
        res.count('saveload:%s:suffix-probe-raised-%s' % (cname, type(e).__name__))


def strength_roundtrips(res, tmp, sm, desc):
    """StrengthModel: every keyword branch of save, loaded into a fresh StrengthModel"""
    vlib.use_repo()
    from kawin.precipitation.coupling import StrengthModel
    names = sorted(set(plain_slot_names(sm)) | set(plain_slot_names(StrengthModel())))
    for tag, kw in save_variants(StrengthModel.save):
        class_roundtrip(res, tmp, 'StrengthModel', tag, kw, sm, StrengthModel, names, save_named('save', 'strength.npz'),
                        lambda o, fn: o.load(fn), desc, unloadable=sm.rss is None)
        hist = None if sm.rss is None else ('particles-exist-rss!=ls' if np.any(sm.rss > 0) and not same(sm.rss, sm.ls) else 'no-particles-yet-rss=ls=0')
        res.count('saveload-strength-histories:%s' % hist)


def recorded_psd_roundtrips(res, tmp, m, make_model, desc):
    """PrecipitateModel.saveRecordedPSD (every boolean keyword x phase='all' / each phase name) -> PopulationBalanceModel.loadRecordedPSD
    into the population balance model of a freshly constructed precipitation model"""
    phases = [str(p) for p in m.phases]
    suffix_observation(res, tmp, 'PopulationBalanceModel', m.PBM[0], lambda: make_model().PBM[0], 'saveRecordedPSD', 'loadRecordedPSD')
    suffix_observation(res, tmp, type(m).__name__, m, make_model, 'save', 'load')
    for tag, kw in save_variants(type(m).saveRecordedPSD):
        for pi, ph in enumerate(phases):
            for sel in ('all', ph):
                def do_save(pbm, d, kw, sel=sel, ph=ph):
                    m.saveRecordedPSD(os.path.join(d, 'psd'), phase=sel, **kw)
                    want = 'psd_%s.npz' % ph if sel == 'all' else 'psd.npz'
                    return os.path.join(d, want) if want in os.listdir(d) else None
                pbm = m.PBM[pi]
                names = sorted(set(plain_slot_names(pbm)))
                class_roundtrip(res, tmp, 'PopulationBalanceModel', tag, kw, pbm, lambda pi=pi: make_model().PBM[pi], names, do_save,
                                lambda o, fn: o.loadRecordedPSD(fn), dict(desc, recorded_psd_of_phase=ph, phase_keyword=sel, phases=phases))


def roundtrip_check(res, ctx, tmp, kind, model, fresh_model, desc, lines, pending, tag):
    """save `model`, load into `fresh_model`; direct oracle on every slot; queues the Lean-model comparison"""
    names = precip_slot_names(model) if kind == 'P' else list(DIFF_SLOTS)
    getter = precip_get if kind == 'P' else diff_get
    phases = [str(p) for p in model.phases] if kind == 'P' else []
    s = slots_of(model, names, getter)
    s0 = slots_of(fresh_model, names, getter)
    fn = os.path.join(tmp, '%s_%d' % (tag, len(os.listdir(tmp))))
    model.save(fn)
    with np.load(fn + '.npz', allow_pickle=True) as z:
        file_keys = sorted(z.files)
    outcome = None
    try:
        fresh_model.load(fn)
    except KeyError as e:
        outcome = ('keyerror', str(e.args[0]))
    except ValueError as e:
        outcome = ('objarray',) if 'Object arrays' in str(e) else ('ValueError', str(e)[:80])
    except Exception as e:                      # any other failure to load
        outcome = (type(e).__name__, str(e)[:80])
    mname = 'precipitation' if kind == 'P' else 'diffusion'
    s1 = None
    if outcome is not None:
        none_slots = [n for n in names if s[n] is None and slot_template(n) not in PSDREC_SLOTS]
        if outcome[0] == 'objarray':
            res.violate('%s-file-with-None-%s-does-not-load' % (mname, '+'.join(sorted({slot_template(n) for n in none_slots})) or 'entry'),
                        'model.save() succeeded but load() raises "Object arrays cannot be loaded": slots %s are None and were stored as object arrays' % none_slots,
                        desc, observed='ValueError: Object arrays cannot be loaded when allow_pickle=False', required='the saved file loads whatever the recording options')
        elif outcome[0] == 'keyerror':
            res.violate('%s-load-KeyError-%s' % (mname, key_template(outcome[1], phases)),
                        'fromDict reads key %r which the saved file does not contain (file keys: %s)' % (outcome[1], file_keys), desc,
                        observed='KeyError %s' % outcome[1], required='every key read is written')
        else:
            res.violate('%s-load-raises-%s' % (mname, outcome[0]), 'load() raised %s: %s' % outcome, desc)
    else:
        s1 = slots_of(fresh_model, names, getter)
        psd_lost = []
        for n in names:
            if same(s[n], s1[n]):
                continue
            if slot_template(n) in PSDREC_SLOTS and s1[n] is None and s[n] is not None:
                psd_lost.append(n); continue
            res.violate('%s-slot-not-reproduced-%s' % (mname, slot_template(n)),
                        'after save -> load into a freshly constructed model slot %s differs from the original' % n, desc,
                        observed=brief(s1[n]), required=brief(s[n]))
        # the same oracle as for every other class with a save / load pair (fields discovered from the file and from what load changes)
        keep = [n for n in names if slot_template(n) not in PSDREC_SLOTS]
        fields_oracle(res, type(model).__name__, 'compressed', {n: s[n] for n in keep}, {n: s0[n] for n in keep}, {n: s1[n] for n in keep},
                      read_npz(fn + '.npz'), dict(desc, saveload_class=type(model).__name__, branch='compressed', save_kwargs={}, phases=phases))
        if psd_lost:
            res.violate('psd-recording-not-saved', 'PSD recording was on: the recorded size-distribution history (%s; %d recorded steps) is not in the saved file, the reloaded model holds None'
                        % (', '.join(psd_lost), len(s[psd_lost[0]])), desc, observed=None, required=brief(s[psd_lost[0]]))
        if kind == 'P':
            if int(fresh_model.pData.n) != int(model.pData.n):
                res.violate('precipitation-slot-not-reproduced-pData.n', 'current step index differs after load', desc, int(fresh_model.pData.n), int(model.pData.n))
            for ph in phases:       # public accessors of the current state
                if not (same(model.PSD(ph), fresh_model.PSD(ph)) and same(model.particleRadius(ph), fresh_model.particleRadius(ph))):
                    res.violate('precipitation-accessor-differs', 'PSD()/particleRadius() differ after load', desc)
        else:
            for el in model.allElements:
                if not same(model.getX(el), fresh_model.getX(el)):
                    res.violate('diffusion-accessor-differs', 'getX(%s) differs after load' % el, desc)
    # queue the model comparison
    lines.append('sl.rt %s %d %s %s %s' % (kind, len(phases), ' '.join(phases), enc_slots(s), enc_slots(s0)))
    pending.append(dict(desc=desc, file_keys=file_keys, outcome=outcome, after=s1, names=names))
    return outcome is None


def compare_with_model(res, answers, pending):
    for ans, p in zip(answers, pending):
        r = parse_rt(ans)
        if 'bad' in r:
            res.disagree('save/load model error', p['desc'], 'ok', r['bad']); continue
        if sorted(r['keys']) != p['file_keys']:
            res.disagree('keys of the saved file', p['desc'], p['file_keys'], sorted(r['keys']))
        impl_err = None if p['outcome'] is None else (p['outcome'] if p['outcome'][0] in ('objarray', 'keyerror') else ('other',))
        if (r['err'] is None) != (impl_err is None) or (r['err'] is not None and tuple(r['err']) != tuple(impl_err)):
            res.disagree('load outcome', p['desc'], p['outcome'], r['err']); continue
        if r['err'] is None:
            for n in p['names']:
                if not same(r['slots'].get(n), p['after'][n]):
                    res.disagree('slot %s after load' % n, p['desc'], brief(p['after'][n]), brief(r['slots'].get(n))); break


def run_precip_case(res, ctx, tmp, cfg, lines, pending, resume=False):
    vlib.use_repo()
    from kawin.precipitation.coupling import StrengthModel
    sm = None
    ok_all = True
    def check(point):
        nonlocal ok_all
        desc = dict(cfg, save_point=point, n=int(m.pData.n), t=float(m.pData.time[-1]),
                    density=[float(v) for v in m.pData.precipitateDensity[-1]], bins_now=[int(p.bins) for p in m.PBM])
        fresh = build_precip(cfg)
        ok = roundtrip_check(res, ctx, tmp, 'P', m, fresh, desc, lines, pending, 'prec')
        ok_all = ok_all and ok
        nontrivial = bool(m.pData.n > 0 and any(np.any(p.PSD > 0) for p in m.PBM))
        res.case(('P', cfg['system'], cfg['x0'] if not isinstance(cfg['x0'], tuple) else cfg['x0'][0], cfg['T'], cfg['record'], point), nontrivial)
        res.count('precip:' + cfg['system']); res.count('precip-record:' + {True: 'on', False: 'off'}.get(cfg['record'], cfg['record']))
        res.count('precip-psd:' + ('populated' if nontrivial else 'empty'))
        res.count('precip-size-classes:' + ('as-constructed' if all(int(p.bins) == int(p.originalBins) and float(p.max) == float(p.originalMax) for p in m.PBM) else 'adapted'))
        res.sample(dict(model='precipitation', **desc), cap=2)
        # the dedicated recorded-PSD file (MONITORED): reproduces the recorded history
        if all(p._record for p in m.PBM):
            base = os.path.join(tmp, 'psd_%d' % len(os.listdir(tmp)))
            m.saveRecordedPSD(base)
            for p, ph in enumerate(m.phases):
                f2 = build_precip(cfg)
                f2.PBM[p].loadRecordedPSD('%s_%s.npz' % (base, ph))
                for a in ('_recordedTime', '_recordedBins', '_recordedPSD'):
                    if not same(getattr(m.PBM[p], a), getattr(f2.PBM[p], a)):
                        res.violate('recorded-psd-file-not-reproduced-' + a, 'saveRecordedPSD -> loadRecordedPSD changes %s of phase %s' % (a, ph), desc)
            res.count('recorded-psd-file-roundtrip')
        if all(p._record for p in m.PBM):
            recorded_psd_roundtrips(res, tmp, m, lambda: build_precip(cfg), desc)
        if sm is not None:
            strength_roundtrips(res, tmp, sm, desc)
        if sm is not None and sm.rss is not None:
            f = os.path.join(tmp, 'strength_%d.npz' % len(os.listdir(tmp)))
            sm.save(f)
            sm2 = StrengthModel()
            try:
                sm2.load(f)
                for a in ('rss', 'ls', 'solidStrength'):
                    if not same(getattr(sm, a), getattr(sm2, a)):
                        res.violate('strength-slot-not-reproduced-' + a, 'StrengthModel.save -> load changes ' + a, desc, brief(getattr(sm2, a)), brief(getattr(sm, a)))
            except Exception as e:
                res.violate('strength-load-raises-' + type(e).__name__, 'StrengthModel.load raised: %s' % e, desc)
            res.count('strength-roundtrip')
        return fresh

    # saved mid-run between two solve calls, then after completion
    m = build_precip(cfg)
    if cfg.get('strength'):
        sm = StrengthModel(); sm.setSolidSolutionStrength({'ZR': 2.0e8}, 1); m.addCouplingModel(sm)
    cap = StepCap(m)
    fresh = None
    for i, n in enumerate(cfg['steps']):
        cap.solve(3600.0 * 2, n, cfg['solver'])
        if i == 0 and cfg['record'] == 'on-off':
            m.setPSDrecording(False)               # recording switched off BETWEEN solve calls (recorded data are kept)
        if i == 0 and cfg['record'] == 'off-on':
            m.setPSDrecording(True)                # ... or switched on
        fresh = check('between solve calls, after call %d' % (i + 1))
    # after completion: a last solve call that runs to its end time
    tnow = float(m.pData.time[-1])
    cap.solve(max(0.25 * tnow, 1e-3), 400, cfg['solver'])
    fresh = check('after completion of the last solve call')
    # the size distribution moved back to a recorded time, then saved: the CURRENT state is what must come back
    if all(p._record and p._recordedTime is not None and len(p._recordedTime) > 3 for p in m.PBM) and not resume:
        tr = m.PBM[0]._recordedTime
        tmid = float(tr[len(tr) // 2]) * 1.0000001
        with _quiet():
            for p in m.PBM:
                p.setPSDtoRecordedTime(tmid)
        check('after setPSDtoRecordedTime(%.6g)' % tmid)
    if resume and ok_all:
        resume_precip(res, cfg, m, fresh)


def resume_precip(res, cfg, m, fresh):
    """continuing after a reload: the next steps of the reloaded model must be those of the original"""
    desc = dict(cfg, check='resume', n=int(m.pData.n))
    n0 = int(m.pData.n)
    StepCap(m).solve(3600.0, 5, cfg['solver'])
    try:
        StepCap(fresh).solve(3600.0, 5, cfg['solver'])
    except Exception as e:
        res.violate('resume-after-load-precipitation', 'solve() on the reloaded model raised %s: %s' % (type(e).__name__, str(e)[:100]), desc); return
    res.count('resume-precipitation')
    a, b = m.pData.time[n0:n0 + 6], fresh.pData.time[n0:n0 + 6]
    psd_a, psd_b = m.PBM[0].PSD, fresh.PBM[0].PSD
    if not (same(a, b) and same(psd_a, psd_b)):
        res.violate('resume-after-load-precipitation',
                    'continuing the run after load does not reproduce the next steps: setup() runs again on the reloaded model and PopulationBalanceModel.reset() zeroes the loaded size distribution',
                    desc, observed=dict(time=np.asarray(b).tolist(), psd_sum=float(np.sum(psd_b))), required=dict(time=np.asarray(a).tolist(), psd_sum=float(np.sum(psd_a))))


def run_diff_case(res, ctx, tmp, cfg, lines, pending, resume=False):
    m = build_diff(cfg)
    cap = StepCap(m)
    dt = diff_dt_estimate(m, cfg)
    ok_all, fresh = True, None
    for i, n in enumerate(cfg['steps']):
        if cfg['rec'] == 'switched-on' and i == 1:
            m.enableRecording()
        if dt is not None:
            cap.solve(dt * n * 1.0001, n + 2, cfg['solver'])
        else:
            cap.solve(2.0e5, n, cfg['solver'])
        if cfg['rec'] == 'switched-off' and i == 0:
            m.disableRecording()
        if cfg['rec'] == 'removed' and i == len(cfg['steps']) - 1:
            m.removeRecordedData()
        point = 'after solve call %d of %d' % (i + 1, len(cfg['steps']))
        if cfg['rec'] == 'mesh-moved' and i == len(cfg['steps']) - 1 and m._recordedTime is not None and len(m._recordedTime) > 2:
            tmid = 0.5 * float(m._recordedTime[len(m._recordedTime) // 2] + m._recordedTime[len(m._recordedTime) // 2 - 1])
            with _quiet():
                m.setMeshtoRecordedTime(tmid)     # current profile = interpolated recorded profile; t unchanged
            point += ', after setMeshtoRecordedTime(%.6g)' % tmid
        desc = dict(cfg, save_point=point, t=float(m.t), steps_done=cap.count,
                    recorded=None if m._recordedX is None else list(np.shape(m._recordedX)))
        fresh = build_diff(cfg)
        ok = roundtrip_check(res, ctx, tmp, 'D', m, fresh, desc, lines, pending, 'diff')
        ok_all = ok_all and ok
        res.case(('D', cfg['kind'], cfg['E'], cfg['N'], cfg['rec'], cfg['tseed'], i), bool(cap.count > 0 and np.ptp(m.x) > 0))
        res.count('diffusion-recording:' + cfg['rec']); res.count('diffusion-model:' + cfg['kind'])
        res.sample(dict(model='diffusion', **desc), cap=3)
    if resume and ok_all and cfg['rec'] != 'removed':
        desc = dict(cfg, check='resume', t=float(m.t))
        n = 4
        sim = dt * n * 1.0001 if dt is not None else 2.0e5
        StepCap(m).solve(sim, n + 2 if dt is not None else n, cfg['solver'])
        try:
            StepCap(fresh).solve(sim, n + 2 if dt is not None else n, cfg['solver'])
        except Exception as e:
            res.violate('resume-after-load-diffusion', 'solve() on the reloaded model raised %s: %s' % (type(e).__name__, str(e)[:100]), desc); return
        res.count('resume-diffusion')
        if not (same(m.x, fresh.x) and same(m.t, fresh.t)):
            res.violate('resume-after-load-diffusion',
                        'continuing the run after load does not reproduce the next steps: setup() runs again on the reloaded model (isSetup is False) and rebuilds the INITIAL composition profile over the loaded one',
                        desc, observed=dict(t=float(fresh.t), x_head=np.ravel(fresh.x)[:3].tolist()), required=dict(t=float(m.t), x_head=np.ravel(m.x)[:3].tolist()))


# ============================================================================ surrogates
class Spy:
    """forwards everything to the real thermodynamics and records the method calls and their results"""
    def __init__(self, th):
        object.__setattr__(self, '_th', th)
        object.__setattr__(self, 'calls', [])

    def __getattr__(self, name):
        v = getattr(self._th, name)
        if callable(v) and not name.startswith('_'):
            def f(*a, **k):
                r = v(*a, **k)
                self.calls.append((name, r))
                return r
            return f
        return v


def deep_same(a, b):
    if a is None or b is None:
        return a is None and b is None
    if isinstance(a, (tuple, list)) and not isinstance(a, np.ndarray):
        return isinstance(b, (tuple, list)) and len(a) == len(b) and all(deep_same(x, y) for x, y in zip(a, b))
    if hasattr(a, '__dict__') and not isinstance(a, np.ndarray):
        return type(a) is type(b) and all(deep_same(getattr(a, k), getattr(b, k)) for k in vars(a))
    return same(a, b)


# absolute floors (in units of rtol) for fields whose natural scale is 1 whatever their actual magnitude: `gba` of a curvature output is
# the dimensionless matrix inv(d2G_beta/dx2) * d2G_alpha/dx2; for a near-stoichiometric precipitate d2G_beta is huge and the product
# is round-off noise of order 1e-14 (the rank test in MultiTherm.curvatureFactor decides between exactly 0 and that noise), so two
# independent evaluations agree in it only absolutely, not relatively
UNIT_SCALE_FIELDS = {'gba': 1.0}


def deep_close(a, b, rtol, floor=0.0, unit_fields=False):
    """agreement of two independent evaluations: |a - b| <= rtol * max(|b|, 1e-6 * largest |b| of the array, floor);
    unit_fields: the fields named in UNIT_SCALE_FIELDS get their absolute floor"""
    if a is None or b is None:
        return a is None and b is None
    if unit_fields and hasattr(a, '_fields') and hasattr(b, '_fields'):        # namedtuple outputs (CurvatureOutput, GrowthRateOutput)
        return all(deep_close(getattr(a, k), getattr(b, k), rtol, UNIT_SCALE_FIELDS.get(k, 0.0), True) for k in a._fields)
    if isinstance(a, (tuple, list)) and not isinstance(a, np.ndarray):
        return len(a) == len(b) and all(deep_close(x, y, rtol, floor, unit_fields) for x, y in zip(a, b))
    if hasattr(a, '__dict__') and not isinstance(a, np.ndarray):
        return all(deep_close(getattr(a, k), getattr(b, k), rtol, UNIT_SCALE_FIELDS.get(k, 0.0) if unit_fields else floor, unit_fields) for k in vars(a))
    a = np.asarray(a, dtype=float); b = np.asarray(b, dtype=float)
    if a.shape != b.shape:
        return False
    sc = float(np.max(np.abs(b))) if b.size else 0.0
    return bool(np.all(np.abs(a - b) <= rtol * np.maximum(np.maximum(np.abs(b), sc * 1e-6), floor) + 1e-300))


def deep_identical(a, b):
    """the same VALUE exactly: same nesting, same classes, arrays of the same shape and dtype with identical entries"""
    if a is b:
        return True
    if a is None or b is None:
        return False
    if isinstance(a, (tuple, list)) and not isinstance(a, np.ndarray):
        return type(a) is type(b) and len(a) == len(b) and all(deep_identical(x, y) for x, y in zip(a, b))
    if hasattr(a, '__dict__') and not isinstance(a, np.ndarray):
        return type(a) is type(b) and set(vars(a)) == set(vars(b)) and all(deep_identical(getattr(a, k), getattr(b, k)) for k in vars(a))
    if isinstance(a, np.ndarray) or isinstance(b, np.ndarray) or isinstance(a, np.generic) or isinstance(b, np.generic):
        a2, b2 = np.asarray(a), np.asarray(b)
        return a2.shape == b2.shape and a2.dtype == b2.dtype and a2.dtype != object and bool(np.array_equal(a2, b2, equal_nan=(a2.dtype.kind in 'fc')))
    try:
        return type(a) is type(b) and bool(a == b)
    except Exception:
        return False


def untrained_calls(kind, rng):
    """(getter, positional args, kwargs for the direct thermodynamics call of the SAME quantity)"""
    if kind == 'binary':
        x = np.array(sorted(round(10 ** rng.uniform(-3.3, -2.1), 6) for _ in range(3)))
        T = np.array([round(rng.uniform(650, 800), 1) for _ in range(3)])
        g = np.array([0.0, round(rng.uniform(100, 3000), 1), round(rng.uniform(100, 3000), 1)])
        return {'getDrivingForce': ((x, T), dict(removeCache=True)),
                'getInterdiffusivity': ((x, T), {}), 'getTracerDiffusivity': ((x, T), {}),
                'getInterfacialComposition': ((T, g), {})}
    x = np.array([[round(0.098 * rng.uniform(0.95, 1.05), 5), round(0.083 * rng.uniform(0.95, 1.05), 5)] for _ in range(2)])
    T = np.array([round(rng.uniform(1050, 1100), 1) for _ in range(2)])
    R = np.array([1e-9, 3e-9]); gE = np.array([2000.0, 700.0])
    return {'getDrivingForce': ((x, T), dict(removeCache=True)),
            'getInterdiffusivity': ((x, T), {}), 'getTracerDiffusivity': ((x, T), {}),
            'curvatureFactor': ((x[0], float(T[0])), dict(removeCache=True)),
            'getGrowthAndInterfacialComposition': ((x[0], float(T[0]), 500.0, R, gE), dict(removeCache=True)),
            'impingementFactor': ((x[0], float(T[0])), dict(removeCache=True))}


def check_untrained(res, kind, cls, th, rng):
    cname = cls.__name__
    calls = untrained_calls(kind, rng)
    if rng.random() < 0.5:          # the phases named explicitly instead of left to their defaults
        for g, (args, kw) in list(calls.items()):
            pars = inspect.signature(getattr(cls, g)).parameters
            extra = {n: (th.phases[1] if 'prec' in n.lower() else th.phases[0]) for n in pars if 'phase' in n.lower()}
            calls[g] = (args, dict(kw, **extra))
    for g in surrogate_getters(cls):
        if g not in calls:
            res.count('untrained-getter-without-oracle-arguments:' + g); continue
        args, kw = calls[g]
        desc = dict(surrogate=cname, getter=g, args=[np.asarray(a).tolist() for a in args], kwargs=kw, trained=False)
        spy = Spy(th)
        s = cls(spy)
        with warnings.catch_warnings():
            warnings.simplefilter('ignore')
            try:
                out = getattr(s, g)(*args, **kw)
                ref = getattr(th, g)(*args, **kw)          # the thermodynamics call of the same quantity
            except Exception as e:
                res.violate('untrained-%s.%s-raises-%s' % (cname, g, type(e).__name__), 'untrained getter raised: %s' % str(e)[:120], desc); continue
        res.case(('untrained', cname, g, repr(desc['args'])[:60]), True)
        res.count('untrained:%s.%s' % (cname, g))
        called = [c[0] for c in spy.calls]
        if called != [g]:
            res.violate('untrained-%s.%s-calls-%s' % (cname, g, '+'.join(called) or 'nothing'),
                        'the untrained branch of %s.%s calls thermodynamics.%s, not thermodynamics.%s' % (cname, g, '/'.join(called), g), desc,
                        observed=dict(called=called, shape=list(np.shape(out)) if not isinstance(out, tuple) else None),
                        required=dict(called=[g], shape=list(np.shape(ref)) if not isinstance(ref, tuple) else None))
            continue
        if not (out is spy.calls[0][1]):
            res.violate('untrained-%s.%s-does-not-return-the-thermodynamics-result' % (cname, g), 'result is not the object the thermodynamics call returned', desc)
        res.count('untrained-vs-direct-call:' + ('bit-identical' if deep_same(out, ref) else 'within-1e-6'))
        if not deep_close(out, ref, 1e-6):      # a second pycalphad evaluation is reproducible only to the minimiser tolerance (seen: 6e-10 in xP)
            res.violate('untrained-%s.%s-differs-from-thermodynamics' % (cname, g), 'untrained getter and thermodynamics.%s give different values' % g, desc,
                        observed=brief(out) if not isinstance(out, tuple) else [brief(o) for o in out],
                        required=brief(ref) if not isinstance(ref, tuple) else [brief(o) for o in ref])


# ---------------------------------------------------------------- untrained branch: every argument is handed on
def random_calls(spec, rng, n):
    """random ways of calling one getter: (kind, positional values, keyword values, intended {parameter: value} or None for a
    call that must be refused)"""
    ph = MOCK_PHASES
    val = {nm: arg_value(nm, d, ph) for nm, d in spec['named'] + spec['extras']}
    names = [nm for nm, _ in spec['named']]
    ext = [nm for nm, _ in spec['extras']]
    out = []
    for _ in range(n):
        npos = rng.randint(spec['nreq'], len(names))
        pos = [val[nm] for nm in names[:npos]]
        kw, intended = {}, {nm: val[nm] for nm in names[:npos]}
        nextra = 0
        if npos == len(names) and spec['star_args'] and ext and rng.random() < 0.4:
            nextra = rng.randint(1, len(ext))
            pos += [val[nm] for nm in ext[:nextra]]
            intended.update({nm: val[nm] for nm in ext[:nextra]})
        rest = names[npos:] + ext[nextra:]
        rng.shuffle(rest)
        for nm in rest:
            if rng.random() < 0.55:
                kw[nm] = val[nm]; intended[nm] = val[nm]
        kind = 'valid'
        k = rng.random()
        if k < 0.08 and npos > 0:                       # a keyword for a parameter already given by position
            nm = rng.choice((names + ext)[:len(pos)])
            kw[nm] = val[nm]; kind, intended = 'refused:multiple', None
        elif k < 0.14:                                  # a keyword nobody knows
            kw['zzz'] = ('ARG', 'zzz'); kind, intended = 'refused:unexpected', None
        elif k < 0.18 and not spec['star_args'] and not kw:
            pos = [val[nm] for nm in names] + [('ARG', 'surplus')]; kind, intended = 'refused:toomany', None
        out.append((kind, pos, kw, intended))
    return out


def fw_line(tag, g, pos, kw):
    return 'fw.call %s %s %d %s %d %s' % (tag, g, len(pos), ' '.join(tokof(v) for v in pos), len(kw), ' '.join('%s %s' % (k, tokof(v)) for k, v in kw.items()))


def parse_fw(line):
    t = Toks(line)
    if not t.ok:
        return {'bad': t.err}
    kind = t.tok()
    if kind == 'S':
        assert t.tok() == 'err'
        return {'serr': tuple(t.rest())}
    assert kind == 'F'
    pos = [t.tok() for _ in range(t.nat())]
    kw = {}
    for _ in range(t.nat()):
        k = t.tok(); kw[k] = t.tok()
    assert t.tok() == 'B'
    if t.tok() == 'err':
        return {'serr': None, 'pos': pos, 'kw': kw, 'berr': tuple(t.rest()), 'bound': None}
    bound = {}
    for _ in range(t.nat()):
        k = t.tok(); bound[k] = t.tok()
    return {'serr': None, 'pos': pos, 'kw': kw, 'berr': None, 'bound': bound}


def forwarding_oracle(res, cname, g, form, pos, kw, intended, pr, spec, system='recording mock thermodynamics'):
    """the property predicate on what the thermodynamics received: the method of the same quantity, called once, every argument
    the caller supplied arrives under its own name with its own value, nothing is added, the result comes back as it is"""
    desc = dict(surrogate=cname, getter=g, form=form, trained=False, thermodynamics=system,
                positional=[tokof(v) for v in pos], keywords={k: tokof(v) for k, v in kw.items()})
    res.count('forwarding:%s.%s' % (cname, g))
    res.count('forwarding-form:' + form.split(':')[0])
    if pr['raised'] is not None:
        res.violate('untrained-%s.%s-%s-raises-%s' % (cname, g, 'positional-extras' if form.startswith('positional-extras') else form.split(':')[0], pr['raised'][0]),
                    'the untrained getter raised for a call the thermodynamics method accepts: %s' % pr['msg'], desc, observed=pr['msg'], required='the call is handed on')
        return
    called = [c[0] for c in pr['calls']]
    if called != [g]:
        res.violate('untrained-%s.%s-calls-%s' % (cname, g, '+'.join(called) or 'nothing'),
                    'the untrained branch of %s.%s calls thermodynamics.%s, not thermodynamics.%s once' % (cname, g, '/'.join(called) or 'nothing', g), desc,
                    observed=called, required=[g])
        return
    _name, a, k, tok = pr['calls'][0]
    desc['received'] = dict(positional=[tokof(v) for v in a], keywords={kk: tokof(v) for kk, v in k.items()})
    if pr['result'] is not tok:
        res.violate('untrained-%s.%s-does-not-return-the-thermodynamics-result' % (cname, g), 'result is not the object the thermodynamics call returned', desc)
    bound, err = bind_thermo(CLASSES[cname], g, a, k)
    if err is not None:
        key = 'positional-extras-TypeError' if form.startswith('positional-extras') or (form == 'random' and len(pos) > len(spec['named'])) else 'forwarded-call-does-not-bind'
        res.violate('untrained-%s.%s-%s' % (cname, g, key),
                    'the call handed on by the untrained getter does not bind to thermodynamics.%s: %s (the same call made on the thermodynamics binds)' % (g, ' '.join(err)),
                    desc, observed='TypeError ' + ' '.join(err), required={n: tokof(v) for n, v in intended.items()})
        return
    for n, v in intended.items():       # in the order of the signature; the first argument that goes astray names the class (the rest of a shifted call follows from it)
        if n not in bound:
            res.violate('untrained-%s.%s-drops-argument-%s' % (cname, g, n),
                        'the caller supplied %s=%s; the untrained branch does not hand it on, thermodynamics.%s uses its default' % (n, tokof(v), g), desc,
                        observed='not received', required=tokof(v))
            return
        elif not same_arg(bound[n], v):
            res.violate('untrained-%s.%s-changes-argument-%s' % (cname, g, n),
                        'the caller supplied %s=%s; thermodynamics.%s received %s' % (n, tokof(v), g, tokof(bound[n])), desc,
                        observed=tokof(bound[n]), required=tokof(v))
            return
    named = dict(spec['named'])
    for n, v in bound.items():
        if n in intended:
            continue
        if n in named and same_arg_or_eq(v, resolved_default(n, named[n], pr['phases'])):
            continue                    # a named parameter left out: its (resolved) default
        res.violate('untrained-%s.%s-adds-argument-%s' % (cname, g, n),
                    'the caller did not supply %s; the untrained branch hands %s=%s to thermodynamics.%s' % (n, n, tokof(v), g), desc,
                    observed=tokof(v), required='not supplied (the default of the thermodynamics method applies)')


def same_arg_or_eq(a, b):
    if same_arg(a, b):
        return True
    try:
        return type(a) is type(b) and bool(a == b)
    except Exception:
        return False


CLASSES = {}


def check_forwarding(res, ctx, rng, nrandom):
    """(a) recording mock thermodynamics under every getter of both surrogate classes: canonical call forms + random calls;
    direct oracle on what the mock received, and the Lean model of the forwarding (generated tables) on the same calls"""
    vlib.use_repo()
    from kawin.thermo import BinarySurrogate, MulticomponentSurrogate
    CLASSES.update(BinarySurrogate=BinarySurrogate, MulticomponentSurrogate=MulticomponentSurrogate)
    lines, pend = [], []
    for cls, nel, tag in ((BinarySurrogate, 2, 'B'), (MulticomponentSurrogate, 3, 'M')):
        cname = cls.__name__
        for g in surrogate_getters(cls):
            spec = getter_spec(cls, g)
            if spec['tsig'] is None:
                res.violate('untrained-%s.%s-no-thermodynamics-method' % (cname, g), '%s has no method %s' % (thermo_class(cls).__name__, g), dict(surrogate=cname, getter=g))
                continue
            calls = [(f, p, k, i) for f, p, k, i in canonical_calls(spec)] + [('random' if kind == 'valid' else kind, p, k, i) for kind, p, k, i in random_calls(spec, rng, nrandom)]
            for form, pos, kw, intended in calls:
                pr = probe_call(cls, nel, g, pos, kw)
                res.case(('forwarding', cname, g, form, tuple(tokof(v) for v in pos), tuple(sorted(kw))), True)
                if intended is not None:
                    forwarding_oracle(res, cname, g, form, pos, kw, intended, pr, spec)
                else:
                    res.count('forwarding-refused-call:' + form.split(':')[1])
                lines.append(fw_line(tag, g, pos, kw))
                pend.append((cname, g, form, pos, kw, pr, spec))
    if not (ctx.driver_ok and lines):
        return
    answers = vlib.run_driver(PROP, lines)
    for ans, (cname, g, form, pos, kw, pr, spec) in zip(answers, pend):
        desc = dict(surrogate=cname, getter=g, form=form, positional=[tokof(v) for v in pos], keywords={k: tokof(v) for k, v in kw.items()})
        r = parse_fw(ans)
        res.count('forwarding-model-compared')
        if 'bad' in r:
            res.disagree('forwarding model error', desc, 'ok', r['bad']); continue
        impl_serr = None if pr['raised'] is None else tuple(pr['raised'])
        if r['serr'] is not None or impl_serr is not None:
            if r['serr'] != impl_serr:
                res.disagree('call refused by the getter', desc, impl_serr, r['serr'])
            continue
        if len(pr['calls']) != 1:
            res.disagree('number of thermodynamics calls', desc, len(pr['calls']), 1); continue
        name, a, k, _tok = pr['calls'][0]
        named = dict(spec['named'])
        def tr(t):       # the model's token for a parameter the caller left out -> what the getter resolves the default to
            return tokof(resolved_default(t[2:], named.get(t[2:]), pr['phases'])) if t.startswith('D:') else t
        if [tr(t) for t in r['pos']] != [tokof(v) for v in a] or {kk: tr(t) for kk, t in r['kw'].items()} != {kk: tokof(v) for kk, v in k.items()}:
            res.disagree('call handed on to the thermodynamics', desc, dict(pos=[tokof(v) for v in a], kw={kk: tokof(v) for kk, v in k.items()}), dict(pos=r['pos'], kw=r['kw']))
            continue
        bound, err = bind_thermo(CLASSES[cname], g, a, k)
        if (err is None) != (r['berr'] is None) or (err is not None and tuple(err) != r['berr']):
            res.disagree('binding to the thermodynamics signature', desc, err, r['berr']); continue
        if err is None and {kk: tr(t) for kk, t in r['bound'].items()} != {kk: tokof(v) for kk, v in bound.items()}:
            res.disagree('arguments received by the thermodynamics method', desc, {kk: tokof(v) for kk, v in bound.items()}, r['bound'])


# ---------------------------------------------------------------- (b) untrained / partially trained surrogate of a multi-precipitate system
class ArgSpy:
    """forwards everything to the real thermodynamics and records method name, arguments and result of every call made on it"""
    def __init__(self, th):
        object.__setattr__(self, '_th', th)
        object.__setattr__(self, 'calls', [])

    def __getattr__(self, name):
        v = getattr(self._th, name)
        if callable(v) and not name.startswith('_'):
            def f(*a, **k):
                r = v(*a, **k)
                self.calls.append((name, a, k, r))
                return r
            return f
        return v


def phase_kind(th, ph, which='prec'):
    if ph is None:
        return 'default-phase'
    i = list(th.phases).index(ph)
    if which == 'prec':
        return 'first-precipitate-named' if i == 1 else 'non-first-precipitate-phase'
    return 'matrix-named' if i == 0 else 'non-matrix-phase'


def multiphase_probe(res, th, s, spy, base, stage, g, args, kw, kind):
    """one getter call on an untrained (for this phase) surrogate whose thermodynamics is the recording proxy `spy` around `th`.
    EXACT: the surrogate made exactly one call of thermodynamics.<g>, with the phase / removeCache / searchDir the caller gave, and
    returned exactly the value that call returned.  TOLERANT: an INDEPENDENT second evaluation by the thermodynamics (made first, on
    the bare object) agrees to rtol 1e-6 - two pycalphad evaluations of one point are not bit-reproducible (warm-started minimiser:
    5e-12 .. 1e-8 relative seen in dc / mc / beta / c_eq_alpha), but a surrogate answering for another phase or point is far off."""
    cls, cname = type(s), type(s).__name__
    x, T = base['x'], base['T']
    desc = dict(base, stage=stage, getter=g, keywords={k: (v if isinstance(v, (str, bool, type(None))) else np.asarray(v).tolist()) for k, v in kw.items()}, trained=stage,
                args=[np.asarray(a).tolist() for a in args], phase_class=kind)
    del spy.calls[:]
    with warnings.catch_warnings():
        warnings.simplefilter('ignore')
        with _quiet():
            ref = getattr(th, g)(*args, **kw)
            out = getattr(s, g)(*args, **kw)
    res.case(('multiphase', stage, g, kw.get('precPhase', kw.get('phase')), float(x[0]), T), True)
    res.count('multiphase:%s:%s' % (g, kind))
    res.count('multiphase-output:' + ('None' if out is None else 'value'))
    called = [c[0] for c in spy.calls]
    if called != [g]:
        res.violate('untrained-%s.%s-calls-%s' % (cname, g, '+'.join(called) or 'nothing'),
                    'the untrained branch calls thermodynamics.%s, not thermodynamics.%s once' % ('/'.join(called) or 'nothing', g), desc, observed=called, required=[g])
    else:
        _n, a, k, r = spy.calls[0]
        bound, err = bind_thermo(cls, g, a, k)
        if err is not None:
            res.violate('untrained-%s.%s-forwarded-call-does-not-bind' % (cname, g), 'forwarded call does not bind: %s' % ' '.join(err), desc)
        else:
            for n, v in kw.items():
                want = v
                if v is None and 'phase' in n.lower():
                    want = resolved_default(n, None, list(th.phases))
                got = bound.get(n, EMPTY)
                if got is EMPTY and v is not None:
                    res.violate('untrained-%s.%s-drops-argument-%s' % (cname, g, n),
                                'the caller supplied %s=%s; thermodynamics.%s did not receive it and uses its default' % (n, tokof(v) if isinstance(v, (str, bool)) else 'array', g),
                                desc, observed='not received', required=desc['keywords'][n])
                elif got is not EMPTY and not (got is want or same_arg_or_eq(got, want)):
                    res.violate('untrained-%s.%s-changes-argument-%s' % (cname, g, n),
                                'the caller supplied %s; thermodynamics.%s received another value' % (n, g), desc,
                                observed=got if isinstance(got, (str, bool, type(None))) else brief(got), required=desc['keywords'][n])
        res.count('multiphase-result:' + ('the-object-the-thermodynamics-returned' if out is r else 'equal-value'))
        if not deep_identical(out, r):
            res.violate('untrained-%s.%s-does-not-return-the-thermodynamics-result' % (cname, g),
                        'the result is not exactly (shapes, dtypes, every entry) what the thermodynamics call made by the getter returned', desc,
                        observed=show_out(out), required=show_out(r))
    exact = deep_same(out, ref)
    close6 = deep_close(out, ref, 1e-6, unit_fields=True)
    res.count('multiphase-vs-independent-direct-call:' + ('bit-identical' if exact else 'within-1e-6' if close6 else 'DIFFERENT'))
    if not close6:
        res.violate('untrained-%s.%s-differs-from-thermodynamics-%s' % (cname, g, kind),
                    'untrained %s.%s(%s) is not what an independent call of thermodynamics.%s gives for the same arguments (rtol 1e-6)'
                    % (cname, g, ', '.join('%s=%s' % (k, desc['keywords'][k]) for k in kw if 'hase' in k), g),
                    desc, observed=show_out(out), required=show_out(ref))


def replay_multiphase(res, case):
    """one recorded case of check_untrained_multiphase on a surrogate on which nothing is trained"""
    vlib.use_repo()
    from kawin.thermo import MulticomponentSurrogate
    CLASSES['MulticomponentSurrogate'] = MulticomponentSurrogate
    th = almgsi_therm()
    spy = ArgSpy(th)
    s = MulticomponentSurrogate(spy)
    g = case['getter']
    base = {k: case[k] for k in ('thermodynamics', 'surrogate', 'x', 'T', 'R', 'gExtra') if k in case}
    def arr(v):
        return np.array(v, dtype=float) if isinstance(v, list) else v
    if 'args' in case:
        args = tuple(arr(a) for a in case['args'])
    else:
        args = (np.array(case['x'], dtype=float), case['T'])
    kw = {k: arr(v) for k, v in case.get('keywords', {}).items()}
    multiphase_probe(res, th, s, spy, base, case.get('stage', 'nothing trained'), g, args, kw, case.get('phase_class') or phase_kind(th, kw.get('precPhase')))


def check_untrained_multiphase(res, rng, quick=True):
    """Al-Mg-Si, five precipitate phases: every getter of an untrained and of a partially trained MulticomponentSurrogate, for
    the default phase and every named precipitate phase, against the thermodynamics method of the same quantity called with
    the same arguments: exactly one call of the same method, same phase / flags received (recorded on the real object), exactly
    the value of that call returned; an independent direct call agrees to rtol 1e-6 (see multiphase_probe)"""
    vlib.use_repo()
    from kawin.thermo import MulticomponentSurrogate
    cls, cname = MulticomponentSurrogate, 'MulticomponentSurrogate'
    CLASSES[cname] = cls
    th = almgsi_therm()
    precs = list(th.phases[1:])
    x = np.array([round(0.0072 * rng.uniform(0.93, 1.07), 6), round(0.0057 * rng.uniform(0.93, 1.07), 6)])
    T = round(175 + 273.15 + rng.uniform(-15, 25), 2)
    R = np.array([0.5e-9, 1e-9, 2e-9]) * round(rng.uniform(0.8, 1.5), 3)
    gE = np.array([2000.0, 1000.0, 500.0]) * round(rng.uniform(0.7, 1.3), 3)
    spy = ArgSpy(th)
    s = cls(spy)
    base = dict(thermodynamics='Al-Mg-Si (ALMGSI_DB), phases %s' % list(th.phases), surrogate=cname, x=x.tolist(), T=T, R=R.tolist(), gExtra=gE.tolist())
    getters = surrogate_getters(cls)

    def one(stage, g, args, kw, kind, trained_here):
        if trained_here:
            res.count('multiphase-skipped-trained:' + g); return
        multiphase_probe(res, th, s, spy, base, stage, g, args, kw, kind)

    def sweep(stage, trainedDF=(), trainedCurv=()):
        phs = [None] + precs
        for ph in phs:
            name = th.phases[1] if ph is None else ph
            kind = phase_kind(th, ph)
            kwp = dict(precPhase=ph, removeCache=True) if ph is not None or rng.random() < 0.5 else dict(removeCache=True)
            with warnings.catch_warnings():
                warnings.simplefilter('ignore')
                with _quiet():
                    dg, xP = th.getDrivingForce(x, T, precPhase=ph, removeCache=True)
            sd = None if xP is None or not np.all(np.isfinite(np.asarray(xP, dtype=float))) else np.array(xP, dtype=float)
            kws = dict(kwp, searchDir=sd)
            dgv = float(dg) if dg is not None and np.isfinite(dg) else 0.0
            table = {'getDrivingForce': ((x, T), kwp, name in trainedDF),
                     'curvatureFactor': ((x, T), kws, name in trainedCurv),
                     'getGrowthAndInterfacialComposition': ((x, T, dgv, R, gE), kws, name in trainedCurv),
                     'impingementFactor': ((x, T), kws, name in trainedCurv)}
            for g in getters:
                if g in table:
                    args, kw, tr = table[g]
                    one(stage, g, args, kw, kind, tr)
                    if g == 'getGrowthAndInterfacialComposition' and not tr:
                        one(stage, g, (x, T, dgv, float(R[1]), float(gE[1])), kw, kind, tr)       # scalar radius
                elif g not in ('getInterdiffusivity', 'getTracerDiffusivity'):
                    res.count('multiphase-getter-without-oracle-arguments:' + g)
        for g in ('getInterdiffusivity', 'getTracerDiffusivity'):
            if g in getters:
                for phm in (None, th.phases[0]):
                    kw = dict(removeCache=True) if phm is None else dict(phase=phm, removeCache=True)
                    one(stage, g, (x, T), kw, phase_kind(th, phm, 'matrix'), False)
                xs = np.array([x, x * 0.8]); Ts = np.array([T, T + 25.0])
                one(stage, g, (xs, Ts), dict(removeCache=True), 'default-phase', False)

    sweep('nothing trained')
    # partially trained: driving force of ONE phase, curvature of ANOTHER one; everything else must still pass through
    pa, pb = rng.sample(precs, 2)
    xtr = [[a, b] for a in (0.005, 0.007, 0.009) for b in (0.004, 0.006, 0.008)]
    d2 = dict(base, stage='training', drivingForcePhase=pa, curvaturePhase=pb)
    ok1, _ = _guard(res, 'train-%s.trainDrivingForce-multiphase' % cname, 'trainDrivingForce(precPhase=%s)' % pa, d2, lambda: s.trainDrivingForce(xtr, [T, T + 50], precPhase=pa))
    ok2 = False
    if not quick or rng.random() < 0.5:
        with _quiet():
            ok2, _ = _guard(res, 'train-%s.trainCurvature-multiphase' % cname, 'trainCurvature(precPhase=%s)' % pb, d2,
                            lambda: s.trainCurvature([[0.0068, 0.0054], [0.0072, 0.0057], [0.0076, 0.0060], [0.0072, 0.0062]], [T, T + 50], precPhase=pb))
        ok2 = ok2 and pb in s.curvatureModels
    if ok1 and pa not in s.drivingForceModels:
        res.violate('trained-%s.trainDrivingForce-named-phase-not-registered' % cname, 'trainDrivingForce(precPhase=%s) did not create a model for that phase' % pa, d2,
                    observed=sorted(s.drivingForceModels), required=[pa])
    for ph_other in s.drivingForceModels:
        if ph_other != pa:
            res.violate('trained-%s.trainDrivingForce-trains-other-phase' % cname, 'trainDrivingForce(precPhase=%s) created a model for %s' % (pa, ph_other), d2)
    sweep('driving force of %s%s trained' % (pa, ' and curvature of %s' % pb if ok2 else ''), trainedDF=(pa,) if ok1 else (), trainedCurv=(pb,) if ok2 else ())
    res.count('multiphase-partially-trained:' + ('DF+curvature' if ok2 else 'DF'))


def show_out(o):
    if o is None:
        return None
    if isinstance(o, tuple) and not hasattr(o, '_fields'):
        return [brief(v) for v in o]
    if hasattr(o, '_asdict'):
        return {k: brief(v) for k, v in o._asdict().items()}
    if hasattr(o, '__dict__') and not isinstance(o, np.ndarray):
        return {k: brief(v) for k, v in vars(o).items()}
    return brief(o)


def _guard(res, key, what, desc, fn):
    """run fn; an exception is a violation `key-raises-<Exc>`; returns (ok, value)"""
    with warnings.catch_warnings():
        warnings.simplefilter('ignore')
        try:
            return True, fn()
        except Exception as e:
            res.violate('%s-raises-%s' % (key, type(e).__name__), '%s raised %s: %s' % (what, type(e).__name__, str(e)[:140]), desc,
                        observed=type(e).__name__, required='no exception')
            return False, None


def stored_is_thermo(res, cname, what, desc, stored, fn):
    """the training data a surrogate keeps (and writes to its file) are the values the thermodynamics gives at the training points"""
    ok, ref = _guard(res, 'thermodynamics-%s' % what, 'thermodynamics call at the training points', desc, fn)
    res.count('stored-training-data-vs-thermodynamics')
    if ok and not deep_close(stored, ref, 1e-6):
        res.violate('stored-training-data-%s.%s-not-the-thermodynamics-values' % (cname, what),
                    'the training data kept by the surrogate for %s are not what the thermodynamics returns at the training points' % what, desc,
                    observed=[brief(o) for o in stored] if isinstance(stored, tuple) else brief(stored),
                    required=[brief(o) for o in ref] if isinstance(ref, tuple) else brief(ref))


def typed_queries(res, cname, getter, desc, fn, xq, Tq, want, multi=False):
    """query a trained getter at its training points with the (integer-valued) temperatures passed as float array, int array,
    list of Python ints, and point by point as Python float / Python int scalars: every form must give the training data, and
    int-typed and float-typed queries of the same value must agree"""
    Tq = np.asarray(Tq)
    if not np.all(Tq == np.round(Tq)):
        return
    xq = np.asarray(xq, dtype=float)
    ok, ref = _guard(res, 'trained-%s.%s-float-T' % (cname, getter), '%s(training x, float T array)' % getter, desc, lambda: fn(xq, Tq.astype(float)))
    if not ok:
        return
    forms = [('int-array-T', lambda: fn(xq, Tq.astype(int))), ('int-list-T', lambda: fn(xq, [int(t) for t in Tq]))]
    for name, call in forms:
        ok, out = _guard(res, 'trained-%s.%s-%s' % (cname, getter, name), '%s(training x, %s)' % (getter, name), desc, call)
        res.count('typed-query:' + name)
        if ok and not (deep_close(out, ref, 1e-12) and deep_close(out, want, 1e-6)):
            res.violate('trained-%s.%s-depends-on-type-of-T' % (cname, getter),
                        '%s at the training points with %s differs from the float query / the training data' % (getter, name), dict(desc, T=Tq.tolist(), form=name),
                        observed=brief(out) if not isinstance(out, tuple) else [brief(o) for o in out],
                        required=brief(ref) if not isinstance(ref, tuple) else [brief(o) for o in ref])
    for i in range(min(2, len(Tq))):
        xi = xq[i] if multi else float(np.ravel(xq)[i])
        wi = tuple(np.asarray(w)[i] for w in want) if isinstance(want, tuple) else np.asarray(want)[i]
        for name, Ti in (('scalar-float-T', float(Tq[i])), ('scalar-int-T', int(Tq[i]))):
            ok, out = _guard(res, 'trained-%s.%s-%s' % (cname, getter, name), '%s(single training point, %s)' % (getter, name), desc, lambda: fn(xi, Ti))
            res.count('typed-query:' + name)
            if ok and not deep_close(out, wi, 1e-6):
                res.violate('trained-%s.%s-depends-on-type-of-T' % (cname, getter) if name == 'scalar-int-T' else 'trained-%s.%s-training-points' % (cname, getter),
                            '%s at training point %d with %s does not give the training datum' % (getter, i, name), dict(desc, T=Tq.tolist(), form=name, point=i),
                            observed=brief(out) if not isinstance(out, tuple) else [brief(o) for o in out],
                            required=brief(wi) if not isinstance(wi, tuple) else [brief(o) for o in wi])


def json_dict_check(res, s, s2, desc, jlines, jpending):
    """fromJson(toJson d) = d on every data dictionary, entry by entry (oracle) + queue arrays for the Lean model"""
    a = s._collectSurrogateData(); b = s2._collectSurrogateData()
    for q in a:
        for ph in a[q]:
            if ph not in b.get(q, {}):
                res.violate('json-roundtrip-missing-%s' % q, 'quantity %s / phase %s missing after fromJson' % (q, ph), desc); continue
            for k, v in a[q][ph].items():
                w = b[q][ph].get(k)
                if isinstance(v, (bool, np.bool_)):
                    ok = isinstance(w, bool) and bool(v) == w
                else:
                    try:
                        va = np.array(v, dtype=float); wa = np.array(w, dtype=float)
                        ok = same(va, wa)
                        if va.ndim <= 4 and va.size and jlines is not None and len(jlines) < 400:
                            jlines.append('json.rt %d %s %s' % (va.ndim, ' '.join(map(str, va.shape)), enc_list(va.ravel())))
                            jpending.append((dict(desc, quantity=q, phase=ph, key=k), va, w))
                    except (TypeError, ValueError):
                        ok = False
                res.count('json-entry')
                if not ok:
                    res.violate('json-roundtrip-entry-%s.%s' % (q, k), 'data dictionary entry %s/%s/%s differs after toJson -> fromJson' % (q, ph, k), desc,
                                observed=brief(w) if not isinstance(w, bool) else w, required=brief(v) if not isinstance(v, (bool, np.bool_)) else bool(v))


def check_trained_binary(res, th, rng, tmp, jlines, jpending, force=None):
    vlib.use_repo()
    from kawin.thermo import BinarySurrogate
    cname = 'BinarySurrogate'
    logX = rng.random() < 0.5; logY = rng.random() < 0.5
    bc = rng.random() < 0.6
    Tint = rng.random() < 0.5           # integer Kelvin grid handed over as ints (true) or as floats of the same value
    if force is not None:               # every run covers both values of every option
        logX = logY = bc = Tint = force
    kernel = rng.choice([{'kernel': 'cubic', 'normalize': True}, {'kernel': 'cubic', 'normalize': True}, {'kernel': 'linear', 'normalize': False}])
    nx = rng.randint(3, 4)
    xs = np.logspace(rng.uniform(-3.4, -3.1), rng.uniform(-2.3, -2.0), nx) if logX else np.linspace(10 ** rng.uniform(-3.3, -3.0), 10 ** rng.uniform(-2.3, -2.0), nx)
    Ts = np.array([rng.randint(660, 700), rng.randint(740, 790)], dtype=int if Tint else float)
    gs = np.linspace(rng.uniform(50, 200), rng.uniform(2000, 4000), rng.randint(3, 4))
    if bc:
        xa, Ta = xs, Ts
        Tg, gg = Ts, gs
    else:                              # broadcast=False: explicit point lists of equal length
        xa = np.tile(xs, 2); Ta = np.repeat(Ts, len(xs))
        Tg = np.repeat(Ts, len(gs)); gg = np.tile(gs, 2)
    desc = dict(surrogate=cname, logX=logX, logY=logY, broadcast=bc, kernel=kernel, x=xs.tolist(), T=Ts.tolist(), T_type='int' if Tint else 'float',
                gExtra=gs.tolist(), trained=True)
    s = BinarySurrogate(th, kernelKwargs=dict(kernel))
    res.count('trained-binary:T-' + desc['T_type'])
    res.count('trained-binary:broadcast=%s' % bc)
    phP, phM = th.phases[1], th.phases[0]
    # ---- driving force
    ok, _ = _guard(res, 'train-%s.trainDrivingForce' % cname, 'trainDrivingForce(x grid, T grid, logX=%s, broadcast=%s)' % (logX, bc), desc,
                   lambda: s.trainDrivingForce(xa, Ta, logX=logX, broadcast=bc))
    if ok:
        d = s.drivingForceData[phP]
        xq, Tq = np.asarray(d['x'])[:, 0], np.asarray(d['T'])
        ok2, out = _guard(res, 'trained-%s.getDrivingForce' % cname, 'getDrivingForce at the training points', desc, lambda: s.getDrivingForce(xq, Tq))
        if ok2 and not deep_close(out, (d['dg'], d['xp']), 1e-6):
            res.violate('trained-%s.getDrivingForce-training-points' % cname, 'trained driving-force surrogate does not reproduce its training data', desc,
                        observed=[brief(o) for o in out], required=[brief(d['dg']), brief(d['xp'])])
        typed_queries(res, cname, 'getDrivingForce', desc, lambda x, T: s.getDrivingForce(x, T), xq, Tq, (d['dg'], d['xp']))
        stored_is_thermo(res, cname, 'drivingForce', desc, (np.asarray(d['dg']), np.asarray(d['xp'])), lambda: th.getDrivingForce(xq, np.asarray(Tq, dtype=float), precPhase=phP, removeCache=True))
        res.case(('trained', cname, 'drivingForce', logX, bc, float(xs[0])), True)
    # ---- interfacial composition
    ok, _ = _guard(res, 'train-%s.trainInterfacialComposition%s' % (cname, '-grid' if bc else '-points'),
                   'trainInterfacialComposition(T %s, gExtra %s, broadcast=%s)' % (np.shape(Tg), np.shape(gg), bc), desc,
                   lambda: s.trainInterfacialComposition(Tg, gg, logY=logY, broadcast=bc))
    if ok:
        d = s.interfacialCompositionData[phP]
        Tq, gq = np.ravel(d['T']), np.ravel(d['gExtra'])
        ok2, out = _guard(res, 'trained-%s.getInterfacialComposition' % cname, 'getInterfacialComposition at the training points', desc,
                          lambda: s.getInterfacialComposition(Tq, gq))
        if ok2 and not deep_close(out, (d['xpalpha'], d['xpbeta']), 1e-6):
            res.violate('trained-%s.getInterfacialComposition-training-points' % cname, 'trained interfacial-composition surrogate does not reproduce its training data', desc,
                        observed=[brief(o) for o in out], required=[brief(d['xpalpha']), brief(d['xpbeta'])])
        typed_queries(res, cname, 'getInterfacialComposition', desc, lambda g, T: s.getInterfacialComposition(T, g), gq, Tq, (d['xpalpha'], d['xpbeta']))
        stored_is_thermo(res, cname, 'interfacialComposition', desc, (np.asarray(d['xpalpha']), np.asarray(d['xpbeta'])),
                         lambda: th.getInterfacialComposition(np.asarray(Tq, dtype=float), np.array(gq, dtype=float), precPhase=phP))
        res.case(('trained', cname, 'interfacialComposition', logY, bc, float(gs[0])), True)
    # ---- diffusivity
    ok, _ = _guard(res, 'train-%s.trainDiffusivity' % cname, 'trainDiffusivity', desc, lambda: s.trainDiffusivity(xa, Ta, logX=logX, broadcast=bc))
    if ok:
        d = s.diffusivityData[phM]
        xq, Tq = np.asarray(d['x'])[:, 0], np.asarray(d['T'])
        ok2, out = _guard(res, 'trained-%s.getInterdiffusivity' % cname, 'getInterdiffusivity at the training points', desc, lambda: s.getInterdiffusivity(xq, Tq))
        if ok2 and not deep_close(out, d['dnkj'], 1e-6):
            res.violate('trained-%s.getInterdiffusivity-training-points' % cname, 'trained interdiffusivity does not reproduce its training data', desc, brief(out), brief(d['dnkj']))
        ok2, out = _guard(res, 'trained-%s.getTracerDiffusivity' % cname, 'getTracerDiffusivity(x of shape (N,), T) at the training points (documented input form)', desc,
                          lambda: s.getTracerDiffusivity(xq, Tq))
        if ok2 and not deep_close(out, d['dtracer'], 1e-6):
            res.violate('trained-%s.getTracerDiffusivity-training-points' % cname, 'trained tracer diffusivity does not reproduce its training data', desc, brief(out), brief(d['dtracer']))
        typed_queries(res, cname, 'getInterdiffusivity', desc, lambda x, T: s.getInterdiffusivity(x, T), xq, Tq, d['dnkj'])
        stored_is_thermo(res, cname, 'diffusivity', desc, (np.asarray(d['dnkj']), np.asarray(d['dtracer'])),
                         lambda: (th.getInterdiffusivity(xq, np.asarray(Tq, dtype=float), phase=phM), th.getTracerDiffusivity(xq, np.asarray(Tq, dtype=float), phase=phM)))
        typed_queries(res, cname, 'getTracerDiffusivity', desc, lambda x, T: s.getTracerDiffusivity(x, T), xq, Tq, d['dtracer'])
        res.case(('trained', cname, 'diffusivity', logX, bc, float(xs[0])), True)
    # ---- rebuilt from its file
    f = os.path.join(tmp, 'surr_b_%d' % len(os.listdir(tmp)))
    ok, _ = _guard(res, 'save-%s.toJson' % cname, 'toJson', desc, lambda: s.toJson(f))
    if not ok:
        return
    s2 = BinarySurrogate(th, kernelKwargs=dict(kernel))
    ok, _ = _guard(res, 'reload-%s.fromJson' % cname, 'fromJson of the file written by toJson', desc, lambda: s2.fromJson(f))
    if not ok:
        return
    json_dict_check(res, s, s2, desc, jlines, jpending)
    if phM in s2.diffusivityData:
        d = s2.diffusivityData[phM]
        d2 = dict(desc, rebuilt_from_file=True)
        typed_queries(res, cname, 'getInterdiffusivity', d2, lambda x, T: s2.getInterdiffusivity(x, T), np.asarray(d['x'])[:, 0], d['T'], np.asarray(d['dnkj']))
        typed_queries(res, cname, 'getTracerDiffusivity', d2, lambda x, T: s2.getTracerDiffusivity(x, T), np.asarray(d['x'])[:, 0], d['T'], np.asarray(d['dtracer']))
    xq = np.array([10 ** rng.uniform(-3.0, -2.3) for _ in range(3)]); Tq = np.array([rng.uniform(700, 740) for _ in range(3)])
    gq = np.array([rng.uniform(300, 1800) for _ in range(3)])
    for name, fn in [('getDrivingForce', lambda z: z.getDrivingForce(xq, Tq)), ('getInterfacialComposition', lambda z: z.getInterfacialComposition(Tq, gq)),
                     ('getInterdiffusivity', lambda z: z.getInterdiffusivity(xq, Tq)), ('getTracerDiffusivity', lambda z: z.getTracerDiffusivity(xq.reshape(-1, 1), Tq))]:
        with warnings.catch_warnings():
            warnings.simplefilter('ignore')
            try:
                a, b = fn(s), fn(s2)
            except Exception as e:
                res.count('reload-query-raised:' + name); continue
        res.count('reload-prediction:' + ('bit-identical' if deep_same(a, b) else 'within-1e-9'))
        if not deep_close(a, b, 1e-9):
            res.violate('reload-%s.%s-predictions-differ' % (cname, name), 'surrogate rebuilt from its JSON file predicts differently', dict(desc, x=xq.tolist(), T=Tq.tolist(), g=gq.tolist()),
                        observed=brief(b) if not isinstance(b, tuple) else [brief(o) for o in b], required=brief(a) if not isinstance(a, tuple) else [brief(o) for o in a])
    Ti = np.array([rng.randint(700, 740) for _ in range(3)])
    for name, fn in [('getDrivingForce', lambda z, T: z.getDrivingForce(xq, T)), ('getInterfacialComposition', lambda z, T: z.getInterfacialComposition(T, gq)),
                     ('getInterdiffusivity', lambda z, T: z.getInterdiffusivity(xq, T)), ('getTracerDiffusivity', lambda z, T: z.getTracerDiffusivity(xq, T))]:
        for z, zn in ((s, 'original'), (s2, 'rebuilt')):
            ok, pair = _guard(res, 'trained-%s.%s-int-T-query' % (cname, name), '%s at query points with int / float T (%s surrogate)' % (name, zn), desc,
                              lambda: (fn(z, Ti.astype(float)), fn(z, Ti.astype(int)), fn(z, [int(t) for t in Ti])))
            res.count('typed-query:random-points')
            if ok and not (deep_close(pair[1], pair[0], 1e-12) and deep_close(pair[2], pair[0], 1e-12)):
                res.violate('trained-%s.%s-depends-on-type-of-T' % (cname, name), '%s(x, T) gives different predictions for T = %s as ints and as floats (%s surrogate)' % (name, Ti.tolist(), zn),
                            dict(desc, x=xq.tolist(), T=Ti.tolist(), g=gq.tolist()), observed=brief(pair[1]) if not isinstance(pair[1], tuple) else [brief(o) for o in pair[1]],
                            required=brief(pair[0]) if not isinstance(pair[0], tuple) else [brief(o) for o in pair[0]])
    res.case(('reload', cname, logX, logY, bc), True)


def check_trained_multi(res, th, rng, tmp, jlines, jpending, force=None):
    vlib.use_repo()
    from kawin.thermo import MulticomponentSurrogate
    from kawin.thermo.Surrogate import generateTrainingPoints
    cname = 'MulticomponentSurrogate'
    logX = rng.random() < 0.4
    bc = rng.random() < 0.6
    a0 = 0.098 * rng.uniform(0.97, 1.0); c0 = 0.083 * rng.uniform(0.97, 1.0)
    pts = generateTrainingPoints([round(a0, 5), round(a0 * 1.08, 5)], [round(c0, 5), round(c0 * 1.1, 5)])
    Tint = rng.random() < 0.5
    if force is not None:
        logX = bc = Tint = force
    Ts = np.array([rng.randint(1050, 1070), rng.randint(1090, 1110)], dtype=int if Tint else float)
    if bc:
        xa, Ta = pts, Ts
    else:
        xa = np.tile(pts, (2, 1)); Ta = np.repeat(Ts, len(pts))
    desc = dict(surrogate=cname, logX=logX, broadcast=bc, x=pts.tolist(), T=Ts.tolist(), T_type='int' if Tint else 'float', trained=True)
    s = MulticomponentSurrogate(th)
    res.count('trained-multi:T-' + desc['T_type'])
    res.count('trained-multi:broadcast=%s' % bc)
    phP, phM = th.phases[1], th.phases[0]
    ok, _ = _guard(res, 'train-%s.trainDrivingForce' % cname, 'trainDrivingForce', desc, lambda: s.trainDrivingForce(xa, Ta, logX=logX, broadcast=bc))
    if ok:
        d = s.drivingForceData[phP]
        ok2, out = _guard(res, 'trained-%s.getDrivingForce' % cname, 'getDrivingForce at the training points', desc, lambda: s.getDrivingForce(np.asarray(d['x']), np.asarray(d['T'])))
        if ok2 and not deep_close(out, (d['dg'], d['xp']), 1e-6):
            res.violate('trained-%s.getDrivingForce-training-points' % cname, 'trained driving-force surrogate does not reproduce its training data', desc,
                        observed=[brief(o) for o in out], required=[brief(d['dg']), brief(d['xp'])])
        typed_queries(res, cname, 'getDrivingForce', desc, lambda x, T: s.getDrivingForce(x, T), np.asarray(d['x']), d['T'], (d['dg'], d['xp']), multi=True)
        res.case(('trained', cname, 'drivingForce', logX, bc, float(pts[0][0])), True)
    ok, _ = _guard(res, 'train-%s.trainCurvature' % cname, 'trainCurvature', desc, lambda: s.trainCurvature(xa, Ta, logX=logX, broadcast=bc))
    if ok and len(s.curvatureData[phP]['x']) > 1:
        d = s.curvatureData[phP]
        i = rng.randrange(len(d['x']))
        ok2, c = _guard(res, 'trained-%s.curvatureFactor' % cname, 'curvatureFactor at a training point', desc, lambda: s.curvatureFactor(np.asarray(d['x'][i]), d['T'][i]))
        if ok2:
            want = dict(dc=d['dc'][i], mc=d['mc'][i], gba=d['gba'][i], beta=d['beta'][i], c_eq_alpha=d['xEqAlpha'][i], c_eq_beta=d['xEqBeta'][i])
            bad = [k for k, v in want.items() if not deep_close(getattr(c, k), v, 1e-6)]
            if bad:
                res.violate('trained-%s.curvatureFactor-training-points' % cname, 'trained curvature surrogate does not reproduce %s at training point %d' % (bad, i), desc,
                            observed={k: brief(getattr(c, k)) for k in bad}, required={k: brief(want[k]) for k in bad})
            if float(d['T'][i]) == round(float(d['T'][i])):
                ok4, c2 = _guard(res, 'trained-%s.curvatureFactor-int-T' % cname, 'curvatureFactor at a training point, T as Python int', desc,
                                 lambda: s.curvatureFactor(np.asarray(d['x'][i]), int(d['T'][i])))
                res.count('typed-query:scalar-int-T')
                if ok4 and not deep_close(c2, c, 1e-12):
                    res.violate('trained-%s.curvatureFactor-depends-on-type-of-T' % cname, 'curvatureFactor(x, int T) differs from curvatureFactor(x, float T)', dict(desc, point=i))
            ok3, b = _guard(res, 'trained-%s.impingementFactor' % cname, 'impingementFactor at a training point', desc, lambda: s.impingementFactor(np.asarray(d['x'][i]), d['T'][i]))
            if ok3 and not deep_close(b, d['beta'][i], 1e-6):
                res.violate('trained-%s.impingementFactor-training-points' % cname, 'impingementFactor differs from the trained beta', desc, brief(b), brief(d['beta'][i]))
        res.case(('trained', cname, 'curvature', logX, bc, float(pts[0][0])), True)
    ok, _ = _guard(res, 'train-%s.trainDiffusivity' % cname, 'trainDiffusivity', desc, lambda: s.trainDiffusivity(xa, Ta, logX=logX, broadcast=bc))
    if ok:
        d = s.diffusivityData[phM]
        X, TT = np.asarray(d['x']), np.asarray(d['T'])
        ok2, out = _guard(res, 'trained-%s.getInterdiffusivity' % cname, 'getInterdiffusivity at the training points', desc, lambda: s.getInterdiffusivity(X, TT))
        if ok2 and not deep_close(out, d['dnkj'], 1e-6):
            res.violate('trained-%s.getInterdiffusivity-training-points' % cname, 'trained interdiffusivity does not reproduce its training data', desc, brief(out), brief(d['dnkj']))
        ok2, out = _guard(res, 'trained-%s.getTracerDiffusivity' % cname, 'getTracerDiffusivity at the training points', desc, lambda: s.getTracerDiffusivity(X, TT))
        if ok2 and not deep_close(out, d['dtracer'], 1e-6):
            res.violate('trained-%s.getTracerDiffusivity-training-points' % cname, 'trained tracer diffusivity does not reproduce its training data', desc, brief(out), brief(d['dtracer']))
        ok2, out = _guard(res, 'trained-%s.getInterdiffusivity-single-point' % cname, 'getInterdiffusivity(x of shape (e,), scalar T) (documented input form)', desc,
                          lambda: s.getInterdiffusivity(X[0], float(TT[0])))
        if ok2 and not deep_close(out, np.asarray(d['dnkj'])[0], 1e-6):
            res.violate('trained-%s.getInterdiffusivity-training-points' % cname, 'single-point interdiffusivity differs from the training datum', desc, brief(out), brief(np.asarray(d['dnkj'])[0]))
        ok2, out = _guard(res, 'trained-%s.getTracerDiffusivity-single-point' % cname, 'getTracerDiffusivity(x of shape (e,), scalar T) (documented input form)', desc,
                          lambda: s.getTracerDiffusivity(X[0], float(TT[0])))
        if ok2 and not deep_close(out, np.asarray(d['dtracer'])[0], 1e-6):
            res.violate('trained-%s.getTracerDiffusivity-training-points' % cname, 'single-point tracer diffusivity differs from the training datum', desc, brief(out), brief(np.asarray(d['dtracer'])[0]))
        typed_queries(res, cname, 'getInterdiffusivity', desc, lambda x, T: s.getInterdiffusivity(x, T), X, TT, d['dnkj'], multi=True)
        typed_queries(res, cname, 'getTracerDiffusivity', desc, lambda x, T: s.getTracerDiffusivity(x, T), X, TT, d['dtracer'], multi=True)
        res.case(('trained', cname, 'diffusivity', logX, bc, float(pts[0][0])), True)
    f = os.path.join(tmp, 'surr_m_%d' % len(os.listdir(tmp)))
    ok, _ = _guard(res, 'save-%s.toJson' % cname, 'toJson', desc, lambda: s.toJson(f))
    if not ok:
        return
    s2 = MulticomponentSurrogate(th)
    ok, _ = _guard(res, 'reload-%s.fromJson' % cname, 'fromJson of the file written by toJson (driving force + curvature + diffusivity trained)', desc, lambda: s2.fromJson(f))
    if not ok:
        return
    json_dict_check(res, s, s2, desc, jlines, jpending)
    if phM in s2.diffusivityData:
        d = s2.diffusivityData[phM]
        d2 = dict(desc, rebuilt_from_file=True)
        typed_queries(res, cname, 'getInterdiffusivity', d2, lambda x, T: s2.getInterdiffusivity(x, T), np.asarray(d['x']), d['T'], np.asarray(d['dnkj']), multi=True)
        typed_queries(res, cname, 'getTracerDiffusivity', d2, lambda x, T: s2.getTracerDiffusivity(x, T), np.asarray(d['x']), d['T'], np.asarray(d['dtracer']), multi=True)
    xq = np.array([round(a0 * 1.03, 5), round(c0 * 1.04, 5)]); Tq = float(rng.uniform(1072, 1088))
    for name, fn in [('getDrivingForce', lambda z: z.getDrivingForce(xq, Tq)), ('curvatureFactor', lambda z: z.curvatureFactor(xq, Tq)),
                     ('impingementFactor', lambda z: z.impingementFactor(xq, Tq)),
                     ('getGrowthAndInterfacialComposition', lambda z: tuple(z.getGrowthAndInterfacialComposition(xq, Tq, 500.0, np.array([1e-9, 2e-9]), np.array([1500.0, 800.0])))),
                     ('getInterdiffusivity', lambda z: z.getInterdiffusivity(xq.reshape(1, -1), Tq)), ('getTracerDiffusivity', lambda z: z.getTracerDiffusivity(xq.reshape(1, -1), Tq))]:
        with warnings.catch_warnings():
            warnings.simplefilter('ignore')
            try:
                a, b = fn(s), fn(s2)
            except Exception as e:
                res.count('reload-query-raised:' + name); continue
        res.count('reload-prediction:' + ('bit-identical' if deep_same(a, b) else 'within-1e-9'))
        if not deep_close(a, b, 1e-9):
            res.violate('reload-%s.%s-predictions-differ' % (cname, name), 'surrogate rebuilt from its JSON file predicts differently', dict(desc, xq=xq.tolist(), Tq=Tq))
    Ti = rng.randint(1072, 1088)
    for name, fn in [('getDrivingForce', lambda z, T: z.getDrivingForce(xq, T)), ('curvatureFactor', lambda z, T: z.curvatureFactor(xq, T)),
                     ('getInterdiffusivity', lambda z, T: z.getInterdiffusivity(xq, T)), ('getTracerDiffusivity', lambda z, T: z.getTracerDiffusivity(xq, T))]:
        for z, zn in ((s, 'original'), (s2, 'rebuilt')):
            ok, pair = _guard(res, 'trained-%s.%s-int-T-query' % (cname, name), '%s at a query point with int / float T (%s surrogate)' % (name, zn), desc,
                              lambda: (fn(z, float(Ti)), fn(z, int(Ti)), fn(z, np.array([Ti]))))
            res.count('typed-query:random-points')
            if ok and not (deep_close(pair[1], pair[0], 1e-12) and deep_close(pair[2], pair[0], 1e-12)):
                res.violate('trained-%s.%s-depends-on-type-of-T' % (cname, name), '%s(x, T) gives different predictions for T = %d as int and as float (%s surrogate)' % (name, Ti, zn),
                            dict(desc, xq=xq.tolist(), T=Ti))
    res.case(('reload', cname, logX, bc), True)


def json_cases(rng, n):
    """random arrays of rank 0..3 for the ndarray -> JSON -> ndarray correspondence"""
    out = []
    for _ in range(n):
        nd = rng.choice([0, 1, 1, 2, 2, 3])
        shape = tuple(rng.randint(1, 5) for _ in range(nd))
        size = int(np.prod(shape)) if nd else 1
        vals = []
        for _ in range(size):
            k = rng.random()
            vals.append(0.0 if k < 0.05 else -0.0 if k < 0.08 else 5e-324 if k < 0.1 else float('inf') if k < 0.12 else
                        rng.choice([-1, 1]) * 10 ** rng.uniform(-300, 300) if k < 0.4 else rng.uniform(-1, 1))
        out.append(np.array(vals, dtype=float).reshape(shape))
    return out


def json_model_compare(res, ctx, rng, jlines, jpending, nrand):
    vlib.use_repo()
    from kawin.thermo.Surrogate import NumpyEncoder
    for a in json_cases(rng, nrand):
        back = json.loads(json.dumps({'v': a}, cls=NumpyEncoder))['v']
        jlines.append('json.rt %d %s %s' % (a.ndim, ' '.join(map(str, a.shape)), enc_list(a.ravel())))
        jpending.append((dict(kind='random array', shape=list(a.shape)), a, back))
        if not same(np.array(back, dtype=float), a):
            res.violate('json-roundtrip-array', 'json.dumps(NumpyEncoder) -> json.loads -> np.array changes an array', dict(shape=list(a.shape), head=np.ravel(a)[:3].tolist()))
    if not (ctx.driver_ok and jlines):
        return
    answers = vlib.run_driver(PROP, jlines)
    for ans, (desc, a, back) in zip(answers, jpending):
        t = Toks(ans)
        if not t.ok:
            res.disagree('json model error', desc, 'ok', t.err); continue
        shape = [t.nat() for _ in range(t.nat())]
        data = t.flts()
        nest = ' '.join(t.rest())
        arr = np.array(back, dtype=float)
        res.count('json-model-compared')
        if shape != list(arr.shape) or not same(np.array(data, dtype=float).reshape(arr.shape if shape == list(arr.shape) else -1), arr):
            res.disagree('np.array(tolist) shape/data', desc, dict(shape=list(arr.shape)), dict(shape=shape))
        elif nest != show_nest(back if isinstance(back, list) else float(back)):
            res.disagree('nested list structure', desc, show_nest(back)[:200], nest[:200])


# ============================================================================ save / load HISTORIES in one process
HIST_NAMES = ['ckpt', 'run_a', 'state.b', 'out_2']
# names with dots that are NOT the extension, in groups whose members differ only behind the last dot (check points named after the
# model time, a temperature, a version ...), some already carrying the suffix, some in sub-directories
DOTTED_GROUPS = [['run_0.25h', 'run_0.5h', 'run_0.75h'], ['a.b', 'a.c', 'a'], ['x.5', 'x.25', 'x.125'], ['v1.0.npz', 'v1.1.npz', 'v1.npz'],
                 ['T_723.15', 'T_723.65', 'T_723'], ['ckpts/alzr_0.25h', 'ckpts/alzr_0.5h', 'ckpts/alzr_1.5h'], ['out.d/state', 'out.d/state.1', 'out.e/state'],
                 ['.hidden', '.hidden.1', '.hidden.2'], ['p.q/r.s', 'p.q/r.t', 'p.q/r']]
HIST_IGNORED = set(PSDREC_SLOTS)        # the recorded size-distribution history is the known finding psd-recording-not-saved


def gen_history(rng, kind, dotted=False):
    """a random sequence of solve / save / load calls on 2-3 file names which are REUSED: ('solve', i, steps) | ('save', i, name) |
    ('load', name); i indexes the live model objects (0 = the model under study, then every model a file was loaded into, in the
    order of the loads).  Every history starts with solve, save(f0), load(f0) and ends with solve, save(f0), load(f0): the
    second load of a name that has been loaded before must give the SECOND save point.  Names are spelt with and without
    the '.npz' suffix (the same file)."""
    names = rng.sample(HIST_NAMES, rng.choice([2, 2, 3]))
    if dotted:           # dotted=True: names of ONE group (differing only behind the last dot)
        g = rng.choice(DOTTED_GROUPS)
        names = rng.sample(g, rng.choice([2, 3]))
    spell = lambda f: f + ('.npz' if rng.random() < 0.4 and not f.endswith('.npz') else '')
    if kind == 'S':
        return gen_history_strength(rng, names, spell)
    steps = (lambda: rng.randint(15, 45)) if kind == 'P' else (lambda: rng.randint(3, 25))
    max_live = 3 if kind == 'P' else 5
    loaded_solves_left = 1 if kind == 'P' else 4          # the first solve call of a precipitation model costs ~1 s (setup)
    ops = [('solve', 0, steps()), ('save', 0, spell(names[0])), ('load', spell(names[0]))]
    live, saved, started = 2, {names[0]}, {0}
    if dotted:           # an earlier check point is loaded AFTER a later one was saved under a name differing behind the last dot
        ops += [('solve', 0, steps()), ('save', 0, spell(names[1])), ('load', spell(names[0]))]
        live += 1; saved.add(names[1])
    for _ in range((rng.randint(1, 4) if dotted else rng.randint(3, 7)) if kind == 'P' else rng.randint(4, 12)):
        k = rng.random()
        if k < 0.35:
            i = rng.randrange(live) if rng.random() < 0.5 else 0
            if i not in started:
                if loaded_solves_left <= 0:
                    i = 0
                else:
                    loaded_solves_left -= 1; started.add(i)
            ops.append(('solve', i, steps()))
        elif k < 0.7:
            f = rng.choice(names)
            ops.append(('save', rng.randrange(live), spell(f))); saved.add(f)
        elif live < max_live:
            ops.append(('load', spell(rng.choice(sorted(saved))))); live += 1
    src = rng.choice(sorted(started))
    ops += [('solve', src, steps()), ('save', src, spell(names[0])), ('load', spell(names[0]))]
    return ops


def gen_history_strength(rng, names, spell):
    """histories of a StrengthModel coupled to a precipitation run: ('solve', 0, steps) advances the run the model 0 is coupled to;
    ('save', i, name, compressed) saves live strength model i in one of the two on-disk formats (np.savez adds '.npz' to a name
    without it); ('load', name.npz) loads into a fresh StrengthModel, which joins the live models (it can be saved again, not solved).
    The first and the last save of the history go to the same name in DIFFERENT formats."""
    steps = lambda: rng.randint(8, 25)
    c0 = rng.random() < 0.5
    ops = [('solve', 0, steps()), ('save', 0, spell(names[0]), c0), ('load', canon_name(names[0]))]
    live, saved = 2, {names[0]}
    if names[0] not in HIST_NAMES:
        ops += [('solve', 0, steps()), ('save', 0, spell(names[1]), rng.random() < 0.5), ('load', canon_name(names[0]))]
        live += 1; saved.add(names[1])
    for _ in range(rng.randint(4, 9)):
        k = rng.random()
        if k < 0.3:
            ops.append(('solve', 0, steps()))
        elif k < 0.7:
            f = rng.choice(names)
            ops.append(('save', rng.randrange(live), spell(f), rng.random() < 0.5)); saved.add(f)
        elif live < 5:
            ops.append(('load', canon_name(rng.choice(sorted(saved))))); live += 1
    ops += [('solve', 0, steps()), ('save', 0, spell(names[0]), not c0), ('load', canon_name(names[0]))]
    return ops


def canon_name(f):
    return f if f.endswith('.npz') else f + '.npz'


def files_on_disk(d):
    return sorted(os.path.relpath(os.path.join(r, x), d) for r, _ds, xs in os.walk(d) for x in xs)


def name_class(f):
    stem = f[:-4] if f.endswith('.npz') else f
    return '%s%s%s' % ('dot-besides-the-extension' if '.' in os.path.basename(stem) else 'dot-in-directory-only' if '.' in stem else 'no-extra-dot',
                       ',suffix-given' if f.endswith('.npz') else ',suffix-added', ',sub-directory' if '/' in f else '')


def run_history(res, ctx, tmp, kind, cfg, ops, lines=None, pending=None):
    """execute one history on real models; ORACLE after every load: the freshly constructed model the file was loaded into holds,
    in every slot, what the saved model held AT THE MOMENT OF THE LAST save() TO THAT NAME (deep snapshot taken at save time)"""
    if kind == 'P':
        build = lambda: build_precip(cfg)
        getter = precip_get
        names_of = lambda m: [n for n in precip_slot_names(m) if slot_template(n) not in HIST_IGNORED]
        solve = lambda cap, n: cap.solve(3600.0 * 2, n, cfg['solver'])
        phases = None
    elif kind == 'S':
        vlib.use_repo()
        from kawin.precipitation.coupling import StrengthModel
        build = StrengthModel
        getter = lambda o, n: getattr(o, n, None)
        names_of = lambda m: ['rss', 'ls', 'solidStrength']
        solve = lambda cap, n: cap.solve(3600.0 * 2, n, cfg['solver'])
    else:
        build = lambda: build_diff(cfg)
        getter = diff_get
        names_of = lambda m: list(DIFF_SLOTS)
        def solve(cap, n):
            dt = diff_dt_estimate(cap.model, cfg)
            return cap.solve(dt * n * 1.0001, n + 2, cfg['solver']) if dt is not None else cap.solve(2.0e5, n, cfg['solver'])
    sub = tempfile.mkdtemp(prefix='hist_', dir=tmp)
    m0 = build()
    if kind == 'S':
        pm = build_precip(cfg)                                   # the run the strength model is coupled to, started from an existing
        m0.setSolidSolutionStrength({'ZR': 2.0e8}, 1)            # particle population so that rss != ls != solid solution strength
        pm.addCouplingModel(m0)                                  # from the first step on
        with _quiet():
            pm.setup()
        N0, r0, sg = cfg['seedPSD']
        r = pm.PBM[0].PSDsize
        pm.PBM[0].PSD = N0 / (r * sg * np.sqrt(2 * np.pi)) * np.exp(-np.log(r / r0) ** 2 / (2 * sg ** 2)) * (r[1] - r[0])
    names = names_of(m0)
    phases = [str(p) for p in m0.phases] if kind == 'P' else []
    snap = lambda m: dict(slots_of(m, names, getter), **({'pData.n': np.array(float(m.pData.n))} if kind == 'P' else {}))
    fields = names + (['pData.n'] if kind == 'P' else [])
    states = [slots_of(m0, names, getter)]                       # state 0: a freshly constructed model
    live, caps = [m0], [StepCap(pm if kind == 'S' else m0)]
    store = {}                                                   # canonical file name -> snapshots of every save to it, in order
    store_branch = {}                                            # canonical file name -> on-disk format of the last save (kind S)
    progress = (lambda sn: float(np.ravel(sn['t' if kind == 'D' else 'pData.time'])[-1])) if kind != 'S' else (lambda sn: float(len(sn['rss'])))
    mops, loads = [], []
    idle = {}                                                    # live index -> snapshot at load time, for loaded models not touched since
    mname = {'P': 'precipitation', 'D': 'diffusion', 'S': 'strength'}[kind]
    base = dict(history=True, kind=kind, cfg=dict(cfg), ops=[list(o) for o in ops])
    nloads_checked = 0
    for k, op in enumerate(ops):
        if op[0] == 'solve':
            _, i, n = op
            idle.pop(i, None)
            solve(caps[i], n)
            states.append(slots_of(live[i], names, getter)); mops.append('S %d %d' % (i, len(states) - 1))
            res.count('history-op:solve-%s' % ('original' if i == 0 else 'loaded-model'))
        elif op[0] == 'save':
            i, f = op[1], op[2]
            before = snap(live[i])
            os.makedirs(os.path.dirname(os.path.join(sub, f)), exist_ok=True)
            if kind == 'S':
                live[i].save(os.path.join(sub, f), compressed=bool(op[3]))
                store_branch[canon_name(f)] = 'compressed' if op[3] else 'uncompressed'
                res.count('history-op:save-strength-%s' % store_branch[canon_name(f)])
            else:
                live[i].save(os.path.join(sub, f))
            store.setdefault(canon_name(f), []).append(snap(live[i]))
            changed = [n for n in fields if not same(before[n], store[canon_name(f)][-1][n])]
            if changed:
                res.violate('saveload-history:save-changes-the-model', '%s model: save() changed slot(s) %s of the model it saved' % (mname, changed[:6]),
                            dict(base, at_op=k, file=f, model=mname), observed={n: brief(store[canon_name(f)][-1][n]) for n in changed[:4]}, required={n: brief(before[n]) for n in changed[:4]})
            mops.append('W %d %s' % (i, f))
            res.count('history-op:save-%s' % ('first-use-of-name' if len(store[canon_name(f)]) == 1 else 'name-reused'))
            res.count('history-name:%s' % name_class(f))
            # ORACLE on the files: one file per distinct name, the file of name N is called N or N + '.npz'
            disk = files_on_disk(sub)
            res.count('history-files-on-disk-checked')
            if disk != sorted(store):
                missing = [g for g in store if g not in disk]
                extra = [g for g in disk if g not in store]
                fdesc = dict(base, at_op=k, file=f, model=mname)
                if len(disk) < len(store):
                    res.violate('saveload-history:names-alias-one-file',
                                '%s model: %d different file names were saved to (%s) but the directory holds %d file(s) %s: the save to %r went to a file another name uses'
                                % (mname, len(store), sorted(store), len(disk), disk, f), fdesc, observed=disk, required=sorted(store))
                else:
                    res.violate('saveload-history:file-not-named-as-given',
                                '%s model: after save(%r) the directory holds %s; expected the file(s) %s (the name given, with .npz appended unless it ends with it)'
                                % (mname, f, extra, missing), fdesc, observed=disk, required=sorted(store))
        else:
            _, f = op
            fresh = build()
            fresh0 = snap(fresh)
            desc = dict(base, at_op=k, file=f, saves_to_this_name=len(store.get(canon_name(f), [])), model=mname)
            mops.append('L %s 0' % f)
            try:
                fresh.load(os.path.join(sub, f))
            except Exception as e:
                tb = traceback.format_exc()
                res.violate('saveload-history:load-raises-%s' % type(e).__name__, 'load() of a file written by save() in the same process raised %s: %s' % (type(e).__name__, str(e)[:120]),
                            desc, observed=tb[-500:], required='the file loads')
                loads.append(dict(desc=desc, outcome=('raised', type(e).__name__), after=None))
                continue
            got = snap(fresh)
            want = store[canon_name(f)][-1]
            loads.append(dict(desc=desc, outcome=None, after=got))
            live.append(fresh); caps.append(StepCap(fresh) if kind != 'S' else None)
            idle[len(live) - 1] = got
            nloads_checked += 1
            nth = len(store[canon_name(f)])
            res.count('history-op:load-after-%s' % ('one-save' if nth == 1 else 'several-saves-to-the-name'))
            if kind == 'S':
                res.case(('history', kind, repr(sorted(cfg.items()))[:80], k, f, nth), bool(np.any(want['rss'] > 0) and not same(want['rss'], want['ls'])))
                br = store_branch[canon_name(f)]
                CLS['lines'].append('sl.cls StrengthModel %s %s %s' % (br, enc_slots({n: want[n] for n in names}), enc_slots({n: fresh0[n] for n in names})))
                CLS['pending'].append(dict(desc=desc, file_keys=sorted(read_npz(os.path.join(sub, canon_name(f)))), outcome=None, after=got, names=list(names)))
            else:
                res.case(('history', kind, repr(sorted(cfg.items()))[:80], k, f, nth), bool(progress(want) > 0))
            bad = [n for n in fields if not same(want[n], got[n])]
            if not bad:
                continue
            eq = lambda sn: all(same(sn[n], got[n]) for n in fields)
            earlier = [j for j, sn in enumerate(store[canon_name(f)][:-1]) if eq(sn)]
            other = [g for g, sns in store.items() if g != canon_name(f) and any(eq(sn) for sn in sns)]
            tnow = progress
            if earlier:
                res.violate('saveload-history:load-returns-earlier-save-point',
                            '%s model: save() was called %d times on %r in this process; load() returns the state of save no. %d (t = %.6g), not of the last one (t = %.6g)'
                            % (mname, nth, f, earlier[-1] + 1, tnow(got), tnow(want)), desc,
                            observed={n: brief(got[n]) for n in bad[:4]}, required={n: brief(want[n]) for n in bad[:4]})
            elif other:
                res.violate('saveload-history:load-returns-other-file', '%s model: load(%r) returns what was saved to %s' % (mname, f, other), desc,
                            observed={n: brief(got[n]) for n in bad[:4]}, required={n: brief(want[n]) for n in bad[:4]})
            else:
                res.violate(('saveload-history:%s-differs' % slot_template(bad[0])) if kind != 'S' else 'saveload-history:StrengthModel:%s:%s-differs' % (store_branch[canon_name(f)], bad[0]),
                            '%s model: after load(%r) slot(s) %s differ from the model as it was at the last save() to that name%s'
                            % (mname, f, bad[:6], '' if kind != 'S' else ' (written with compressed=%s)' % (store_branch[canon_name(f)] == 'compressed')), desc,
                            observed={n: brief(got[n]) for n in bad[:4]}, required={n: brief(want[n]) for n in bad[:4]})
    for j, sn in idle.items():                  # a model that was loaded and then left alone is still what was loaded, whatever was solved / saved / loaded afterwards
        now = snap(live[j])
        changed = [n for n in fields if not same(sn[n], now[n])]
        res.count('history-idle-loaded-model-rechecked')
        if changed:
            res.violate('saveload-history:loaded-model-changed-by-later-calls',
                        '%s model: live model no. %d was loaded and not touched afterwards, yet slot(s) %s changed while other models were solved / saved / loaded' % (mname, j, changed[:6]),
                        dict(base, live_model=j, model=mname), observed={n: brief(now[n]) for n in changed[:4]}, required={n: brief(sn[n]) for n in changed[:4]})
    res.sample(dict(model=mname, history=[list(o) for o in ops], loads_checked=nloads_checked), cap=4)
    if lines is not None and kind != 'S':
        lines.append('sl.hist %s %d %s %d %s 0 %d %s' % (kind, len(phases), ' '.join(phases), len(states), ' '.join(enc_slots(s) for s in states), len(mops), ' '.join(mops)))
        pending.append(dict(loads=loads, names=names, desc=base, files=files_on_disk(sub)))


def parse_hist(line):
    t = Toks(line)
    if not t.ok:
        return {'bad': t.err}
    assert t.tok() == 'H'
    outs = []
    for _ in range(t.nat()):
        tag = t.tok()
        if tag == 'X':
            outs.append(('nofile',))
        elif tag == 'E':
            what = t.tok()
            outs.append(('err', what, t.tok()) if what == 'keyerror' else ('err', what))
        else:
            slots = {}
            for _ in range(t.nat()):
                name = t.tok(); tg = t.tok()
                if tg == 'N':
                    slots[name] = None
                else:
                    shape = tuple(t.nat() for _ in range(t.nat()))
                    slots[name] = np.array(t.flts(), dtype=float).reshape(shape)
            outs.append(('ok', slots))
    files = None
    if t.i < len(t.t) and t.tok() == "F":
        files = sorted(t.tok() for _ in range(t.nat()))
    return {'outs': outs, 'files': files}


def compare_histories(res, answers, pending):
    for ans, p in zip(answers, pending):
        r = parse_hist(ans)
        res.count('history-model-compared')
        if 'bad' in r:
            res.disagree('save/load history model error', p['desc'], 'ok', r['bad']); continue
        if len(r['outs']) != len(p['loads']):
            res.disagree('number of load calls', p['desc'], len(p['loads']), len(r['outs'])); continue
        if r.get('files') is not None and 'files' in p:
            res.count('history-model-files-compared')
            if r['files'] != sorted(p['files']):
                res.disagree('files that exist after the history (npzName of every name saved to)', p['desc'], sorted(p['files']), r['files']); continue
        for o, l in zip(r['outs'], p['loads']):
            if (o[0] == 'ok') != (l['outcome'] is None):
                res.disagree('outcome of load() in a history', l['desc'], l['outcome'] or 'ok', o[:1] if o[0] == 'ok' else o[:2]); break
            if o[0] == 'ok':
                bad = [n for n in p['names'] if not same(o[1].get(n), l['after'][n])]
                if bad:
                    res.disagree('slot %s after load() in a history' % bad[0], l['desc'], brief(l['after'][bad[0]]), brief(o[1].get(bad[0]))); break


def hist_precip_cfg(rng):
    cfg = gen_precip_cfg(rng)
    cfg.update(record=False, strength=False)
    return cfg


def hist_strength_cfg(rng):
    cfg = hist_precip_cfg(rng)
    cfg.update(seedPSD=[10 ** rng.uniform(17, 19), round(rng.uniform(0.7, 1.6), 3) * 1e-9, round(rng.uniform(0.15, 0.35), 3)])
    return cfg


SYNTH_KINDS = ['distinct', 'distinct', 'neighbouring-doubles', 'late-nucleation', 'single-step', 'no-particles']


def gen_synthetic_strength(rng, kind=None):
    return dict(check='saveload-synthetic-strength', kind=kind or rng.choice(SYNTH_KINDS), seed=rng.getrandbits(30), steps=rng.randint(2, 60), nphases=rng.choice([1, 1, 2, 3]))


def run_synthetic_strength(res, tmp, spec):
    """a StrengthModel holding histories of a given shape class (n steps x phases), every keyword branch of save: rss ~ 1e-9 m,
    ls ~ 1e-6 m, solid solution strength ~ 1e6 Pa, pairwise distinct ('neighbouring-doubles': ls = the next double after rss;
    'no-particles': rss = ls = 0 everywhere, the one case in which two entries of the file are the same array)"""
    vlib.use_repo()
    from kawin.precipitation.coupling import StrengthModel
    r = np.random.default_rng(spec['seed'])
    n, P = (1 if spec['kind'] == 'single-step' else spec['steps']), spec['nphases']
    sm = StrengthModel()
    sm.rss = 1e-9 * r.lognormal(0, 0.3, (n, P))
    sm.ls = 1e-6 * r.lognormal(0, 0.5, (n, P))
    sm.solidStrength = 1e6 * (1 + 0.01 * r.standard_normal(n))
    if spec['kind'] == 'neighbouring-doubles':
        sm.ls = np.nextafter(sm.rss, np.inf)
    if spec['kind'] == 'late-nucleation':
        k = max(1, n // 2); sm.rss[:k] = 0; sm.ls[:k] = 0
    if spec['kind'] == 'no-particles':
        sm.rss[:] = 0; sm.ls[:] = 0
    strength_roundtrips(res, tmp, sm, dict(spec))
    suffix_observation(res, tmp, 'StrengthModel', sm, StrengthModel, 'save', 'load')


def gen_graingrowth(rng):
    return dict(check='saveload-graingrowth', r0=round(10 ** rng.uniform(-5.3, -4.3), 8), sig=round(rng.uniform(0.15, 0.35), 3), t=round(10 ** rng.uniform(0, 2), 2), coupler=rng.random() < 0.5)


def run_graingrowth_case(res, tmp, spec):
    """GrainGrowthModel (and a Coupler around it) inherit GenericModel.save / load with the base-class toDict() == {}: the file is an
    empty archive and load restores nothing; the oracle holds vacuously (counted as no-fields-written, not a violation: neither is a
    precipitation or diffusion model)"""
    vlib.use_repo()
    from kawin.precipitation.coupling import GrainGrowthModel
    from kawin.GenericModel import Coupler
    def make():
        g = GrainGrowthModel(1e-6, 1e-4)
        g.LoadDistributionFunction(lambda r: np.exp(-(r - spec['r0']) ** 2 / (2 * (spec['sig'] * spec['r0']) ** 2)))
        return g
    g = make()
    with _quiet():
        g.solve(spec['t'], verbose=False)
    for tag, kw in save_variants(GrainGrowthModel.save):
        class_roundtrip(res, tmp, 'GrainGrowthModel', tag, kw, g, make, sorted(plain_slot_names(g)), save_named('save', 'grains'), lambda o, fn: o.load(fn), dict(spec))
    if spec['coupler']:
        c = Coupler([g])
        for tag, kw in save_variants(Coupler.save):
            class_roundtrip(res, tmp, 'Coupler', tag, kw, c, lambda: Coupler([make()]), sorted(plain_slot_names(c)), save_named('save', 'coupled.npz'), lambda o, fn: o.load(fn), dict(spec))


def check_classes(res, ctx, tmp, rng, n_synth, n_gg, n_hist, oracle_only, errs):
    """the classes of the package with a save / load pair that the sections above do not reach through real precipitation / diffusion
    cases: synthetic strength histories, grain growth / coupler, strength-model histories; then the Lean-model comparison of every
    sl.cls line queued in this corr() call (rows of the generated table)"""
    for k in range(n_synth):
        spec = gen_synthetic_strength(rng, SYNTH_KINDS[k] if k < len(SYNTH_KINDS) else None)
        guarded(res, errs, 'saveload-synthetic-strength', dict(spec), lambda: run_synthetic_strength(res, tmp, spec))
    for k in range(n_gg):
        spec = gen_graingrowth(rng)
        spec['coupler'] = True if k == 0 else spec['coupler']
        guarded(res, errs, 'saveload-graingrowth', dict(spec), lambda: run_graingrowth_case(res, tmp, spec))
    for _ in range(n_hist):
        cfg = hist_strength_cfg(rng)
        ops = gen_history(rng, 'S', dotted=rng.random() < 0.5)
        guarded(res, errs, 'saveload-history-strength', dict(history=True, kind='S', cfg=dict(cfg), ops=[list(o) for o in ops]),
                lambda: run_history(res, ctx, tmp, 'S', cfg, ops))
    try:
        covered = {r[0] for r in tables()['rows']}
        for c, _m, a, _l, sig in tables()['pairs']:
            res.count('saveload-pair:%s.%s%s' % (c, a, sig))
            if c not in covered and c not in ('GenericModel', 'DiffusionModel', 'PrecipitateBase'):
                res.count('saveload-pair-WITHOUT-generator:%s.%s' % (c, a))
                res.extra.setdefault('saveload_pairs_without_generator', []).append('%s.%s' % (c, a))
    except Exception:
        pass
    if ctx.driver_ok and not oracle_only and CLS['lines']:
        lines, pending = list(CLS['lines']), list(CLS['pending'])
        guarded(res, errs, 'class-model-comparison', {}, lambda: compare_classes(res, vlib.run_driver(PROP, lines), pending))
        res.traces += len(lines)


def check_histories(res, ctx, tmp, rng, nP, nD, oracle_only, errs):
    lines, pending = [], []
    for _ in range(nD):
        cfg = gen_diff_cfg(rng)
        cfg['rec'] = rng.choice(['on', 'off', 'on', 'off', 'switched-off'])       # recorded arrays present or None in the file
        cfg['rec'] = 'on' if cfg['rec'] == 'switched-off' else cfg['rec']
        ops = gen_history(rng, 'D', dotted=_ % 2 == 1)
        guarded(res, errs, 'saveload-history-diffusion', dict(history=True, kind='D', cfg=dict(cfg), ops=[list(o) for o in ops]),
                lambda: run_history(res, ctx, tmp, 'D', cfg, ops, lines, pending))
    for _ in range(nP):
        cfg = hist_precip_cfg(rng)
        ops = gen_history(rng, 'P', dotted=_ % 2 == 0)
        guarded(res, errs, 'saveload-history-precipitation', dict(history=True, kind='P', cfg=dict(cfg), ops=[list(o) for o in ops]),
                lambda: run_history(res, ctx, tmp, 'P', cfg, ops, lines, pending))
    if ctx.driver_ok and not oracle_only and lines:
        guarded(res, errs, 'history-model-comparison', {}, lambda: compare_histories(res, vlib.run_driver(PROP, lines), pending))
        res.traces += len(lines)


# ============================================================================ surrogates: training grids, training orders, rebuild
class MemoTherm:
    """forwards to the real thermodynamics; a method called again with the same arguments returns (a copy of) the first result,
    so that two surrogates trained on the same grid receive bit-identical training data (a second pycalphad evaluation of the
    same point is reproducible only to the minimiser tolerance)"""
    def __init__(self, th):
        object.__setattr__(self, '_th', th)
        object.__setattr__(self, '_memo', {})

    def __getattr__(self, name):
        v = getattr(self._th, name)
        if callable(v) and not name.startswith('_'):
            def f(*a, **k):
                key = (name, tuple(_argkey(x) for x in a), tuple(sorted((kk, _argkey(x)) for kk, x in k.items())))
                if key not in self._memo:
                    self._memo[key] = v(*a, **k)
                return copy.deepcopy(self._memo[key])
            return f
        return v


def _argkey(x):
    if isinstance(x, (str, bool, type(None))):
        return x
    a = np.asarray(x)
    return (str(a.dtype), a.shape, a.tobytes())


def fit_info(kernel_obj):
    """what can be read off a fitted kernel: (number of nodes the interpolator was built on, fitted with normalised inputs?)"""
    rbf = getattr(kernel_obj, 'rbfModel', None)
    y = getattr(rbf, 'y', None)
    nodes = None if y is None else int(np.shape(y)[0])
    sc, off = getattr(kernel_obj, 'scale', None), getattr(kernel_obj, 'xoffset', None)
    normalized = None if sc is None or off is None else not (bool(np.all(np.asarray(sc) == 1)) and bool(np.all(np.asarray(off) == 0)))
    return nodes, normalized


def decade(d):
    return '1e%+d' % int(math.floor(math.log10(d) + 1e-9))


def rel_err(out, want):
    """largest deviation relative to max(|want|, 1e-6 * largest |want|) over a tuple of arrays"""
    worst = 0.0
    for a, b in zip(out, want):
        a = np.asarray(a, dtype=float); b = np.asarray(b, dtype=float)
        if a.shape != b.shape:
            if a.size == b.size:
                a = a.reshape(b.shape)
            else:
                return float('inf')
        if not b.size:
            continue
        same_special = (np.isnan(a) & np.isnan(b)) | (np.isinf(a) & np.isinf(b) & (a == b))     # the same inf / nan on both sides is agreement
        fin = np.isfinite(a) & np.isfinite(b)
        if not np.all(fin | same_special):
            return float('inf')
        if np.any(fin):
            sc = float(np.max(np.abs(b[fin])))
            worst = max(worst, float(np.max(np.abs(a[fin] - b[fin]) / np.maximum(np.maximum(np.abs(b[fin]), sc * 1e-6), 1e-300))))
    return worst


QUANT = {      # quantity -> (data attribute, model attribute, short token of the Lean model)
    'drivingForce': ('drivingForceData', 'drivingForceModels', 'df'),
    'diffusivity': ('diffusivityData', 'diffusivityModels', 'diff'),
    'interfacialComposition': ('interfacialCompositionData', 'interfacialCompositionModels', 'ic'),
    'curvature': ('curvatureData', 'curvatureModels', 'curv'),
}
REFIT_ORDER = ['drivingForce', 'diffusivity', 'interfacialComposition', 'curvature']
TRAIN_TOL = 1e-6     # the unchanged code reproduces its training data to <= 1e-9 on these grid classes (about 2000 grids probed, worst 9.7e-10): margin 1000


def make_surrogate(cls, th, kernel):
    """kernel None: the constructor default (cubic, normalize=True)"""
    return cls(th) if kernel is None else cls(th, kernelKwargs=dict(kernel))


def kernel_settings(kernel):
    k = {'kernel': 'cubic', 'normalize': True} if kernel is None else kernel
    return str(k.get('kernel', 'thin_plate_spline')), bool(k.get('normalize', False))


def train_quantity(s, q, a):
    """a: JSON-able training arguments of one quantity"""
    if q == 'drivingForce':
        s.trainDrivingForce(np.array(a['x']), np.array(a['T']), logX=a['log'], broadcast=a['broadcast'])
    elif q == 'diffusivity':
        s.trainDiffusivity(np.array(a['x']), np.array(a['T']), logX=a['log'], broadcast=a['broadcast'])
    elif q == 'interfacialComposition':
        s.trainInterfacialComposition(np.array(a['T']), np.array(a['g']), logY=a['log'], broadcast=a['broadcast'])
    else:
        s.trainCurvature(np.array(a['x']), np.array(a['T']), logX=a['log'], broadcast=a['broadcast'])


def stored_points(s, q, ph):
    """(training inputs as stored, stored training values as a tuple of arrays, number of distinct stored input rows,
    number of input columns the fit uses)"""
    d = getattr(s, QUANT[q][0])[ph]
    binary = s.numElements == 2
    if q == 'interfacialComposition':
        T, g = np.ravel(d['T']).astype(float), np.ravel(d['gExtra']).astype(float)
        cols = [c for c, single in ((T, d['singleT']), (g, d['singleG'])) if not single]
        return (T, g), (np.asarray(d['xpalpha']), np.asarray(d['xpbeta'])), _distinct(cols), len(cols)
    x = np.asarray(d['x'], dtype=float); T = np.ravel(d['T']).astype(float)
    x2 = x.reshape(len(T), -1)
    cols = ([x2[:, j] for j in range(x2.shape[1])] if not d['singleX'] else []) + ([T] if not d['singleT'] else [])
    if q == 'drivingForce':
        vals = (np.asarray(d['dg']), np.asarray(d['xp']))
    elif q == 'diffusivity':
        vals = (np.asarray(d['dnkj']), np.asarray(d['dtracer']))
    else:
        vals = tuple(np.asarray(d[k]) for k in ('dc', 'mc', 'gba', 'beta', 'xEqAlpha', 'xEqBeta'))
    return ((x[:, 0] if binary else x2), T), vals, _distinct(cols), len(cols)


def _distinct(cols):
    return int(np.unique(np.column_stack(cols), axis=0).shape[0]) if cols else 0


def predict(s, q, pts):
    """the getters of quantity q at points pts = (x, T) / (T, g): tuple of arrays"""
    if q == 'drivingForce':
        return tuple(s.getDrivingForce(pts[0], pts[1]))
    if q == 'diffusivity':
        return (s.getInterdiffusivity(pts[0], pts[1]), s.getTracerDiffusivity(pts[0], pts[1]))
    if q == 'interfacialComposition':
        return tuple(s.getInterfacialComposition(pts[0], pts[1]))
    outs = [s.curvatureFactor(np.asarray(pts[0])[i], float(pts[1][i])) for i in range(len(pts[1]))]
    return tuple(np.array([np.asarray(getattr(c, k), dtype=float) for c in outs]) for k in ('dc', 'mc', 'gba', 'beta', 'c_eq_alpha', 'c_eq_beta'))


def phase_of(s, q):
    return s.phases[0] if q == 'diffusivity' else s.phases[1]


def close_axis(rng, base, d, n, jitter=0.15):
    """n values starting at base with spacing ~d (raw units)"""
    return [float(base + d * (i + (rng.uniform(-jitter, jitter) if 0 < i else 0.0))) for i in range(n)]


X_SPACINGS = [1e-5, 3e-5, 1e-4, 5e-4, 1e-3, 3e-3, 1e-2]
T_SPACINGS = [0.1, 0.5, 1.0, 5.0, 10.0, 50.0]
G_SPACINGS = [1.0, 10.0, 100.0, 1000.0]


def gen_grid_spec(rng, system, forced=None):
    """one training-grid case: CLOSELY SPACED points in raw units on the composition axis (1e-5 .. 1e-2, linear or log fit), on
    the temperature axis (0.1 .. 50 K) and on the Gibbs-Thomson axis (1 .. 1000 J/mol), single-T / single-x / single-g axes,
    grid (broadcast) or explicit point list, dilute compositions, the three kernel settings"""
    f = forced or {}
    kernel = f.get('kernel', rng.choice([None, {'kernel': 'cubic', 'normalize': True}, {'kernel': 'linear', 'normalize': False}]))
    dx = f.get('dx', rng.choice(X_SPACINGS)); dT = f.get('dT', rng.choice(T_SPACINGS)); dg = rng.choice(G_SPACINGS)
    log = f.get('log', rng.random() < 0.5)
    nT = f.get('nT', rng.choice([1, 2, 3, 4])); nx = f.get('nx', rng.choice([1, 2, 3, 4, 5]))
    if nT == 1 and nx == 1:
        nx = 3
    bc = f.get('broadcast', True if (nT == 1 or nx == 1) else rng.random() < 0.6)
    if system == 'binary':
        x0 = f.get('x0', 10 ** rng.uniform(-3.6, -2.3))
        xs = close_axis(rng, x0, dx, nx)
        if nx > 1 and rng.random() < 0.5 and 'nx' not in f:
            xs.append(xs[-1] + 10 ** rng.uniform(-3, -2.2))           # a far point besides the close ones
        Ts = close_axis(rng, round(rng.uniform(650, 780), 2), dT, nT, 0.0)
        ng = rng.choice([1, 2, 3, 4]) if nT > 1 else rng.choice([2, 3, 4])
        gs = close_axis(rng, 10 ** rng.uniform(1.5, 3.5), dg, ng)
        bcg = True if (nT == 1 or ng == 1) else rng.random() < 0.6
        def pts(a, b, grid):       # explicit point lists of equal length when broadcast is off
            return (a, b) if grid else ([v for _ in b for v in a], [w for w in b for _ in a])
        xa, Ta = pts(xs, Ts, bc)
        Tg, gg = (Ts, gs) if bcg else ([t for t in Ts for _ in gs], [g for _ in Ts for g in gs])
        train = {'drivingForce': dict(x=xa, T=Ta, log=log, broadcast=bc), 'diffusivity': dict(x=xa, T=Ta, log=log, broadcast=bc),
                 'interfacialComposition': dict(T=Tg, g=gg, log=rng.random() < 0.5, broadcast=bcg)}
        cls = {'x': 'single-x' if len(xs) == 1 else 'dx~' + decade(dx), 'T': 'single-T' if nT == 1 else 'dT~' + decade(dT),
               'g': 'single-g' if ng == 1 else 'dg~' + decade(dg)}
    else:
        a0 = 0.098 * rng.uniform(0.95, 1.0); c0 = 0.083 * rng.uniform(0.95, 1.0)
        na, nc = (1, 1) if nx == 1 else rng.choice([(2, 2), (3, 2), (2, 3)])
        A = close_axis(rng, a0, dx, na); C = close_axis(rng, c0, dx, nc)
        P = [[a, c] for a in A for c in C]
        Ts = close_axis(rng, float(rng.randint(1050, 1090)), dT, nT, 0.0)
        if nT == 1 and len(P) == 1:
            Ts = close_axis(rng, Ts[0], dT, 3, 0.0)
        xa, Ta = (P, Ts) if bc else ([p for _ in Ts for p in P], [t for t in Ts for _ in P])
        train = {'drivingForce': dict(x=xa, T=Ta, log=log, broadcast=bc), 'diffusivity': dict(x=xa, T=Ta, log=log, broadcast=bc)}
        if f.get('curvature', rng.random() < 0.4):
            train['curvature'] = dict(x=xa, T=Ta, log=log, broadcast=bc)
        cls = {'x': 'single-x' if len(P) == 1 else 'dx~' + decade(dx), 'T': 'single-T' if len(Ts) == 1 else 'dT~' + decade(dT)}
    return dict(check='training-grid', system=system, kernel=kernel, train=train, classes=cls)


def spacing_class(spec, q):
    c = spec['classes']
    return '%s,%s' % ((c['T'], c['g']) if q == 'interfacialComposition' else (c['x'], c['T']))


def run_grid_case(res, th, spec):
    """ORACLE: a trained surrogate reproduces EVERY stored training value at EVERY stored training point (rtol TRAIN_TOL), and the
    fitted interpolator was built on as many nodes as there are distinct stored training points"""
    vlib.use_repo()
    from kawin.thermo import BinarySurrogate, MulticomponentSurrogate
    cls = BinarySurrogate if spec['system'] == 'binary' else MulticomponentSurrogate
    cname = cls.__name__
    s = make_surrogate(cls, th, spec['kernel'])
    for q, a in spec['train'].items():
        lin = 'log' if a['log'] else 'lin'
        desc = dict(spec, quantity=q, surrogate=cname)
        sc = spacing_class(spec, q)
        res.count('training-grid:%s:%s' % (q, lin))
        for part in sc.split(','):
            res.count('training-grid-axis:' + part)
        res.count('training-grid:broadcast=%s' % a['broadcast'])
        with _quiet():
            ok, _ = _guard(res, 'surrogate-training-grid:%s:%s:%s' % (q, lin, sc), 'train %s on a closely spaced grid' % q, desc, lambda: train_quantity(s, q, a))
        if not ok:
            continue
        ph = phase_of(s, q)
        if ph not in getattr(s, QUANT[q][1]):
            res.count('training-grid-no-model:' + q); continue           # (curvature: no successful training point)
        pts, vals, ndistinct, ncols = stored_points(s, q, ph)
        res.case(('training-grid', cname, q, lin, sc, repr(spec['kernel']), float(np.ravel(pts[0])[0])), True)
        ok, out = _guard(res, 'surrogate-training-point-query:%s:%s:%s' % (q, lin, sc), 'query %s at its stored training points' % q, desc, lambda: predict(s, q, pts))
        if ok:
            err = rel_err(out, vals)
            res.extra['max_training_point_error'] = max(res.extra.get('max_training_point_error', 0.0), err if np.isfinite(err) else 0.0)
            if not err <= TRAIN_TOL:
                j = [i for i, (o, v) in enumerate(zip(out, vals)) if not rel_err((o,), (v,)) <= TRAIN_TOL][0]
                o, v = np.asarray(out[j], dtype=float), np.asarray(vals[j], dtype=float)
                i = int(np.argmax(np.abs(o.reshape(len(o), -1) - v.reshape(len(v), -1)).max(axis=1))) if o.shape == v.shape and o.ndim else 0
                res.violate('surrogate-training-point-not-reproduced:%s:%s:%s' % (q, lin, sc),
                            'trained %s surrogate (%s fit, %s) does not reproduce its stored training data: relative deviation %.3g at training point %d (%s); tolerance %g'
                            % (q, 'log' if a['log'] else 'linear', sc, err, i, [np.asarray(p)[i].tolist() for p in pts], TRAIN_TOL), desc,
                            observed=np.asarray(o)[i].tolist() if o.ndim else float(o), required=np.asarray(v)[i].tolist() if v.ndim else float(v))
        nodes, _norm = fit_info(getattr(s, QUANT[q][1])[ph])
        if nodes is not None:
            res.count('training-grid-node-count-checked')
            if nodes != ndistinct:
                res.violate('surrogate-fit-dropped-training-points',
                            'the %s surrogate stores %d distinct training points but its interpolator was built on %d nodes (%s fit, %s)' % (q, ndistinct, nodes, lin, sc),
                            desc, observed=nodes, required=ndistinct)


def gen_orders_spec(rng, system, forced=None):
    """training arguments of 2-3 quantities with different axis counts (full grid / single-T / single-x or single-g) and a kernel
    setting; the histories (all orders of all three, all ordered pairs, getter calls in between) are built by run_orders_case"""
    f = forced or {}
    kernel = f.get('kernel', rng.choice([None, {'kernel': 'cubic', 'normalize': True}, {'kernel': 'linear', 'normalize': False}, {'kernel': 'cubic', 'normalize': False}]))
    if system == 'binary':
        xs = sorted(round(10 ** rng.uniform(-3.3, -2.1), 6) for _ in range(rng.randint(3, 4)))
        xs = [x + 1e-4 * i for i, x in enumerate(xs)]
        Ts = [float(rng.randint(660, 700)), float(rng.randint(720, 750)), float(rng.randint(770, 790))][:rng.randint(2, 3)]
        gs = [round(v, 1) for v in np.linspace(rng.uniform(50, 200), rng.uniform(2000, 4000), rng.randint(3, 4))]
        forms = f.get('forms') or {'drivingForce': rng.choice(['grid', 'single-T', 'single-x']), 'diffusivity': rng.choice(['grid', 'single-T', 'single-x']),
                                   'interfacialComposition': rng.choice(['grid', 'single-T', 'single-g'])}
        train = {}
        for q in ('drivingForce', 'diffusivity'):
            fm = forms[q]
            train[q] = dict(x=xs if fm != 'single-x' else [xs[1]], T=Ts if fm != 'single-T' else [Ts[0]], log=rng.random() < 0.5, broadcast=True, form=fm)
        if fm == 'single-x' and len(Ts) < 3:
            pass
        fm = forms['interfacialComposition']
        train['interfacialComposition'] = dict(T=Ts if fm != 'single-T' else [Ts[-1]], g=gs if fm != 'single-g' else [gs[1]], log=rng.random() < 0.5, broadcast=True, form=fm)
        for q, a in train.items():       # a one-axis fit needs at least three points on that axis
            if a['form'] in ('single-x', 'single-g') and len(a['T']) < 3:
                a['T'] = [Ts[0], Ts[0] + 31.0, Ts[0] + 64.0]
    else:
        a0 = round(0.098 * rng.uniform(0.96, 1.0), 5); c0 = round(0.083 * rng.uniform(0.96, 1.0), 5)
        P = [[a, c] for a in (a0, round(a0 * 1.06, 5)) for c in (c0, round(c0 * 1.08, 5))]
        Ts = [float(rng.randint(1050, 1065)), float(rng.randint(1085, 1100))]
        forms = f.get('forms') or {'drivingForce': rng.choice(['grid', 'single-T']), 'diffusivity': rng.choice(['grid', 'single-T', 'single-x'])}
        train = {}
        for q in ('drivingForce', 'diffusivity'):
            fm = forms[q]
            train[q] = dict(x=P if fm != 'single-x' else [P[0]], T=(Ts if fm != 'single-T' else [Ts[0]]) if fm != 'single-x' else [Ts[0], Ts[0] + 17.0, Ts[1]],
                            log=rng.random() < 0.4, broadcast=True, form=fm)
    return dict(check='training-orders', system=system, kernel=kernel, train=train, seed=rng.getrandbits(30))


def query_points(spec_a, q, binary):
    """the training points of q and points in between, as arguments of the getters"""
    mid = lambda v: sorted(set(list(v) + [0.5 * (a + b) for a, b in zip(sorted(v)[:-1], sorted(v)[1:])]))
    if q == 'interfacialComposition':
        Tq, gq = mid(spec_a['T']), mid(spec_a['g'])
        return np.array([t for t in Tq for _ in gq]), np.array([g for _ in Tq for g in gq])
    Tq = mid(spec_a['T'])
    if binary:
        xq = mid(spec_a['x'])
        return np.array([x for _ in Tq for x in xq]), np.array([t for t in Tq for _ in xq])
    X = [list(p) for p in spec_a['x']]
    X = X + [[0.5 * (a + b) for a, b in zip(p, r)] for p, r in zip(X[:-1], X[1:])]
    return np.array([p for _ in Tq for p in X]), np.array([t for t in Tq for _ in X])


_DEFAULT_KW = {}


def default_kwargs_intact(res, cls, desc):
    """the constructor default `kernelKwargs` is ONE dict shared by every surrogate made without settings: it must stay what it was"""
    d = inspect.signature(cls.__init__).parameters['kernelKwargs'].default
    if not isinstance(d, dict):
        return
    first = _DEFAULT_KW.setdefault(cls.__name__, copy.deepcopy(d))
    if d != first:
        res.violate('surrogate-default-kernel-settings-mutated', 'the default kernelKwargs of %s changed from %r to %r while surrogates were trained / queried' % (cls.__name__, first, d),
                    desc, observed=repr(d), required=repr(first))


def run_orders_case(res, ctx, th, spec, tmp, lines=None, pending=None):
    """ORACLES.  rebuilt = original: for every order of training the quantities (and getter calls in between) the surrogate rebuilt
    by toJson -> fromJson predicts like the original, at the training points and in between (rtol 1e-8).  order independence:
    the prediction of quantity Q is that of a surrogate on which ONLY Q was trained (rtol 1e-8; same training data through a
    memoising thermodynamics).  The Lean model of the fitting state (KawinV.SurrogateFit, hooks of the code) is run on the
    same histories: normalize flag of the settings after every call, and per quantity whether a kernel exists, whether it was
    fitted with normalised inputs and on how many nodes - for the original and for the rebuilt object."""
    vlib.use_repo()
    from kawin.thermo import BinarySurrogate, MulticomponentSurrogate
    import itertools, random as _random
    binary = spec['system'] == 'binary'
    cls = BinarySurrogate if binary else MulticomponentSurrogate
    cname = cls.__name__
    rng = _random.Random(spec['seed'])
    train = spec['train']
    qs = list(train)
    axes = {}
    for q, a in train.items():
        ncomp = 1 if (binary or q == 'interfacialComposition') else len(a['x'][0])
        first, second = (a['T'], a['g']) if q == 'interfacialComposition' else (a['x'], a['T'])
        axes[q] = (ncomp if len(first) > 1 else 0) + (1 if len(second) > 1 else 0)
    memo = th if isinstance(th, MemoTherm) else MemoTherm(th)
    kname, knorm = kernel_settings(spec['kernel'])
    base = dict(spec, surrogate=cname, axes=axes)
    qpts = {q: query_points(train[q], q, binary) for q in qs}
    # ---- reference: only Q trained
    alone = {}
    for q in qs:
        s1 = make_surrogate(cls, memo, spec['kernel'])
        with _quiet():
            ok, _ = _guard(res, 'surrogate-train-alone:%s' % q, 'train only %s' % q, dict(base, calls=[['train', q]]), lambda: train_quantity(s1, q, train[q]))
        if ok:
            ok, out = _guard(res, 'surrogate-query-alone:%s' % q, 'query %s' % q, dict(base, calls=[['train', q]]), lambda: predict(s1, q, qpts[q]))
            if ok:
                alone[q] = out
    hists = [list(p) for p in itertools.permutations(qs)] + ([list(p) for p in itertools.permutations(qs, 2)] if len(qs) > 2 else [])
    for order in hists:
        ops = []
        for i, q in enumerate(order):
            ops.append(('train', q))
            if i and rng.random() < 0.3:
                ops.append(('query', rng.choice(order[:i + 1])))             # a getter call between two trainings
        oclass = 'axes-' + '>'.join(str(axes[q]) for q in order)
        desc = dict(base, calls=[list(o) for o in ops], order_class=oclass)
        s = make_surrogate(cls, memo, spec['kernel'])
        flags, failed = [], False
        for op, q in ops:
            if op == 'train':
                with _quiet():
                    ok, _ = _guard(res, 'surrogate-train-in-order:%s:%s' % (q, oclass), 'train %s' % q, desc, lambda: train_quantity(s, q, train[q]))
            else:
                ok, _ = _guard(res, 'surrogate-query-in-order:%s:%s' % (q, oclass), 'query %s' % q, desc, lambda: predict(s, q, qpts[q]))
            if not ok:
                failed = True; break
            flags.append(bool(s.kernelKwargs.get('normalize', False)) if isinstance(s.kernelKwargs, dict) else None)
        if failed:
            continue
        f = os.path.join(tmp, 'ord_%d' % len(os.listdir(tmp)))
        ok, _ = _guard(res, 'save-%s.toJson' % cname, 'toJson', desc, lambda: s.toJson(f))
        if not ok:
            continue
        s2 = make_surrogate(cls, memo, spec['kernel'])
        ok, _ = _guard(res, 'reload-%s.fromJson' % cname, 'fromJson of the file written by toJson', desc, lambda: s2.fromJson(f))
        if not ok:
            continue
        res.case(('training-orders', cname, tuple(o[1] + ':' + o[0][0] for o in ops), oclass, repr(spec['kernel']), spec['seed']), True)
        res.count('training-orders:' + oclass)
        res.count('training-orders-kernel:%s,normalize=%s' % (kname, knorm))
        infos = {}
        for tag, z in (('O', s), ('B', s2)):
            for q in REFIT_ORDER:
                mods = getattr(z, QUANT[q][1], None)
                ph = phase_of(z, q)
                infos[tag, q] = fit_info(mods[ph]) if mods is not None and ph in mods else None
        for q in order:
            preds = {}
            for tag, z in (('original', s), ('rebuilt', s2)):
                ok, out = _guard(res, 'surrogate-query-%s:%s:%s' % (tag, q, oclass), 'query %s on the %s surrogate' % (q, tag), desc, lambda: predict(z, q, qpts[q]))
                if ok:
                    preds[tag] = out
            if len(preds) < 2:
                continue
            e = rel_err(preds['rebuilt'], preds['original'])
            res.count('rebuilt-vs-original:' + ('bit-identical' if e == 0 else 'within-1e-8' if e <= 1e-8 else 'DIFFERENT'))
            if not e <= 1e-8:
                res.violate('surrogate-rebuilt-differs:%s:%s' % (q, oclass),
                            '%s trained in the order %s: the surrogate rebuilt by toJson -> fromJson predicts %s differently (relative deviation %.3g at the training points and in between)'
                            % (cname, ' > '.join('%s(%d axes)' % (x, axes[x]) for x in order), q, e), dict(desc, quantity=q),
                            observed=[brief(o) for o in preds['rebuilt']], required=[brief(o) for o in preds['original']])
            if q in alone:
                e = rel_err(preds['original'], alone[q])
                res.count('trained-in-order-vs-alone:' + ('bit-identical' if e == 0 else 'within-1e-8' if e <= 1e-8 else 'DIFFERENT'))
                if not e <= 1e-8:
                    res.violate('surrogate-depends-on-training-order:%s' % q,
                                '%s: the prediction of %s after training %s differs from a surrogate on which only %s was trained with the same data (relative deviation %.3g)'
                                % (cname, q, ' > '.join('%s(%d axes)' % (x, axes[x]) for x in order), q, e), dict(desc, quantity=q),
                                observed=[brief(o) for o in preds['original']], required=[brief(o) for o in alone[q]])
        default_kwargs_intact(res, cls, desc)
        if lines is not None and None not in flags:
            mops = ['T %s %d %d %d' % (QUANT[q][2], axes[q], stored_points(s, q, phase_of(s, q))[2], i) if op == 'train' else 'Q %s' % QUANT[q][2]
                    for i, (op, q) in enumerate(ops)]
            lines.append('sg.hist %s %s %d %s' % (kname, 'T' if knorm else 'F', len(mops), ' '.join(mops)))
            pending.append(dict(desc=desc, flags=flags, infos=infos))


def compare_orders(res, answers, pending):
    for ans, p in zip(answers, pending):
        t = Toks(ans)
        res.count('surrogate-fit-model-compared')
        if not t.ok:
            res.disagree('surrogate fitting-state model error', p['desc'], 'ok', t.err); continue
        assert t.tok() == 'N'
        flags = [t.bool() for _ in range(t.nat())]
        if flags != p['flags']:
            res.disagree('normalize flag of the surrogate settings after each call', p['desc'], p['flags'], flags); continue
        for tag in ('O', 'B'):
            assert t.tok() == tag
            for q in REFIT_ORDER:
                tk = t.tok()
                m = None
                if tk != '-':
                    m = (tk == 'T', t.nat(), t.nat())
                im = p['infos'][tag, q]
                what = '%s kernel of the %s surrogate' % (q, 'original' if tag == 'O' else 'rebuilt')
                if (m is None) != (im is None):
                    res.disagree(what + ' exists', p['desc'], im is not None, m is not None); break
                if m is None:
                    continue
                nodes, normalized = im
                if normalized is not None and normalized != m[0]:
                    res.disagree(what + ': fitted with normalised inputs', p['desc'], normalized, m[0]); break
                if nodes is not None and nodes != m[1]:
                    res.disagree(what + ': number of nodes', p['desc'], nodes, m[1]); break


# ---------------------------------------------------------------------------- fromJson into a receiver that is NOT fresh
RECEIVER_KINDS = ['fresh', 'same-quantities-coarser-grid', 'same-quantities-shifted-grid', 'same-quantities-other-T', 'loaded-an-older-file',
                  'other-quantities-only', 'original-itself']
STALE_KEY = 'surrogate-receiver-keeps-model-of-quantity-not-in-file'


def gen_receiver_spec(rng, system, forced=None):
    """a training of 2-3 quantities (as for the training orders), the quantities that go into the FILE (all, or a proper subset:
    the others are what an 'other-quantities-only' receiver was trained for)"""
    f = forced or {}
    spec = gen_orders_spec(rng, system, {k: f[k] for k in ('kernel', 'forms') if k in f} or None)
    if system != 'binary' and f.get('curvature', rng.random() < 0.5):
        a = spec['train']['drivingForce']
        spec['train']['curvature'] = dict(x=[list(p) for p in a['x']], T=list(a['T']), log=False, broadcast=True, form=a['form'])
    qs = list(spec['train'])
    sub = f.get('file_quantities')
    if sub is None:
        sub = qs if rng.random() < 0.5 else sorted(rng.sample(qs, rng.randint(1, len(qs) - 1)), key=qs.index)
    spec.update(check='rebuild-into-receiver', file_quantities=list(sub))
    return spec


def receiver_training(a, q, how):
    """training arguments of quantity q on OTHER points than `a`: 'coarser' (an inner / the last point of the longest axis dropped),
    'shifted' (composition / Gibbs-Thomson axis scaled by 1.07), 'other-T' (temperatures + 13 K)"""
    b = copy.deepcopy(a)
    first = 'T' if q == 'interfacialComposition' else 'x'
    second = 'g' if q == 'interfacialComposition' else 'T'
    if how == 'coarser':
        ax = first if len(b[first]) >= len(b[second]) else second
        if len(b[ax]) >= 3:
            del b[ax][len(b[ax]) // 2 if len(b[ax]) > 3 else -1]
        else:                                        # nothing to drop: another point set of the same size
            other = 'g' if q == 'interfacialComposition' else 'x'
            b[other] = (np.asarray(b[other], dtype=float) * 1.04).tolist()
    elif how == 'shifted':
        other = 'g' if q == 'interfacialComposition' else 'x'
        b[other] = (np.asarray(b[other], dtype=float) * 1.07).tolist()
    else:
        b['T'] = [t + 13.0 for t in b['T']]
    return b


def data_same(a, b):
    """stored training data of one quantity: {phase: {field: value}}; arrays and the nested lists JSON delivers compare by content"""
    if isinstance(a, dict) or isinstance(b, dict):
        return isinstance(a, dict) and isinstance(b, dict) and set(map(str, a)) == set(map(str, b)) and \
            all(data_same(v, b[k] if k in b else b[str(k)]) for k, v in a.items())
    if isinstance(a, (str, bool, type(None))) or isinstance(b, (str, bool, type(None))):
        return type(a) == type(b) and a == b
    try:
        x, y = np.asarray(a, dtype=float), np.asarray(b, dtype=float)
    except Exception:
        return False
    return x.shape == y.shape and bool(np.all((x == y) | (np.isnan(x) & np.isnan(y))))


def receiver_fit_infos(z):
    out = {}
    for q in REFIT_ORDER:
        mods = getattr(z, QUANT[q][1], None)
        ph = phase_of(z, q)
        out[q] = fit_info(mods[ph]) if mods is not None and ph in mods else None
    return out


def run_receiver_case(res, ctx, th, spec, tmp, lines=None, pending=None):
    """ORACLE: `fromJson(file)` gives a surrogate that predicts like the ORIGINAL the file was written from, at the training points
    and in between (rtol 1e-8), and that stores the file's training data - WHATEVER THE RECEIVER HELD BEFORE: nothing (fresh), a
    training of the same quantities on other points (coarser / shifted / other temperatures), an older file, other quantities
    only, or the original itself.  A quantity the file does not hold is untrained in the original: the receiver must not keep
    a fitted model for it (key `surrogate-receiver-keeps-model-of-quantity-not-in-file:<quantity>`; genuine defect found by this oracle, repaired in /repo as 1756dd7).  The Lean model of the fitting state
    (KawinV.SurrogateFit.loadInto) is run on the same receiver histories."""
    vlib.use_repo()
    from kawin.thermo import BinarySurrogate, MulticomponentSurrogate
    binary = spec['system'] == 'binary'
    cls = BinarySurrogate if binary else MulticomponentSurrogate
    cname = cls.__name__
    train = spec['train']
    qs = list(train)
    fq = [q for q in qs if q in spec['file_quantities']]
    others = [q for q in qs if q not in fq]
    memo = th if isinstance(th, MemoTherm) else MemoTherm(th)
    kname, knorm = kernel_settings(spec['kernel'])
    base = dict(spec, surrogate=cname)
    qpts = {q: query_points(train[q], q, binary) for q in qs}
    axes_of = lambda a, q: ((1 if (binary or q == 'interfacialComposition') else len(a['x'][0])) if len(a['T' if q == 'interfacialComposition' else 'x']) > 1 else 0) + \
        (1 if len(a['g' if q == 'interfacialComposition' else 'T']) > 1 else 0)
    # ---- the original and its file
    s = make_surrogate(cls, memo, spec['kernel'])
    for q in fq:
        with _quiet():
            ok, _ = _guard(res, 'surrogate-receiver-original-train:%s' % q, 'train %s' % q, base, lambda: train_quantity(s, q, train[q]))
        if not ok:
            return
    f = os.path.join(tmp, 'recv_%d' % len(os.listdir(tmp)))
    ok, _ = _guard(res, 'save-%s.toJson' % cname, 'toJson', base, lambda: s.toJson(f))
    if not ok:
        return
    want = {}
    for q in fq:
        ok, out = _guard(res, 'surrogate-query-original:%s' % q, 'query %s on the original' % q, base, lambda: predict(s, q, qpts[q]))
        if ok:
            want[q] = out
    file_data = {q: copy.deepcopy(getattr(s, QUANT[q][0])) for q in REFIT_ORDER if hasattr(s, QUANT[q][0])}
    file_pts = {q: (axes_of(train[q], q), stored_points(s, q, phase_of(s, q))[2]) for q in fq if phase_of(s, q) in getattr(s, QUANT[q][0])}
    older = {}
    for kind in RECEIVER_KINDS:
        if kind == 'other-quantities-only' and not others:
            continue
        desc = dict(base, receiver=kind)
        recv_ops = []                                  # (quantity, axes, distinct points) of what the receiver was trained on, in order
        failed = False
        if kind == 'original-itself':
            r = s
            recv_ops = [(q,) + file_pts[q] for q in fq if q in file_pts]
        else:
            r = make_surrogate(cls, memo, spec['kernel'])
            if kind == 'loaded-an-older-file':
                if 'file' not in older:
                    continue
                ok, _ = _guard(res, 'reload-%s.fromJson' % cname, 'fromJson of an older file', desc, lambda: r.fromJson(older['file']))
                if not ok:
                    continue
                recv_ops = list(older['ops'])
            elif kind != 'fresh':
                how = {'same-quantities-coarser-grid': 'coarser', 'same-quantities-shifted-grid': 'shifted', 'same-quantities-other-T': 'other-T'}.get(kind)
                for q in (fq if how else others):
                    a = receiver_training(train[q], q, how) if how else train[q]
                    with _quiet():
                        ok, _ = _guard(res, 'surrogate-receiver-train:%s:%s' % (q, kind), 'train %s on the receiver' % q, desc, lambda: train_quantity(r, q, a))
                    if not ok:
                        failed = True; break
                    if phase_of(r, q) in getattr(r, QUANT[q][0]):
                        recv_ops.append((q, axes_of(a, q), stored_points(r, q, phase_of(r, q))[2]))
                if failed:
                    continue
                if kind == 'same-quantities-coarser-grid':
                    fo = f + '_older'
                    ok, _ = _guard(res, 'save-%s.toJson' % cname, 'toJson', desc, lambda: r.toJson(fo))
                    if ok:
                        older.update(file=fo, ops=list(recv_ops))
        before = receiver_fit_infos(r)
        ok, _ = _guard(res, 'reload-%s.fromJson-into-%s-receiver' % (cname, kind), 'fromJson into a receiver (%s)' % kind, desc, lambda: r.fromJson(f))
        if not ok:
            continue
        res.case(('rebuild-into-receiver', cname, kind, tuple(fq), repr(spec['kernel']), spec['seed']), kind != 'fresh')
        res.count('rebuild-into-receiver:' + kind)
        for q in fq:
            res.count('rebuild-into-receiver-quantity:%s' % q)
            if q not in want:
                continue
            ok, out = _guard(res, 'surrogate-query-receiver:%s:%s' % (q, kind), 'query %s on the receiver after fromJson' % q, dict(desc, quantity=q), lambda: predict(r, q, qpts[q]))
            if not ok:
                continue
            e = rel_err(out, want[q])
            res.count('receiver-vs-original:' + ('bit-identical' if e == 0 else 'within-1e-8' if e <= 1e-8 else 'DIFFERENT'))
            if not e <= 1e-8:
                key = 'surrogate-rebuilt-differs:%s:fresh-receiver' % q if kind == 'fresh' else 'surrogate-rebuilt-into-trained-receiver-differs:%s' % q
                res.violate(key, '%s: the file of a surrogate trained on %s was loaded (fromJson) into a receiver that held: %s; the receiver predicts %s differently from the original '
                            '(relative deviation %.3g at the training points and in between)' % (cname, fq, kind, q, e), dict(desc, quantity=q),
                            observed=[brief(o) for o in out], required=[brief(o) for o in want[q]])
        for q, d in file_data.items():
            got = getattr(r, QUANT[q][0], None)
            res.count('receiver-stored-data-compared')
            if not data_same(d, got):
                res.violate('surrogate-receiver-training-data-not-the-files:%s' % q,
                            '%s: after fromJson into a receiver (%s) the stored %s training data are not those of the file' % (cname, kind, q), dict(desc, quantity=q),
                            observed=brief(repr(got)[:300]), required=brief(repr(d)[:300]))
        for q in (others if kind == 'other-quantities-only' else []):
            ph = phase_of(r, q)
            res.count('receiver-quantity-not-in-file-checked')
            if ph in getattr(r, QUANT[q][1]):
                try:
                    out = predict(r, q, tuple(np.asarray(p)[:2] for p in qpts[q]))
                    obs = 'answers from the model fitted before the load: %s' % [brief(o) for o in out]
                except Exception as e:
                    obs = 'getter raises %s: %s' % (type(e).__name__, str(e)[:80])
                res.violate('%s:%s' % (STALE_KEY, q), '%s: the file holds %s; the receiver had been trained for %s before: after fromJson its stored %s data are the file\'s (none for phase %s) but it still '
                            'holds the fitted %s model, so its getter no longer passes through to the thermodynamics as the original does (%s)' % (cname, fq, q, q, ph, q, obs),
                            dict(desc, quantity=q), observed=obs, required='no fitted %s model left: the original the file was written from is untrained for %s' % (q, q))
        after = receiver_fit_infos(r)
        if lines is not None:
            tok = lambda q, ax, n, pay: 'T %s %d %d %d' % (QUANT[q][2], ax, n, pay)
            mops = [tok(q, ax, n, 100 + i) for i, (q, ax, n) in enumerate(recv_ops)]
            ftoks = ['%d %d %d' % (file_pts[q][0], file_pts[q][1], 1 + REFIT_ORDER.index(q)) if q in file_pts else '-' for q in REFIT_ORDER]
            lines.append('sg.load %s %s %d %s %s' % (kname, 'T' if knorm else 'F', len(mops), ' '.join(mops), ' '.join(ftoks)))
            pending.append(dict(desc=desc, before=before, after=after, file=[q for q in REFIT_ORDER if q in file_pts]))


def compare_receivers(res, answers, pending):
    for ans, p in zip(answers, pending):
        t = Toks(ans)
        res.count('surrogate-load-model-compared')
        if not t.ok:
            res.disagree('surrogate load-into-receiver model error', p['desc'], 'ok', t.err); continue
        for tag, infos in (('R', p['before']), ('L', p['after'])):
            assert t.tok() == tag
            stop = False
            for q in REFIT_ORDER:
                tk = t.tok()
                m = None
                if tk != '-':
                    m = (tk == 'T', t.nat(), t.nat())
                im = infos[q]
                what = '%s kernel of the receiver %s fromJson' % (q, 'before' if tag == 'R' else 'after')
                if (m is None) != (im is None):
                    res.disagree(what + ' exists', p['desc'], im is not None, m is not None); stop = True; break
                if m is None:
                    continue
                nodes, normalized = im
                if normalized is not None and normalized != m[0]:
                    res.disagree(what + ': fitted with normalised inputs', p['desc'], normalized, m[0]); stop = True; break
                if nodes is not None and nodes != m[1]:
                    res.disagree(what + ': number of nodes', p['desc'], nodes, m[1]); stop = True; break
                if tag == 'L' and q in p['file'] and m[2] != 1 + REFIT_ORDER.index(q):
                    res.disagree(what + ': fitted on the data of the file', p['desc'], 'file', 'payload %d' % m[2]); stop = True; break
            if stop:
                break


def check_receivers(res, ctx, thb, tht, rng, tmp, oracle_only, errs, scale=1):
    lines, pending = [], []
    memo_b, memo_t = MemoTherm(thb), MemoTherm(tht)
    forced_b = [dict(kernel=None, file_quantities=['drivingForce', 'diffusivity', 'interfacialComposition']), dict(file_quantities=['drivingForce'])]
    for k in range(ctx.n(2, 10) * scale):
        spec = gen_receiver_spec(rng, 'binary', forced_b[k] if k < len(forced_b) else None)
        guarded(res, errs, 'surrogate-receiver-case', spec, lambda: run_receiver_case(res, ctx, memo_b, spec, tmp, lines, pending))
    for k in range(ctx.n(1, 5) * scale):
        spec = gen_receiver_spec(rng, 'multi', dict(kernel=None, curvature=True, file_quantities=['drivingForce', 'diffusivity', 'curvature']) if k == 0 else None)
        guarded(res, errs, 'surrogate-receiver-case', spec, lambda: run_receiver_case(res, ctx, memo_t, spec, tmp, lines, pending))
    if ctx.driver_ok and not oracle_only and lines:
        guarded(res, errs, 'surrogate-load-model-comparison', {}, lambda: compare_receivers(res, vlib.run_driver(PROP, lines), pending))


def check_surrogate_training(res, ctx, thb, tht, rng, tmp, oracle_only, errs, scale=1):
    """training grids (closely spaced points) and training orders x rebuild, binary Al-Zr and ternary Ni-Al-Cr"""
    forced = [dict(kernel=None, dx=5e-4, log=False, nT=1, nx=4), dict(dx=1e-4, log=False, nT=3, nx=3, broadcast=True, dT=10.0),
              dict(dx=1e-5, log=True, nT=2, nx=3), dict(dx=3e-5, log=False, nT=2, nx=3, broadcast=False, dT=0.5)]
    nb, nt = ctx.n(9, 60) * scale, ctx.n(3, 16) * scale
    for k in range(nb):
        spec = gen_grid_spec(rng, 'binary', forced[k] if k < len(forced) else None)
        guarded(res, errs, 'surrogate-training-grid-case', spec, lambda: run_grid_case(res, thb, spec))
    for k in range(nt):
        spec = gen_grid_spec(rng, 'multi', [dict(dx=5e-4, log=False, nT=1, nx=3), dict(dx=1e-4, log=False, nT=2, nx=3, curvature=True)][k] if k < 2 else None)
        guarded(res, errs, 'surrogate-training-grid-case', spec, lambda: run_grid_case(res, tht, spec))
    lines, pending = [], []
    memo_b, memo_t = MemoTherm(thb), MemoTherm(tht)
    forced_o = [dict(kernel=None, forms={'drivingForce': 'single-T', 'diffusivity': 'grid', 'interfacialComposition': 'grid'}),
                dict(kernel={'kernel': 'cubic', 'normalize': True}, forms={'drivingForce': 'grid', 'diffusivity': 'single-x', 'interfacialComposition': 'single-g'}),
                dict(kernel={'kernel': 'linear', 'normalize': False})]
    for k in range(ctx.n(4, 20) * scale):
        spec = gen_orders_spec(rng, 'binary', forced_o[k] if k < len(forced_o) else None)
        guarded(res, errs, 'surrogate-training-orders-case', spec, lambda: run_orders_case(res, ctx, memo_b, spec, tmp, lines, pending))
    for k in range(ctx.n(2, 8) * scale):
        spec = gen_orders_spec(rng, 'multi', dict(kernel=None) if k == 0 else None)
        guarded(res, errs, 'surrogate-training-orders-case', spec, lambda: run_orders_case(res, ctx, memo_t, spec, tmp, lines, pending))
    if ctx.driver_ok and not oracle_only and lines:
        guarded(res, errs, 'surrogate-fit-model-comparison', {}, lambda: compare_orders(res, vlib.run_driver(PROP, lines), pending))


# ============================================================================ corr / search / replay
def guarded(res, errs, key, desc, fn):
    """one case: an exception raised inside the code under test is a violation (the harness does not raise on the unchanged
    tree) with the case as replay; any other exception is a harness error, collected and re-raised at the end of corr()
    only if the run found no violation"""
    try:
        fn()
    except Exception as e:
        tb = traceback.format_exc()
        if ('File "%s' % vlib.REPO) in tb:
            where = [l.strip() for l in tb.splitlines() if l.strip().startswith('File "%s' % vlib.REPO)][-1]
            res.violate('%s-raises-%s' % (key, type(e).__name__),
                        'the code under test raised %s: %s (%s)' % (type(e).__name__, str(e)[:140], where), desc,
                        observed=tb[-900:], required='no exception')
        else:
            errs.append(tb)


def corr(ctx, scale=1, oracle_only=False, only=None):
    import kwnruns
    res = Result()
    errs = []
    res.monitored = list(MONITORED)
    res.rule = ('real Al-Zr KWN runs (random x0, T, class count, adaptive on/off, Euler/RK4, PSD recording on/off; thorough: + Ni-Cr-Al, 5-precipitate Al-Mg-Si) saved between solve calls and after completion; '
                'random SinglePhaseModel runs (1-3 solutes, 5-40 nodes, 1-3 solve calls, recording on/off/switched off/switched on/removed; thorough: + real Ni-Cr(-Al) thermodynamics, HomogenizationModel); '
                'untrained getters on random points of the real Al-Zr / Ni-Cr-Al thermodynamics (phases by default or named); every getter of both surrogate classes on a recording mock thermodynamics in every call form (default, all keywords, each keyword alone, positional, positional extras) + random calls, non-default value for every argument; untrained and partially trained MulticomponentSurrogate of Al-Mg-Si (5 precipitate phases) for every phase; tiny trained surrogates (linear/log, broadcast or point lists); random arrays through JSON; save/load histories: 10 diffusion + 2 Al-Zr precipitation histories per quick run (solve, save(name), load(name) prefix; 3-12 random solve/save/load calls on the original and on loaded models, 2-3 names reused, both spellings; solve, save, load of a name loaded before as suffix); training grids: 9 binary + 3 ternary specs (first ones forced: linear fit dx 5e-4 single T; dx 1e-4 x dT 10 grid; log fit dx 1e-5; point list dx 3e-5 dT 0.5), all quantities; training orders: 4 binary + 2 ternary specs x (all permutations + all ordered pairs, getter calls in between) (first ones forced: default kernel settings, 2-axis diffusivity with 1-axis driving force); fromJson into receivers: 2 binary + 1 ternary spec x 6-7 receivers (fresh, same quantities on a coarser / shifted / other-T grid, an older file loaded before, other quantities only, the original itself; first ones forced: all quantities in the file, driving force only in the file); half of the diffusion histories and one precipitation history use a group of dotted file names differing behind the last dot (earlier check point loaded after the later one was saved). '
                'every class with a save/load pair x every boolean keyword of save: StrengthModel (compressed / uncompressed) and the recorded-PSD files (compressed / uncompressed x phase=all / named) at every save point of the precipitation cases, 8 synthetic strength histories (distinct, neighbouring doubles, late nucleation, single step, no particles; 1-3 phases), 1 HomogenizationModel on real Ni-Cr thermodynamics, 2 GrainGrowthModel (+ Coupler), 1 history of a StrengthModel coupled to a run started from a particle population (solve / save(name, compressed) / load, both formats on one name); '
                'non-trivial = populated size distribution / evolved profile / a getter evaluated / every saved field populated and pairwise distinct; distinct = configuration + save point (+ class + branch)')
    rng = ctx.rng
    import time as _t0
    t_start = _t0.time()
    tmp = tempfile.mkdtemp(prefix='kawin_C20_', dir='/tmp')
    lines, pending, jlines, jpending = [], [], [], []
    CLS['lines'], CLS['pending'] = [], []
    try:
        with warnings.catch_warnings():
            warnings.simplefilter('ignore')
            np.seterr(all='ignore')
            # ---------------- diffusion
            if only in (None, 'diffusion'):
                ncases = ctx.n(26, 400) * scale
                cfgs = [gen_diff_cfg(rng) for _ in range(ncases)]
                for i, rec in enumerate(['off', 'on', 'removed', 'switched-off', 'switched-on', 'mesh-moved', 'switched-off']):  # every option in every run
                    cfgs[i]['rec'] = rec
                    if rec in ('switched-off', 'switched-on') and len(cfgs[i]['steps']) < 2:
                        cfgs[i]['steps'] = cfgs[i]['steps'] + [rng.randint(3, 40)]
                for cfg in cfgs:
                    guarded(res, errs, 'diffusion-case', dict(cfg), lambda: run_diff_case(res, ctx, tmp, cfg, lines, pending, resume=ctx.thorough))
                if ctx.thorough:
                    for kind, els, N, steps in [('real-single', ['NI', 'CR'], 12, [6, 5]), ('real-single', ['NI', 'CR', 'AL'], 10, [5]),
                                                ('real-homog', ['NI', 'CR'], 10, [4, 4])]:
                        for rec in ('on', 'off'):
                            E = len(els) - 1
                            cfg = dict(kind=kind, E=E, N=N, L=2e-3, els=els, rec=rec, tseed=0, D0=0.0, steps=steps,
                                       prof=[[0.08 + 0.02 * e, 0.3 - 0.1 * e, 'linear'] for e in range(E)], solver='euler', T=1473.15)
                            guarded(res, errs, 'diffusion-case', dict(cfg), lambda: run_diff_case(res, ctx, tmp, cfg, lines, pending, resume=False))
            # ---------------- precipitation
            if only in (None, 'precipitation'):
                cfgs = [gen_precip_cfg(rng) for _ in range(ctx.n(3, 20) * scale)]
                cfgs[0]['record'] = True; cfgs[0]['adaptive'] = True
                cfgs[1]['record'] = False
                cfgs[1].update(cMax=2e-9, bins=40, minBins=30, maxBins=60, adaptive=True, steps=[rng.randint(270, 310), rng.randint(90, 130)])   # size classes adapt before the saves
                cfgs[2]['record'] = rng.choice(['on-off', 'off-on']); cfgs[2]['adaptive'] = True
                if ctx.thorough:
                    cfgs += [gen_precip_cfg(rng, 'NiCrAl') for _ in range(4)] + [gen_precip_cfg(rng, 'AlMgSi') for _ in range(2)]
                    cfgs[-6]['record'] = True; cfgs[-1]['record'] = True; cfgs[-2]['record'] = False
                for i, cfg in enumerate(cfgs):
                    guarded(res, errs, 'precipitation-case', dict(cfg),
                            lambda: run_precip_case(res, ctx, tmp, cfg, lines, pending, resume=ctx.thorough and (3 <= i < 7 or (cfg['system'] != 'AlZr' and not cfg['record']))))
            # ---------------- model comparison for the save/load cases
            if ctx.driver_ok and not oracle_only and lines:
                guarded(res, errs, 'model-comparison', {}, lambda: compare_with_model(res, vlib.run_driver(PROP, lines), pending))
                res.traces = len(lines)
            # ---------------- surrogates
            if only in (None, 'surrogate'):
                from kawin.thermo import BinarySurrogate, MulticomponentSurrogate
                thb = kwnruns.therm_binary(); tht = kwnruns.therm_ternary()
                for _ in range(ctx.n(2, 10) * scale):
                    guarded(res, errs, 'untrained-binary-case', {}, lambda: check_untrained(res, 'binary', BinarySurrogate, thb, rng))
                    guarded(res, errs, 'untrained-multi-case', {}, lambda: check_untrained(res, 'multi', MulticomponentSurrogate, tht, rng))
                guarded(res, errs, 'untrained-forwarding-case', {}, lambda: check_forwarding(res, ctx if not oracle_only else _NoDriver(ctx), rng, ctx.n(10, 60) * scale))
                for _ in range(ctx.n(1, 4) * scale):
                    guarded(res, errs, 'untrained-multiphase-case', {}, lambda: check_untrained_multiphase(res, rng, quick=not ctx.thorough))
                for k in range(ctx.n(3, 30) * scale):
                    guarded(res, errs, 'trained-binary-case', {}, lambda: check_trained_binary(res, thb, rng, tmp, jlines, jpending, force=[True, False, None][min(k, 2)]))
                for k in range(ctx.n(2, 12) * scale):
                    guarded(res, errs, 'trained-multi-case', {}, lambda: check_trained_multi(res, tht, rng, tmp, jlines, jpending, force=[True, False, None][min(k, 2)]))
                guarded(res, errs, 'json-case', {}, lambda: json_model_compare(res, ctx if not oracle_only else _NoDriver(ctx), rng, jlines, jpending, ctx.n(150, 1500)))
            # the generators added later draw from streams of their own (the cases above stay what they were for a given seed);
            # every call of corr() in one process (search, replay) continues with new cases
            _CALLS['n'] += 1
            import random as _random
            import time as _time
            t1 = _time.time()
            res.extra.setdefault('section_s', {})['existing save/load + surrogate sections'] = round(t1 - t_start, 1)
            if only in (None, 'history'):
                rh = _random.Random('C20-history-%d-%d' % (ctx.seed, _CALLS['n']))
                check_histories(res, ctx, tmp, rh, ctx.n(2, 6) * scale, ctx.n(10, 80) * scale, oracle_only, errs)
            t2 = _time.time()
            res.extra['section_s']['save/load histories'] = round(t2 - t1, 1)
            if only in (None, 'surrogate', 'surrogate-training'):
                rs = _random.Random('C20-training-%d-%d' % (ctx.seed, _CALLS['n']))
                check_surrogate_training(res, ctx, kwnruns.therm_binary(), kwnruns.therm_ternary(), rs, tmp, oracle_only, errs, scale)
            res.extra['section_s']['surrogate training grids / orders'] = round(_time.time() - t2, 1)
            t2b = _time.time()
            if only in (None, 'surrogate', 'surrogate-receivers'):
                rr = _random.Random('C20-receivers-%d-%d' % (ctx.seed, _CALLS['n']))
                check_receivers(res, ctx, kwnruns.therm_binary(), kwnruns.therm_ternary(), rr, tmp, oracle_only, errs, scale)
            t3 = _time.time()
            res.extra['section_s']['surrogate file loaded into non-fresh receivers'] = round(t3 - t2b, 1)
            if only in (None, 'classes', 'precipitation', 'diffusion', 'history'):
                rc = _random.Random('C20-classes-%d-%d' % (ctx.seed, _CALLS['n']))
                if only in (None, 'classes', 'diffusion') and not ctx.thorough:
                    # HomogenizationModel on real Ni-Cr thermodynamics in the quick tier too (the thorough tier has its cases above)
                    cfg = dict(kind='real-homog', E=1, N=rc.randint(6, 10), L=2e-3, els=['NI', 'CR'], rec=rc.choice(['on', 'off', 'switched-off']), tseed=0, D0=0.0,
                               steps=[rc.randint(2, 4), rc.randint(1, 3)], prof=[[round(rc.uniform(0.05, 0.12), 4), round(rc.uniform(0.25, 0.35), 4), 'linear']], solver='euler', T=1473.15)
                    hl, hp = [], []
                    guarded(res, errs, 'diffusion-case', dict(cfg), lambda: run_diff_case(res, ctx, tmp, cfg, hl, hp, resume=False))
                    if ctx.driver_ok and not oracle_only and hl:
                        guarded(res, errs, 'model-comparison', {}, lambda: compare_with_model(res, vlib.run_driver(PROP, hl), hp))
                        res.traces += len(hl)
                full = only in (None, 'classes')
                check_classes(res, ctx, tmp, rc, (ctx.n(8, 60) * scale) if full else 0, (ctx.n(2, 10) * scale) if full else 0,
                              (ctx.n(1, 4) * scale) if full else 0, oracle_only, errs)
            res.extra['section_s']['every class with save/load x every keyword branch'] = round(_time.time() - t3, 1)
    finally:
        shutil.rmtree(tmp, ignore_errors=True)
    try:
        res.extra['tables'] = {'precip_keys_per_phase': [e[0] for e in tables()['phW']], 'diffusion_lines': tables()['dw']}
    except Exception as e:            # the tables could not be extracted (already reported by regenerate): the oracle result stands
        res.extra['tables'] = 'extraction failed: %s' % type(e).__name__
    if errs:
        res.extra['harness_errors'] = [e[-600:] for e in errs[:3]]
        known = vlib.load_findings().get(PROP, {})
        if not [v for v in res.violations if v['key'] not in known]:       # a recorded finding seen in the same run does not excuse a harness error
            raise RuntimeError('harness error(s) in %d case(s), first:\n%s' % (len(errs), errs[0]))
    return res


_CALLS = {'n': 0}


class _NoDriver:
    def __init__(self, ctx):
        self.driver_ok = False
        self.rng = ctx.rng


def search(ctx, broken):
    """a proof / the tables / the correspondence no longer check: larger oracle-only sample on the implementation"""
    # the generator continues the random stream, so these are new cases; same size in the quick tier to stay inside its time budget
    return corr(ctx, scale=1 if not ctx.thorough else 2, oracle_only=True)


def replay(ctx, entry):
    import kwnruns
    v = entry['violation']
    case = v['case']
    res = Result()
    tmp = tempfile.mkdtemp(prefix='kawin_C20_', dir='/tmp')
    ctx.driver_ok = False
    try:
        with warnings.catch_warnings():
            warnings.simplefilter('ignore')
            np.seterr(all='ignore')
            if case.get('history') is True and 'cfg' in case:
                cfg = dict(case['cfg'])
                if isinstance(cfg.get('x0'), list):
                    cfg['x0'] = tuple(cfg['x0'])
                guarded(res, [], 'saveload-history', dict(case), lambda: run_history(res, ctx, tmp, case['kind'], cfg, [tuple(o) for o in case['ops']]))
            elif case.get('check') == 'saveload-synthetic-strength':
                guarded(res, [], 'saveload-synthetic-strength', dict(case), lambda: run_synthetic_strength(res, tmp, {k: case[k] for k in ('check', 'kind', 'seed', 'steps', 'nphases')}))
            elif case.get('check') == 'saveload-graingrowth':
                guarded(res, [], 'saveload-graingrowth', dict(case), lambda: run_graingrowth_case(res, tmp, {k: case[k] for k in ('check', 'r0', 'sig', 't', 'coupler')}))
            elif case.get('surrogate') == 'MulticomponentSurrogate' and 'stage' in case and case.get('stage') == 'nothing trained' and 'getter' in case:
                guarded(res, [], 'untrained-multiphase-case', dict(case), lambda: replay_multiphase(res, case))
            elif case.get('check') == 'training-grid':
                th = kwnruns.therm_binary() if case['system'] == 'binary' else kwnruns.therm_ternary()
                guarded(res, [], 'surrogate-training-grid-case', dict(case), lambda: run_grid_case(res, th, case))
            elif case.get('check') == 'rebuild-into-receiver':
                th = kwnruns.therm_binary() if case['system'] == 'binary' else kwnruns.therm_ternary()
                guarded(res, [], 'surrogate-receiver-case', dict(case), lambda: run_receiver_case(res, ctx, th, case, tmp))
            elif case.get('check') == 'training-orders':
                th = kwnruns.therm_binary() if case['system'] == 'binary' else kwnruns.therm_ternary()
                guarded(res, [], 'surrogate-training-orders-case', dict(case), lambda: run_orders_case(res, ctx, th, case, tmp))
            elif 'system' in case:
                cfg = {k: case[k] for k in ('system', 'x0', 'T', 'gamma', 'bins', 'minBins', 'maxBins', 'adaptive', 'record', 'steps', 'solver', 'strength', 'cMax') if k in case}
                if isinstance(cfg['x0'], list):
                    cfg['x0'] = tuple(cfg['x0'])
                guarded(res, [], 'precipitation-case', dict(cfg), lambda: run_precip_case(res, ctx, tmp, cfg, [], [], resume=case.get('check') == 'resume'))
            elif 'rec' in case:
                cfg = {k: case[k] for k in ('kind', 'E', 'N', 'L', 'els', 'rec', 'tseed', 'D0', 'steps', 'prof', 'solver', 'T') if k in case}
                guarded(res, [], 'diffusion-case', dict(cfg), lambda: run_diff_case(res, ctx, tmp, cfg, [], [], resume=case.get('check') == 'resume'))
            else:
                res = corr(ctx, oracle_only=True, only='surrogate')
    finally:
        shutil.rmtree(tmp, ignore_errors=True)
    hit = [x for x in res.violations if x['key'] == v['key']]
    for x in hit[:3]:
        print('  ', x['key'], x['what'], x['observed'], x['required'])
    return not hit
