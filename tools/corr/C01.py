"""C01 — precipitation conserves solute: every `_calcMassBalance` call (synthetic configurations and
every call of real runs) is replayed through the Lean model KawinV.MB, and the balance predicate is
evaluated directly on the implementation's recorded values."""
import math
import numpy as np
import vlib, kwnruns, kwnfull
from vlib import Result, enc_list, f2b, Toks, close, enc_bool

PROP = 'C01'
META = {
    'level_text': 'Lean 4 theorems (for every distribution, interfacial-composition table, number of phases/elements, site volume factor, both precipitate-diffusion modes, every sequence of steps by induction) that each slice produced by the mass balance satisfies x0 = x_matrix(1 - sum fv) + sum fconc up to the documented clamp, that fconc is the PSD sum of particle volume x interfacial composition and fv the same sum with composition 1; the model of _calcMassBalance is tied to KWNEuler.py by replaying every logged call of synthetic configurations and of real Al-Zr / Ni-Cr-Al runs (both iterators, split solve calls) through the compiled model, and the predicate is evaluated directly on the recorded histories. In addition the WHOLE accepted step of the KWN model (both iterators) is composed in Lean (KawinV.KWNFull: getdXdt, getDt, clamp, correctdXdt, update, mass balance, nucleation with the regenerated formulas, growth/lookup, append, size-distribution update) and every accepted step of real runs is replayed through it with the captured backend answers; theorem eulerStep_conserves states the balance for the row recorded by the composed step, for every backend.',
    'level_note': 'Trusted: Lean kernel + Mathlib (standard axioms only); the hand model equals _calcMassBalance only as far as compared on this run; the order of calls inside a KWN step (which table and state the mass balance sees) is part of the composed Lean step KawinV.KWNFull and is tied to the code by step-by-step refinement of real runs (entry state + captured backend answers -> exit state), not by proof about the Python source; exact-field arithmetic vs IEEE doubles (rtol 1e-9); pycalphad results are universally quantified inputs. No-diffusion mode: only the balance theorem is claimed (fconc is an integral of increments there).',
    'technique': 'Lean 4 proof (algebraic law + induction over the run) + trace refinement of real runs against the model',
    'design_ref': 'DESIGN.md section 6, C01',
}
LEAN_MODULES = ['KawinV.Props.C01', 'KawinV.Props.KWNFull']
MONITORED = ['no-diffusion mode: fconc equals the PSD sum only if x_beta is constant in time (not claimed)']
ASSUMPTIONS = ['total precipitate fraction < 1 for the balance identity (the saturated branch is a separate theorem)']
TRUSTED = ['run-time wrappers of tools/lib/kwnruns.py log inputs/outputs of _calcMassBalance faithfully']

# ------------------------------------------------------------------ tie 1: the mass balance REGENERATED from the source
def regenerate(ctx):
    """run the real PrecipitateModel._calcMassBalance on symbolic state (2 phases x 2 elements x 3 size classes, populated,
    unsaturated, unclamped: the path condition is asserted) and emit the recorded quantities as Lean definitions"""
    import os, sys
    sys.path.insert(0, os.path.join(vlib.VERIF, 'tools', 'py2lean'))
    import sym
    from sym import Sym, emit_def, HEADER
    vlib.use_repo()
    from kawin.precipitation import PrecipitateModel, VolumeParameter
    P, E, n = 2, 2, 3
    m = PrecipitateModel(phases=['P0', 'P1'], elements=['E0', 'E1'])
    m.setVolumeAlpha(1e-5, VolumeParameter.MOLAR_VOLUME, 4)
    for p in range(P):
        m.setPBMParameters(cMin=1e-10, cMax=1e-9, bins=n, minBins=1, maxBins=10, phase=m.phases[p])
        m.setVolumeBeta(1e-5, VolumeParameter.MOLAR_VOLUME, 4, phase=m.phases[p])
        m.setInterfacialEnergy(0.3, phase=m.phases[p])
        m.setNucleationSite('bulk', phase=m.phases[p])
    V = lambda name, val: Sym.var(name, val)
    x = [np.array([V('(N %d %d)' % (p, i), 1e20 * (1 + i + p)) for i in range(n)], dtype=object) for p in range(P)]
    for p in range(P):
        m.PBM[p].PSDsize = np.array([V('(R %d %d)' % (p, i), 1e-9 * (1 + i)) for i in range(n)], dtype=object)
    m.PSDXalpha = [None] * P
    m.PSDXbeta = [np.array([[V('(xb %d %d %d)' % (p, j, e), 0.1 + 0.01 * j + 0.02 * e) for e in range(E)] for j in range(n + 1)], dtype=object)
                  for p in range(P)]
    m.matrixParameters.volume = type('Vol', (), {'Vm': V('vma', 1.0e-5), 'Va': V('vaa', 6.6e-29), 'a': V('aa', 4.05e-10), 'atomsPerCell': 4})()
    for p in range(P):
        pp = m.precipitateParameters[p]
        pp.volume = type('Vol', (), {'Vm': V('(vmb %d)' % p, 0.9e-5 + 0.2e-5 * p), 'Va': V('(vab %d)' % p, 2.4e-28 + 1e-29 * p),
                                     'a': V('(ab %d)' % p, 6.2e-10), 'atomsPerCell': 16})()
        pp.nucleation = type('Nuc', (), {'volumeFactor': V('(vfac %d)' % p, 4.18879 - p)})()
    m.pData.composition = m.pData.composition.astype(object)
    m.pData.composition[0] = np.array([V('(x0 %d)' % e, 0.05 + 0.01 * e) for e in range(E)], dtype=object)
    Y = m.pData.copySlice(0)
    for a in Y.ATTRIBUTES:
        setattr(Y, a, getattr(Y, a).astype(object))
    sym.PATH.clear()
    out = m._calcMassBalance(0.0, x, Y)
    path = [(op, bool(r)) for op, _, _, r in sym.PATH]
    # path condition of the traced run: both phases populated (density >= floor), uncapped, total fraction < 1, no clamp
    want = [('lt', False), ('le', True), ('lt', False), ('le', True), ('lt', True), ('lt', False), ('lt', False)]
    if path != want:
        raise RuntimeError('path condition of the traced _calcMassBalance changed: %r' % (path,))
    outs = [out.composition[0][0], out.composition[0][1], out.volFrac[0][0], out.volFrac[0][1],
            out.fconc[0][0][0], out.fconc[0][0][1], out.fconc[0][1][0], out.fconc[0][1][1],
            out.precipitateDensity[0][0], out.Ravg[0][0]]
    if not all(isinstance(o, Sym) for o in outs):
        raise RuntimeError('a recorded quantity lost its symbols in the trace')
    params = [('N', 'Nat → Nat → α'), ('R', 'Nat → Nat → α'), ('xb', 'Nat → Nat → Nat → α'), 'vma', ('vmb', 'Nat → α'),
              ('vfac', 'Nat → α'), ('x0', 'Nat → α')]
    # the unit-cell quantities are offered to the traced code as symbols as well; the mass balance must not use them
    # (molar volumes only) — if a traced output mentions one, the definitions get extra parameters and the theorems stop checking
    def mentions(node, names, seen=None):
        seen = set() if seen is None else seen
        if node.id in seen:
            return False
        seen.add(node.id)
        if node.op == 'var' and any(node.args[0].startswith(n) for n in names):
            return True
        return any(mentions(a, names, seen) for a in node.args if isinstance(a, sym.Node))
    if any(mentions(o.node, ('vaa', '(vab', 'aa', '(ab')) for o in outs):
        params += ['vaa', ('vab', 'Nat → α'), 'aa', ('ab', 'Nat → α')]
    src, _ = emit_def('mb', params, outs, doc='PrecipitateModel._calcMassBalance traced on 2 phases x 2 elements x 3 classes '
                      '(populated, unsaturated, unclamped path)', names=['comp0', 'comp1', 'vf0', 'vf1', 'fc00', 'fc01', 'fc10', 'fc11', 'dens0', 'ravg0'])
    text = HEADER + '\nnamespace KawinV.Gen.C01\n\n' + src + 'end KawinV.Gen.C01\n'
    ch = vlib.write_if_changed(os.path.join(vlib.LEAN, 'KawinV', 'Gen', 'C01MassBalance.lean'), text)
    return ['KawinV/Gen/C01MassBalance.lean'] if ch else []


RUN_ERRORS = []
SITES = ['bulk', 'dislocations', 'grain boundaries', 'grain edges', 'grain corners']


# ------------------------------------------------------------------ synthetic configurations
def synth_record(rng):
    """build a PrecipitateModel without thermodynamics, fill it with random state, call the real
    _calcMassBalance through the logging wrapper; returns the log record"""
    vlib.use_repo()
    from kawin.precipitation import PrecipitateModel, VolumeParameter
    P = rng.choice([1, 1, 2, 3]); E = rng.choice([1, 1, 2, 3])
    m = PrecipitateModel(phases=['P%d' % i for i in range(P)], elements=['E%d' % i for i in range(E)])
    r = np.random.default_rng(rng.getrandbits(32))
    m.setVolumeAlpha(1e-5 * r.uniform(0.5, 2), VolumeParameter.MOLAR_VOLUME, rng.choice([1, 2, 4]))
    kinds = []
    m.setGrainBoundaryEnergy(0.3)
    for p in range(P):
        ph = m.phases[p]
        n = int(rng.choice([1, 2, 5, 20, 75, 150]))
        cmin = 10 ** r.uniform(-10, -9)
        m.setPBMParameters(cMin=cmin, cMax=cmin * rng.choice([10, 50]), bins=n, minBins=max(1, n // 2), maxBins=2 * n, phase=ph)
        m.setVolumeBeta(1e-5 * r.uniform(0.5, 2), VolumeParameter.MOLAR_VOLUME, rng.choice([1, 2, 4, 16]), phase=ph)
        site = rng.choice(SITES)
        m.setInterfacialEnergy(float(r.uniform(0.2, 0.5)), phase=ph)   # k = 0.3/(2 gamma) in (0.3, 0.75) < every site limit
        m.setNucleationSite(site, phase=ph)
        inf = rng.random() < 0.75
        m.setInfinitePrecipitateDiffusivity(inf, phase=ph)
        kinds.append(site + ('' if inf else '/nodiff'))
    m.PSDXalpha = [None] * P; m.PSDXbeta = [None] * P
    x = []
    scen = rng.choice(['normal', 'normal', 'normal', 'empty', 'near-saturation', 'saturated', 'negative-comp', 'sticky', 'below-mincomp', 'below-mincomp'])
    R3 = [m.PBM[p].PSDsize ** 3 for p in range(P)]
    for p in range(P):
        n = m.PBM[p].bins
        if scen == 'empty' and (p == 0 or rng.random() < 0.5):
            N = np.zeros(n) if rng.random() < 0.5 else np.full(n, 1e-14)
        else:
            N = np.where(r.random(n) < 0.7, 10 ** r.uniform(10, 22, n), 0.0)
            target = {'normal': r.uniform(1e-4, 0.2), 'empty': r.uniform(1e-4, 0.1), 'near-saturation': (1 - 10 ** r.uniform(-6, -2)) / P,
                      'saturated': r.uniform(1.0, 3.0), 'negative-comp': r.uniform(0.2, 0.5) / P, 'sticky': r.uniform(0.01, 0.3),
                      'below-mincomp': r.uniform(0.05, 0.2) / P}[scen]
            c = (m.matrixParameters.volume.Vm / m.precipitateParameters[p].volume.Vm) * m.precipitateParameters[p].nucleation.volumeFactor
            tot = c * float(np.sum(N * R3[p]))
            if tot > 0:
                N = N * (target / tot)
        x.append(N)
        m.PBM[p].PSD = N * r.uniform(0.5, 1.5, n) if rng.random() < 0.8 else N.copy()
        hi = 0.9 if scen == 'negative-comp' else 0.3
        m.PSDXbeta[p] = r.uniform(0.0, hi, (n + 1, E))
    x0 = r.uniform(0.001, 0.08, E)
    if scen == 'below-mincomp':
        # matrix almost depleted: balance composition positive but below a user-set minComposition (must NOT be clamped)
        fc = np.zeros(E); sf = 0.0
        for p in range(P):
            c = (m.matrixParameters.volume.Vm / m.precipitateParameters[p].volume.Vm) * m.precipitateParameters[p].nucleation.volumeFactor
            mid = 0.5 * (m.PSDXbeta[p][:-1] + m.PSDXbeta[p][1:])
            fc += c * np.sum((x[p] * R3[p])[:, None] * mid, axis=0); sf += c * float(np.sum(x[p] * R3[p]))
        target = r.uniform(1e-5, 2e-4, E)                       # desired matrix composition
        x0 = fc + target * (1 - sf)
        m.constraints.minComposition = float(rng.choice([3e-4, 1e-3]))
    m.pData.composition[0] = x0
    if scen == 'sticky':
        m.pData.volFrac[0, rng.randrange(P)] = 1.0
    m.pData.fconc[0] = r.uniform(0, 0.01, (P, E))
    if scen != 'below-mincomp' and rng.random() < 0.3:
        m.constraints.minComposition = 1e-8
    log = kwnruns.instrument(m)
    Y = m.pData.copySlice(m.pData.n)
    Y.composition[0] = r.uniform(0.001, 0.05, E)
    m._calcMassBalance(0.0, x, Y)
    rec = log.mb[-1]
    rec['tag'] = 'synthetic:%s:%s' % (scen, ','.join(kinds))
    return rec


def gen_record(rng):
    """a 2-phase x 2-element x 3-class state on the path the regenerated definitions were traced on"""
    vlib.use_repo()
    from kawin.precipitation import PrecipitateModel, VolumeParameter
    r = np.random.default_rng(rng.getrandbits(32))
    m = PrecipitateModel(phases=['P0', 'P1'], elements=['E0', 'E1'])
    m.setVolumeAlpha(1e-5 * r.uniform(0.5, 2), VolumeParameter.MOLAR_VOLUME, 4)
    m.setGrainBoundaryEnergy(0.3)
    x = []
    m.PSDXalpha = [None, None]; m.PSDXbeta = [None, None]
    for p in range(2):
        ph = m.phases[p]
        m.setPBMParameters(cMin=10 ** r.uniform(-10, -9), cMax=1e-8, bins=3, minBins=1, maxBins=6, phase=ph)
        m.setVolumeBeta(1e-5 * r.uniform(0.5, 2), VolumeParameter.MOLAR_VOLUME, 4, phase=ph)
        m.setInterfacialEnergy(float(r.uniform(0.2, 0.5)), phase=ph)
        m.setNucleationSite(rng.choice(SITES), phase=ph)
        c = (m.matrixParameters.volume.Vm / m.precipitateParameters[p].volume.Vm) * m.precipitateParameters[p].nucleation.volumeFactor
        N = 10 ** r.uniform(15, 22, 3)
        N *= r.uniform(1e-4, 0.2) / (c * float(np.sum(N * m.PBM[p].PSDsize ** 3)))
        x.append(N); m.PBM[p].PSD = N.copy()
        m.PSDXbeta[p] = r.uniform(0.0, 0.2, (4, 2))
    m.pData.composition[0] = r.uniform(0.03, 0.08, 2)
    log = kwnruns.instrument(m)
    m._calcMassBalance(0.0, x, m.pData.copySlice(0))
    rec = log.mb[-1]
    rec['tag'] = 'generated-path'
    if np.sum(rec['volFrac']) >= 1 or np.any(rec['comp'] <= 0) or np.any(rec['dens'] < rec['minDens']):
        return None
    return rec


# ------------------------------------------------------------------ protocol line for one record
def line_of(rec):
    P = len(rec['x'])
    E = len(rec['x0'])
    s = ['mb.balance', f2b(rec['minDens']), f2b(rec['minComp']), enc_list(rec['x0']), enc_list(rec['prevComp']), str(P)]
    for p in range(P):
        xb = rec['xbeta'][p]
        s += [enc_list(rec['x'][p]), enc_list(rec['size'][p]), str(E)]
        s += [enc_list(xb[:, e]) for e in range(E)]
        s += [f2b(rec['volRatio'][p]), f2b(rec['volumeFactor'][p]), f2b(rec['prevVolFrac'][p]), enc_bool(rec['infinite'][p]),
              enc_list(rec['prevFconc'][p]), enc_list(rec['psd'][p])]
    return ' '.join(s)


def brief(rec):
    return {k: (v if not isinstance(v, (list, np.ndarray)) else None) for k, v in rec.items() if k in ('t', 'n', 'in_post', 'tag', 'minDens', 'minComp')} | {
        'x0': rec['x0'].tolist(), 'bins': [len(a) for a in rec['x']], 'volRatio': rec['volRatio'], 'volumeFactor': rec['volumeFactor'],
        'infinite': rec['infinite'], 'prevVolFrac': rec['prevVolFrac'].tolist(), 'volFrac': rec['volFrac'].tolist(),
        'fconc': rec['fconc'].tolist(), 'comp': rec['comp'].tolist(), 'dens': rec['dens'].tolist()}


def full_case(rec):
    d = brief(rec)
    d['x'] = [a.tolist() for a in rec['x']]; d['size'] = [a.tolist() for a in rec['size']]
    d['xbeta'] = [a.tolist() for a in rec['xbeta']]; d['psd'] = [a.tolist() for a in rec['psd']]
    d['prevFconc'] = rec['prevFconc'].tolist(); d['prevComp'] = rec['prevComp'].tolist()
    return d


# ------------------------------------------------------------------ direct oracle on one record
def oracle(rec, res):
    P = len(rec['x']); E = len(rec['x0'])
    sfv = float(np.sum(rec['volFrac']))
    x0 = rec['x0']; comp = rec['comp']
    for p in range(P):
        N = rec['x'][p]; R = rec['size'][p]
        c = rec['volRatio'][p] * rec['volumeFactor'][p]
        dens = math.fsum(N)
        if not close(rec['dens'][p], dens, 1e-9):
            res.violate('density-not-M0', 'recorded density is not the zeroth moment of the state', brief(rec), float(rec['dens'][p]), dens)
        if dens < rec['minDens']:
            if rec['volFrac'][p] != 0 or np.any(rec['fconc'][p] != 0) or rec['Ravg'][p] != 0:
                res.violate('empty-phase-contributes', 'phase below the density floor has non-zero fraction/content', brief(rec))
            res.count('phase:empty')
            continue
        m3 = math.fsum(float(n) * float(r) ** 3 for n, r in zip(N, R))
        want = 1.0 if rec['prevVolFrac'][p] == 1 else min(c * m3, 1.0)
        if not close(rec['volFrac'][p], want, 1e-9):
            res.violate('volfrac-not-scaled-M3', 'volume fraction is not min(Vratio*volumeFactor*M3, 1)', brief(rec), float(rec['volFrac'][p]), want)
        if rec['infinite'][p]:
            xb = rec['xbeta'][p]
            for e in range(E):
                # "particle volume x interfacial precipitate composition summed over the size distribution": any composition
                # between the two boundary values of a class is an admissible discretisation (the code takes their mean)
                lo = math.fsum(c * float(r) ** 3 * float(n) * min(float(xb[i, e]), float(xb[i + 1, e])) for i, (n, r) in enumerate(zip(N, R)))
                hi = math.fsum(c * float(r) ** 3 * float(n) * max(float(xb[i, e]), float(xb[i + 1, e])) for i, (n, r) in enumerate(zip(N, R)))
                f = float(rec['fconc'][p, e])
                if not (lo * (1 - 1e-9) - 1e-300 <= f <= hi * (1 + 1e-9) + 1e-300):
                    res.violate('fconc-not-psd-sum', 'precipitate content is not a sum over the PSD of particle volume x interfacial composition '
                                '(outside the bracket given by the class-boundary compositions)', brief(rec), f, [lo, hi])
            res.count('phase:infinite')
        else:
            res.count('phase:nodiff')
            # documented law of this mode: content = previously RECORDED content + c * sum R^3 (N - stored PSD) * x_beta(class)
            xb = rec['xbeta'][p]
            for e in range(E):
                terms = [c * float(r) ** 3 * (float(n) - float(o)) for n, o, r in zip(N, rec['psd'][p], R)]
                lo = math.fsum(t * (min(float(xb[i, e]), float(xb[i + 1, e])) if t >= 0 else max(float(xb[i, e]), float(xb[i + 1, e]))) for i, t in enumerate(terms))
                hi = math.fsum(t * (max(float(xb[i, e]), float(xb[i + 1, e])) if t >= 0 else min(float(xb[i, e]), float(xb[i + 1, e]))) for i, t in enumerate(terms))
                inc = float(rec['fconc'][p, e]) - float(rec['prevFconc'][p, e])
                tol = 1e-9 * (abs(lo) + abs(hi) + abs(float(rec['prevFconc'][p, e]))) + 1e-300
                if not (lo - tol <= inc <= hi + tol):
                    res.violate('fconc-increment-nodiff', 'no-precipitate-diffusion mode: content did not change by the PSD increment times the '
                                'interfacial composition relative to the previously recorded content', brief(rec), inc, [lo, hi])
    if sfv < 1:
        for e in range(E):
            raw = (x0[e] - math.fsum(rec['fconc'][:, e])) / (1 - sfv)
            mag = abs(x0[e]) + float(np.sum(np.abs(rec['fconc'][:, e])))
            if raw < 0 and not close(raw, 0, 0, 1e-12 * mag / (1 - sfv)):
                res.count('clamped')
                if comp[e] != rec['minComp']:
                    res.violate('clamp', 'negative balance composition not clamped to minComposition', brief(rec), float(comp[e]), rec['minComp'])
            elif raw >= 0:
                lhs = comp[e] * (1 - sfv) + math.fsum(rec['fconc'][:, e])
                if not close(x0[e], lhs, 1e-9, mag):
                    res.violate('balance', 'x0 != x_matrix*(1-sum fv) + sum fconc', brief(rec), lhs, float(x0[e]))
                res.count('balanced')
            else:
                res.near_tie_skipped += 1
    else:
        res.count('saturated')
        if not np.array_equal(comp, rec['prevComp']):
            res.violate('saturated-composition-changed', 'total fraction >= 1 but the composition was recomputed', brief(rec))


def compare(rec, ans, res):
    t = Toks(ans)
    if not t.ok:
        res.disagree('model error: ' + str(t.err), brief(rec), 'ok', t.err); return
    P = t.nat()
    for p in range(P):
        dens, ravg, vf = t.flt(), t.flt(), t.flt(); fc = t.flts()
        if not close(dens, rec['dens'][p], 1e-9): res.disagree('density', brief(rec), float(rec['dens'][p]), dens)
        if not close(ravg, rec['Ravg'][p], 1e-9): res.disagree('Ravg', brief(rec), float(rec['Ravg'][p]), ravg)
        if not close(vf, rec['volFrac'][p], 1e-9): res.disagree('volFrac', brief(rec), float(rec['volFrac'][p]), vf)
        sc = float(np.max(np.abs(rec['prevFconc'][p]))) if not rec['infinite'][p] else 1e-300
        if not vlib.all_close(fc, rec['fconc'][p], 1e-9, sc * 1e-3 + 1e-300): res.disagree('fconc', brief(rec), rec['fconc'][p].tolist(), fc)
    comp = t.flts()
    sfv = float(np.sum(rec['volFrac']))
    if abs(1 - sfv) < 1e-7 or any(abs(c) < 1e-11 * abs(x) / max(1 - sfv, 1e-30) for c, x in zip(rec['comp'], rec['x0']) if c != rec['minComp']):
        res.near_tie_skipped += 1     # threshold Σfv<1 or sign of the raw composition within rounding
        return
    mag = [(abs(rec['x0'][e]) + float(np.sum(np.abs(rec['fconc'][:, e])))) / abs(1 - sfv) for e in range(len(comp))]
    if not all(close(a, b, 1e-9, 1e-6 * m) for a, b, m in zip(comp, rec['comp'], mag)):
        res.disagree('composition', brief(rec), rec['comp'].tolist(), comp)


# ------------------------------------------------------------------ real trajectories
def trace_runs(ctx):
    """returns list of (tag, model, log) for real runs"""
    out = []
    def go(tag, model, times, solver, cap):
        import traceback
        log = kwnruns.instrument(model)
        try:
            for t in times:
                kwnruns.run(model, t, solver, max_steps=cap)
        except Exception:
            # a crash of one real run must not hide the other runs; the calls logged so far are still checked
            RUN_ERRORS.append((tag, traceback.format_exc()))
        out.append((tag, model, log))
    T = 723.15 - ctx.rng.uniform(0, 5)
    x0 = 4e-3 * ctx.rng.uniform(1.0, 1.1)
    if not ctx.thorough:
        go('AlZr/euler/dislocations/2-solves', kwnruns.build_binary(x0=x0, T=T), [3600 * 2, 3600 * 3], 'euler', None)
        go('AlZr/rk4/grain-boundaries', kwnruns.build_binary(x0=x0, T=T, site='grain boundaries', gbEnergy=0.15), [3600.0], 'rk4', 150)
        # populated from the first step: no precipitate diffusion (content integrated from increments) with RK4 and Vm ratio != 1
        go('AlZr/rk4/loaded/nodiff/vratio', kwnruns.build_loaded_binary(ctx.rng, infinite=False, vratio=ctx.rng.choice([0.9, 1.2])), [300.0, 300.0], 'rk4', 60)
        go('NiCrAl/euler/2-solves', kwnruns.build_ternary(), [20.0, 60.0], 'euler', 120)
        go('NiCrAl/rk4', kwnruns.build_ternary(), [30.0], 'rk4', 30)
        go('AlZr/euler/loaded/vratio/atoms16', kwnruns.build_loaded_binary(ctx.rng, vratio=ctx.rng.choice([0.9, 1.2]), atomsBeta=16), [600.0], 'euler', 200)
    else:
        go('AlZr/euler/dislocations/3-solves', kwnruns.build_binary(x0=x0, T=T), [3600 * 2, 3600 * 10, 3600 * 40], 'euler', None)
        go('AlZr/rk4/dislocations', kwnruns.build_binary(x0=x0, T=T), [3600 * 5.0], 'rk4', None)
        for site in ('grain boundaries', 'grain edges', 'grain corners', 'bulk'):
            go('AlZr/euler/' + site.replace(' ', '-'), kwnruns.build_binary(x0=x0, T=T, site=site, gbEnergy=0.15), [3600 * 5.0], 'euler', 1500)
        go('AlZr/euler/vratio', kwnruns.build_binary(x0=x0, T=T, vratio=1.3), [3600 * 5.0], 'euler', None)
        go('AlZr/euler/nodiff', kwnruns.build_binary(x0=x0, T=T, infinite=False), [3600 * 5.0], 'euler', None)
        go('AlZr/rk4/loaded/nodiff/vratio', kwnruns.build_loaded_binary(ctx.rng, infinite=False, vratio=ctx.rng.choice([0.9, 1.2])), [300.0, 900.0], 'rk4', 400)
        go('AlZr/euler/loaded/vratio', kwnruns.build_loaded_binary(ctx.rng, vratio=ctx.rng.choice([0.9, 1.2])), [1200.0], 'euler', None)
        go('NiCrAl/euler/2-solves', kwnruns.build_ternary(), [50.0, 500.0], 'euler', 400)
        go('NiCrAl/rk4', kwnruns.build_ternary(), [100.0], 'rk4', 60)
    return out


def check_history(tag, model, log, res):
    """recorded pData rows are exactly the outputs of the postProcess mass-balance call of that step"""
    posts = [r for r in log.mb if r['in_post']]
    pd = model.pData
    if len(posts) != pd.n:
        res.violate('history-length', 'number of recorded slices != number of accepted steps', {'run': tag}, pd.n, len(posts)); return
    for k, r in enumerate(posts, 1):
        if not (np.array_equal(pd.volFrac[k], r['volFrac']) and np.array_equal(pd.fconc[k], r['fconc'])
                and np.array_equal(pd.composition[k], r['comp']) and np.array_equal(pd.precipitateDensity[k], r['dens'])):
            res.violate('recorded-slice-not-massbalance', 'recorded slice %d differs from the mass balance computed for that step' % k,
                        dict(brief(r), run=tag)); return
    res.traces += 1


COMPOSED_ORACLES = ('continuity', 'volume', 'fault', 'rowbal', 'stored')


def _plan(ctx):
    return [('alzr-small-grid', ctx.n(250, 1200)), ('nicral', ctx.n(50, 300)), ('alzr-nodiff', ctx.n(120, 400)), ('alzr-loaded@rk4', ctx.n(50, 170)),
            ('nicral@rk4', ctx.n(30, 200)), ('alzr-loaded-dilute', ctx.n(200, 500)), ('nicral@2solves@rk4', ctx.n(30, 120)),
            ('nicral-faults', ctx.n(160, 400)), ('nicral-trace', ctx.n(40, 200)), ('nicral@reset@reconfig', ctx.n(45, 150))] + ([('alzr-fine-grid', 2500), ('almgsi-2phase-loaded', 200)] if ctx.thorough else [])


def corr(ctx, oracle_only=False, nsynth=None):
    res = Result()
    res.rule = ('synthetic PrecipitateModel states (1-3 phases x 1-3 elements x 5 site types x 2 diffusion modes x scenarios normal/empty/'
                'near-saturation/saturated/negative-composition/sticky) and every _calcMassBalance call of real runs; non-trivial = at least '
                'one populated phase; distinct = fingerprint of (tag, step, outputs)')
    recs = []
    for _ in range(nsynth or ctx.n(400, 6000)):
        ok, r = vlib.guarded(res, 'synthetic-mass-balance', {'note': 'synthetic state of this run (same VERIF_SEED reproduces it)'}, synth_record, ctx.rng)
        if ok:
            recs.append(r)
    ok, runs_ = vlib.guarded(res, 'real-run', {'note': 'real Al-Zr / Ni-Cr-Al trajectories of this tier'}, trace_runs, ctx)
    for tag, tb in RUN_ERRORS:
        if vlib.in_repo_traceback(tb):
            res.violate('raises:real-run', 'a real run crashed inside the implementation', {'run': tag, 'traceback': tb[-1500:]})
    del RUN_ERRORS[:]
    for tag, model, log in (runs_ if ok else []):
        for r in log.mb:
            r['tag'] = tag
        check_history(tag, model, log, res)
        res.count('run:' + tag, len(log.mb))
        recs += log.mb
    lines = [line_of(r) for r in recs]
    model_out = vlib.run_driver(PROP, lines) if (ctx.driver_ok and not oracle_only) else None
    # translator validation: the regenerated definitions evaluated on Float vs the real call (2 phases x 2 elements x 3 classes)
    if ctx.driver_ok and not oracle_only:
        gl, gr = [], []
        for _ in range(ctx.n(60, 600)):
            ok, r = vlib.guarded(res, 'generated-path-state', {}, gen_record, ctx.rng)
            if not ok or r is None:
                continue
            gl.append('mb.gen %s %s %s %s %s %s %s' % (enc_list(np.concatenate(r['x'])), enc_list(np.concatenate(r['size'])),
                      enc_list(np.concatenate([a.ravel() for a in r['xbeta']])), f2b(1.0), enc_list([1.0 / v for v in r['volRatio']]),
                      enc_list(r['volumeFactor']), enc_list(r['x0'])))
            gr.append(r)
        for a, r in zip(vlib.run_driver(PROP, gl), gr):
            t = Toks(a)
            want = [r['comp'][0], r['comp'][1], r['volFrac'][0], r['volFrac'][1], r['fconc'][0, 0], r['fconc'][0, 1], r['fconc'][1, 0], r['fconc'][1, 1],
                    r['dens'][0], r['Ravg'][0]]
            res.case(('generated', tuple(np.round(r['volFrac'], 12))), True); res.count('generated-def-validated')
            if not t.ok or not vlib.all_close(t.flts(), want, 1e-9, 1e-300):
                res.disagree('regenerated mass-balance definitions vs the real call', brief(r), [float(w) for w in want], a)
    for i, r in enumerate(recs):
        nontriv = bool(np.any(r['dens'] >= r['minDens']))
        res.case((r['tag'], r['n'], r['t'], tuple(np.round(r['volFrac'], 14))), nontriv)
        res.count('kind:' + r['tag'].split(':')[0].split('/')[0])
        oracle(r, res)
        if model_out is not None:
            compare(r, model_out[i], res)
    for r in recs[:1] + recs[-1:]:
        res.sample(brief(r))
    # violations carry the full record for replay (first of each key only)
    seen = set()
    for v in res.violations:
        if v['key'] not in seen:
            seen.add(v['key'])
            for r in recs:
                if brief(r) == v['case'] or (isinstance(v['case'], dict) and v['case'].get('t') == r['t'] and v['case'].get('tag') == r['tag'] and v['case'].get('n') == r['n']):
                    v['case'] = full_case(r); break
    # the COMPOSED step (KWNFull.eulerStep, theorem eulerStep_conserves): every accepted step of real runs replayed with its
    # captured backend answers; the complete exit state incl. the recorded row must be the implementation's
    # in the oracle-only pass (search, replay) the scenarios run with their direct oracles, without the model
    kwnfull.refine_scenarios(ctx, res, PROP, _plan(ctx), oracles=COMPOSED_ORACLES, driver=not oracle_only)
    vlib.finish_guard(res)
    return res


def search(ctx, broken):
    return corr(ctx, oracle_only=True, nsynth=ctx.n(3000, 20000))


def replay(ctx, entry):
    c = entry['violation']['case']
    if 'scenario' in c or (isinstance(c.get('case'), dict) and 'scenario' in c['case']):
        return kwnfull.replay_scenario(ctx, entry, PROP, _plan(ctx), COMPOSED_ORACLES, Result)
    if 'x' not in c:
        print('  replay needs the full record'); return None
    rec = dict(c)
    for k in ('x0', 'prevVolFrac', 'volFrac', 'fconc', 'comp', 'dens', 'prevFconc', 'prevComp'):
        rec[k] = np.array(c[k], dtype=float)
    for k in ('x', 'size', 'xbeta', 'psd'):
        rec[k] = [np.array(a, dtype=float) for a in c[k]]
    rec['Ravg'] = np.zeros(len(rec['x']))
    r = Result(); oracle(rec, r)
    for v in r.violations:
        print('  ', v['key'], v['what'], v['observed'], v['required'])
    return not r.violations
