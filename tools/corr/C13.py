"""C13 — temperature schedules are followed faithfully.

Three ties between kawin and the Lean models KawinV.TempSched / KawinV.Lookup, each with an
independent oracle that evaluates the property on the implementation's own outputs:

 1. op-sequence correspondence for both `TemperatureParameters` classes (every construction / setter
    order; number, (hours, kelvin) break points, callable; evaluated at random times incl. outside
    the range and exactly on break points)              oracle: independent piecewise-linear
    reference in seconds, flag rule, constructor-vs-setter objects;
 2. trace refinement on REAL binary Al-Zr runs (Euler and RK4, fixed and solver-chosen steps, ramps
    of both signs, holds, jumps, slow ramps, re-mesh / extension of the size grid, several solve
    calls): every logged call is replayed through `KawinV.Lookup.run` and must agree call by call;
    oracle: freshness predicate evaluated on the logged build temperatures, recorded temperature
    vs. reference schedule, recorded xEqAlpha bracketed by independent thermodynamic evaluations
    at T -/+ maxTempChange;
 3. paired constructor / setter runs compared array by array;
 4. non-isothermal DIFFUSION runs (SinglePhaseModel, HomogenizationModel; a duck-typed Arrhenius thermodynamics and the shipped
    Ni-Cr / Ni-Cr-Al database): schedule as break points, as function of (z, t), through the constructor object; ramps of both
    signs, fast, slow and inside one integer kelvin, changes of a few table bins, holds, gradients along z; table on / off /
    other precisions / cleared between solve calls.  Every evaluation of the fluxes is logged (hash table, thermodynamics and
    _getFluxes wrapped at run time) and replayed through `KawinV.TempSched.runDiff` (which node is served by which stored
    value); oracle at every evaluation: temperature handed over = schedule(z, t), the value in use was computed within 10^-s K
    of it (theorem schedule_followed_to_cache_resolution), fluxes / time step = the thermodynamics evaluated at
    (x, schedule(z, t)) without the table; runs compared across the ways of giving the schedule and cached vs uncached.
No file of /repo is touched: all instrumentation is instance-attribute wrapping at run time."""
import bisect, contextlib, io, math, os, random, warnings
import numpy as np
import vlib, kwnfull
from vlib import Result, enc_list, f2b, Toks, close

PROP = 'C13'
META = {
    'level_text': 'Lean 4 theorems, for any linearly ordered field, every schedule and every history of solver calls (by induction over the call list): every recorded slice has temperature = schedule(time) (setup slice and every step, Euler and RK4 glue, either lookup implementation); constructor == setter (same function, same isothermal flag) for number / break points / callable in the precipitation and the diffusion TemperatureParameters; for increasing (hours, kelvin) break points the schedule is the piecewise-linear interpolant in seconds (x3600), constant outside; a specification call (constructor or setter, both packages) leaves the break-point arrays of the caller unchanged, and re-using the very same arrays for further specifications / objects / models leaves every object with the schedule it was specified with (store-of-arrays model; reference- and value-semantics coincide when the caller does not write afterwards); lookup freshness: every growth-rate evaluation reads only table blocks, and hands out / records only equilibrium compositions, computed within maxTempChange of its own temperature, for heating and cooling, fast or arbitrarily slow, with re-mesh and extension anywhere. The pre-repair code is refuted in Lean (lookup_stale: 10 steps of +0.5 K at threshold 1 K; ctorAsWas_ne_setter). Models are tied to /repo on every run by op-sequence correspondence and by call-by-call trace refinement of real Al-Zr runs; the property predicate is also evaluated directly on logged build temperatures and against independent thermodynamic evaluations. On the composed KWN step (KawinV.KWNFull) eulerStep_fresh / rk4Step_fresh / runSteps_fresh prove for every backend, schedule and number of steps that the lookup table in use was computed within maxTempChange of the newest recorded temperature, across rebuild, re-mesh and extension; non-isothermal real runs are replayed step by step through that model with the captured table rebuilds. Diffusion models (KawinV.TempSched.runDiff over KawinV.HashCache): for every schedule, every key function and every history of control calls and flux evaluations, an evaluation at time t looks every node up at the schedule evaluated at t (diffusion_hands_over_schedule, diffusion_temps_between for break points) and uses a value stored under the key of that (composition, temperature) (diffusion_value_in_use_has_equal_key); with the key of the code (temperature scaled like the composition) that value was computed less than 10^-s K from the schedule temperature, for ramps of any rate, and at exactly that temperature with the table off (schedule_followed_to_cache_resolution); a key that leaves the temperature unscaled is refuted (schedule_within_kelvin_collides for every precision, kelvin_key_run_is_stale on the ramp 1073.05 -> 1073.95 K). Real SinglePhaseModel / HomogenizationModel runs are replayed evaluation by evaluation through that model.',
    'level_note': 'Trusted: Lean kernel + Mathlib (propext, Classical.choice, Quot.sound); the hand models equal the Python code only as far as this run compared them. "In use" means: read by _singleGrowthBinary / written into a slice by _growthRateBinary; _calcMassBalance of the same slice runs BEFORE the refresh and can read a table one step staler than the threshold (counted as an observation, not proved, not a violation). Observation, not part of the statement and not checked: both classes keep references to the lists/arrays of the caller (late binding), so a caller who overwrites his array AFTER specifying changes the stored schedule (Lean: ref_alias_witness). np.interp is modelled by a left-to-right walk: exact for sorted break points and for <= 4 points in any order; unsorted longer lists, NaN times and user lists mutated after the call are outside the statement. The schedule is assumed to be a function of time. Exact-field arithmetic instead of IEEE doubles (all comparisons in the lookup rule are the same float expressions on both sides; interpolation compared to 1e-12). Multicomponent runs have no lookup table and are not part of the freshness clause. Diffusion runs: the node compositions of every evaluation are inputs of the model (taken from the run), temperatures are assumed non-negative, the table resolution 10^-s is part of the statement (a value computed less than 10^-s K and 10^-s in composition away may be used: that is what setHashSensitivity documents); what the fluxes are as a function of the values (C04) and the composition part of the key (C09/C17) are not restated here; a schedule function returning fewer temperatures than nodes is modelled as SinglePhaseModel does it (raises after the covered nodes) and not generated.',
    'technique': 'Lean 4 proof over ordered fields (state machines, induction over call histories) + op-sequence correspondence + trace refinement of real runs',
    'design_ref': 'DESIGN.md section 6, C13',
}
LEAN_MODULES = ['KawinV.Props.C13', 'KawinV.Props.KWNFull']
MONITORED = [
    'mass balance of a slice reads the table before _growthRateBinary refreshes it (table lag of one step; histogram key massbalance-table-beyond-threshold)',
    'recorded xEqAlpha lies between independent evaluations at T-maxTempChange and T+maxTempChange (monotone solubility; sampled slices)',
    'diffusion runs: fluxes and stability time step of every evaluation equal those from the thermodynamics evaluated at (x, schedule(z, t)) without the table, to solver tolerance when nothing was reused and to the Lipschitz bound of the table resolution otherwise (homogenization model with reused records: only the temperature-provenance oracle, differences of stored chemical potentials are not small)',
    'diffusion runs: same final profile whichever way the schedule is given; cached run = uncached run within the resolution bound',
]
ASSUMPTIONS = [
    'maxTempChange >= 0; the schedule is a (pure) function of time; break-point lists are not mutated after being handed over',
    'break points strictly increasing for the interpolation theorems; equal hours (a jump) are right-continuous; unsorted lists with more than 4 points and NaN times are outside the statement',
    'freshness is stated at every _growthRateBinary call and for every recorded slice; the mass balance of the same slice is evaluated before the refresh (observation)',
    'exact-field theorems vs IEEE doubles: interpolated values compared with rtol 1e-12 scaled by the largest break-point temperature',
    'diffusion runs: temperatures non-negative (kelvin); the schedule returns one temperature per node; Python hash of a tuple of ints taken as injective (HashCache)',
]
TRUSTED = ['np.interp semantics as modelled in KawinV.TempSched.npInterp (compared on every run)',
           'run-time wrappers (_createLookupBinary, _growthRateBinary, getInterfacialComposition, …) report every call',
           'diffusion runs: instance-level wrappers of HashTable.retrieveFromHashTable / addToHashTable / control calls, of the thermodynamics entry point (getInterdiffusivity / getEq) and of _getFluxes report every call; a value is identified by object identity']

# which lookup implementation of Model/Lookup.lean the traces are replayed through: 1 = the code as it is;
# 0 = the code as it was before the repair of D-C13-dtemp (only used by hand to confirm the model of the old code)
VARIANT = os.environ.get('C13_MODEL_VARIANT', '1')
_SILENT = io.StringIO()


@contextlib.contextmanager
def quiet():
    with contextlib.redirect_stdout(_SILENT), warnings.catch_warnings(), np.errstate(all='ignore'):
        warnings.simplefilter('ignore')
        yield
    _SILENT.seek(0); _SILENT.truncate()


# =====================================================================================
# 1. schedule objects
# =====================================================================================
def ramp_fn(a, b, c):
    return lambda t: a if t < c else a + b * (t - c)


def ramp_fn_z(a, b, c):
    return lambda z, t: a + b * t + c * np.asarray(z, dtype=float)


def gen_args(rng, diffusion=False):
    k = rng.choice(['s', 's', '2', '2', '2', '2', 'f', 'f', 'o'])
    if k == 's':
        T = rng.choice([float(rng.randint(300, 1500)), rng.uniform(300, 1500)])
        return ('s', T)
    if k == 'f':
        if diffusion:
            return ('f', rng.uniform(300, 1200), rng.uniform(-0.05, 0.05), rng.uniform(-5, 5))
        return ('f', rng.uniform(300, 1200), rng.uniform(-2, 2), rng.choice([0.0, rng.uniform(0, 5000)]))
    if k == 'o':
        return ('o', rng.choice([0, 3]))
    shape = rng.choice(['inc', 'inc', 'inc', 'inc', 'dup', 'one', 'unsorted4', 'mismatch', 'empty'])
    n = rng.randint(2, 7)
    if shape == 'one':
        n = 1
    if shape == 'unsorted4':
        n = rng.randint(2, 4)
    if shape == 'empty':
        return ('2', [], [] if rng.random() < 0.5 else [500.0], shape)
    start = rng.choice([0.0, 0.0, rng.uniform(0, 3), -rng.uniform(0, 2)])
    ts = [start]
    for _ in range(n - 1):
        ts.append(ts[-1] + rng.choice([rng.uniform(1e-4, 0.01), rng.uniform(0.1, 5), float(rng.randint(1, 20))]))
    if shape == 'dup' and n >= 3:
        j = rng.randint(1, n - 1)
        ts[j] = ts[j - 1]
    if shape == 'unsorted4':
        rng.shuffle(ts)
    Ts = [rng.choice([float(rng.randint(300, 1200)), rng.uniform(300, 1200)]) for _ in range(n)]
    if shape == 'mismatch':
        Ts = Ts[:-1] if rng.random() < 0.5 else Ts + [600.0]
    return ('2', ts, Ts, shape)


def py_args(a, diffusion=False):
    if a[0] == 's':
        return (a[1],)
    if a[0] == 'f':
        return ((ramp_fn_z if diffusion else ramp_fn)(a[1], a[2], a[3]),)
    if a[0] == 'o':
        return tuple([1.0, 2.0, 3.0][:a[1]])
    return (list(a[1]), list(a[2]))


def enc_args(a):
    if a[0] == 's':
        return 's ' + f2b(a[1])
    if a[0] == 'f':
        return 'f %s %s %s' % (f2b(a[1]), f2b(a[2]), f2b(a[3]))
    if a[0] == 'o':
        return 'o'
    return '2 %s %s' % (enc_list(a[1]), enc_list(a[2]))


def enc_op(op):
    k, a = op
    if k in ('C', 'S'):
        return k + ' ' + enc_args(a)
    if k == 'I':
        return 'I ' + f2b(a[1])
    if k == 'A':
        return 'A %s %s' % (enc_list(a[1]), enc_list(a[2]))
    return 'F %s %s %s' % (f2b(a[1]), f2b(a[2]), f2b(a[3]))


def gen_sched_case(rng, diffusion):
    ops = [('C', gen_args(rng, diffusion))]
    for _ in range(rng.choice([0, 1, 1, 2, 3, 4])):
        a = gen_args(rng, diffusion)
        direct = {'s': 'I', '2': 'A', 'f': 'F'}.get(a[0])
        if diffusion:
            if direct is None:
                continue
            ops.append((direct, a))
        elif direct is not None and rng.random() < 0.4:
            ops.append((direct, a))
        else:
            ops.append(('S', a))
    # evaluation times: around every break point (exactly on it, just off it), outside, negative, zero
    pts = [0.0, -rng.uniform(1, 1e4), rng.uniform(0, 1e5), rng.uniform(0, 50), 1e7]
    for _, a in ops:
        if a[0] == '2':
            for h in a[1]:
                pts.append(h * 3600)
                pts.append(h * 3600 + rng.uniform(-2000, 2000))
        if a[0] == 'f' and not diffusion:
            pts.append(a[3]); pts.append(a[3] + rng.uniform(0, 100))
    rng.shuffle(pts)
    times = pts[:rng.randint(4, 9)]
    z = [rng.uniform(0, 1e-3) for _ in range(rng.randint(1, 5))] if diffusion else None
    return {'family': 'sched-diff' if diffusion else 'sched-prec', 'ops': ops, 'times': times, 'z': z}


def ref_sched(a, t):
    """independent reference (seconds; right-continuous at a jump); None = outside the statement"""
    if a[0] == 's':
        return a[1]
    if a[0] == 'f':
        return a[1] if t < a[3] else a[1] + a[2] * (t - a[3])
    if a[0] != '2':
        return None
    hs, Ts = a[1], a[2]
    if len(hs) != len(Ts) or not hs or any(hs[i] > hs[i + 1] for i in range(len(hs) - 1)):
        return None
    s = [h * 3600 for h in hs]
    for j in range(len(s) - 1):
        if s[j] == s[j + 1] and abs(t - s[j]) <= 1e-9 * max(abs(s[j]), 1.0):
            return 'tie'          # exactly on a jump: left or right value decided by the rounding of t/3600
    if t <= s[0]:
        return Ts[bisect.bisect_right(s, t) - 1] if t == s[0] else Ts[0]
    if t >= s[-1]:
        return Ts[-1]
    i = bisect.bisect_right(s, t) - 1
    return Ts[i] + (Ts[i + 1] - Ts[i]) * (t - s[i]) / (s[i + 1] - s[i])


def exec_sched_case(case):
    """runs the real classes; returns per-op (flag, [value|None…]) and the constructor/setter pairs"""
    vlib.use_repo()
    diffusion = case['family'] == 'sched-diff'
    if diffusion:
        from kawin.diffusion.DiffusionParameters import TemperatureParameters as TP
    else:
        from kawin.precipitation.PrecipitationParameters import TemperatureParameters as TP
    out = []
    obj = None

    def call(o, t):
        try:
            with quiet():
                v = o(np.asarray(case['z']), t) if diffusion else o(t)
            return [float(x) for x in np.atleast_1d(v)] if diffusion else float(v)
        except Exception:
            return None

    pairs = []
    for k, a in case['ops']:
        with quiet():
            args = py_args(a, diffusion)
            if k == 'C':
                obj = TP(*args)
            elif k == 'S':
                obj.setTemperatureParameters(*args)
            elif k == 'I':
                obj.setIsothermalTemperature(*args)
            elif k == 'A':
                obj.setTemperatureArray(*args)
            else:
                obj.setTemperatureFunction(*args)
            # constructor vs setter, fresh objects
            o1 = TP(*py_args(a, diffusion))
            o2 = TP()
            if diffusion:
                {'s': o2.setIsothermalTemperature, '2': o2.setTemperatureArray, 'f': o2.setTemperatureFunction}.get(a[0], lambda *x: None)(*py_args(a, diffusion))
            else:
                o2.setTemperatureParameters(*py_args(a, diffusion))
        flag = None if diffusion else bool(obj._isIsothermal)
        out.append((flag, [call(obj, t) for t in case['times']]))
        pairs.append(((None if diffusion else bool(o1._isIsothermal), [call(o1, t) for t in case['times']]),
                      (None if diffusion else bool(o2._isIsothermal), [call(o2, t) for t in case['times']])))
    return out, pairs


def sched_line(case):
    ops = ' '.join(enc_op(o) for o in case['ops'])
    if case['family'] == 'sched-diff':
        return 'ts.diff %d %s %s %s' % (len(case['ops']), ops, enc_list(case['z']), enc_list(case['times']))
    return 'ts.prec %d %s %s' % (len(case['ops']), ops, enc_list(case['times']))


def parse_sched_answer(case, line):
    t = Toks(line)
    if not t.ok:
        return None
    diffusion = case['family'] == 'sched-diff'
    res = []
    for _ in case['ops']:
        flag = None if diffusion else t.bool()
        vals = []
        for _ in case['times']:
            if t.t[t.i] == 'E':
                t.i += 1; vals.append(None)
            else:
                vals.append(t.flts() if diffusion else t.flt())
        res.append((flag, vals))
    return res


def same_val(a, b, scale):
    if a is None or b is None:
        return a is None and b is None
    if isinstance(a, list) or isinstance(b, list):
        return isinstance(a, list) and isinstance(b, list) and len(a) == len(b) and all(close(x, y, 1e-12, 0) for x, y in zip(a, b))
    return close(a, b, 1e-12, 0)


def check_sched_case(res, case, impl, pairs, model):
    diffusion = case['family'] == 'sched-diff'
    desc = {'family': case['family'], 'ops': case['ops'], 'times': case['times'], 'z': case['z']}
    ref_flag = True
    prev_flag = True
    for i, ((k, a), (flag, vals)) in enumerate(zip(case['ops'], impl)):
        res.count('op:' + k + ':' + a[0] + (':' + a[3] if a[0] == '2' else ''))
        # ---- correspondence
        if model is not None:
            mflag, mvals = model[i]
            if mflag != flag:
                res.disagree('isothermal flag after op %d (%s %s)' % (i, k, a[0]), desc, flag, mflag)
            for t, v, mv in zip(case['times'], vals, mvals):
                if not same_val(v, mv, 0):
                    res.disagree('schedule value after op %d (%s %s) at t=%r' % (i, k, a[0], t), desc, v, mv)
                    break
        # ---- oracle: flag rule
        if not diffusion:
            if k == 'C':
                ref_flag = True
            if a[0] == 's':
                ref_flag = True
            elif a[0] in ('2', 'f'):
                ref_flag = False
            elif k != 'C':
                ref_flag = prev_flag      # a call without usable arguments leaves the flag as it was
            prev_flag = flag
            if flag != ref_flag:
                res.violate('isothermal-flag-after-%s' % ('constructor' if k == 'C' else 'setter'),
                            'a %s given through the %s leaves _isIsothermal = %s' % (
                                {'s': 'number', '2': 'break-point schedule', 'f': 'callable schedule', 'o': 'no-argument call'}[a[0]],
                                'constructor' if k == 'C' else 'setter', flag), dict(desc, op=i), flag, ref_flag)
        # ---- oracle: value = independent reference
        if a[0] != 'o':
            scale = max([abs(x) for x in a[2]] + [1.0]) if a[0] == '2' else 0.0
            for t, v in zip(case['times'], vals):
                if a[0] == 'f' and diffusion:
                    want = [a[1] + a[2] * t + a[3] * zz for zz in case['z']]
                else:
                    want = ref_sched(a, t)
                    if want is None:
                        res.count('outside-statement (malformed / unsorted break points)')
                        continue
                    if want == 'tie':
                        res.near_tie_skipped += 1
                        continue
                    if diffusion:
                        want = [want] * len(case['z'])
                if v is None:
                    res.violate('schedule-call-raises', 'a well-formed schedule raised when evaluated', dict(desc, op=i, t=t), None, want); break
                ok = (all(close(x, y, 1e-9, scale) for x, y in zip(v, want)) and len(v) == len(want)) if diffusion else close(v, want, 1e-9, scale)
                if not ok:
                    res.violate('schedule-value-%s-%s' % ({'s': 'number', '2': 'breakpoints', 'f': 'callable'}[a[0]], 'diffusion' if diffusion else 'precipitation'),
                                'T(t) differs from the specification (piecewise linear between hours*3600, constant outside)',
                                dict(desc, op=i, t=t), v, want); break
        # ---- oracle: constructor == setter
        (f1, v1), (f2, v2) = pairs[i]
        if f1 != f2:
            res.violate('ctor-vs-setter-flag', 'TemperatureParameters(args)._isIsothermal = %s but TemperatureParameters() + setTemperatureParameters(args) gives %s' % (f1, f2),
                        dict(desc, op=i, args=a), f1, f2)
        if any(not same_val(x, y, 0) for x, y in zip(v1, v2)):
            res.violate('ctor-vs-setter-function-%s' % ('diffusion' if diffusion else 'precipitation'),
                        'constructor and setter give different temperatures', dict(desc, op=i, args=a), v1, v2)


def corr_sched(ctx, res, n, oracle_only=False, cases=None):
    cases = cases or [gen_sched_case(ctx.rng, diffusion=(i % 3 == 2)) for i in range(n)]
    done = [(c, vlib.guarded(res, c['family'], c, exec_sched_case, c)) for c in cases]
    cases = [c for c, (ok, _) in done if ok]            # a case enters the protocol only after all its implementation calls succeeded
    impl = [v for _, (ok, v) in done if ok]
    model = None
    if ctx.driver_ok and not oracle_only:
        ans = vlib.run_driver(PROP, [sched_line(c) for c in cases])
        model = [parse_sched_answer(c, a) for c, a in zip(cases, ans)]
    for k, (c, (out, pairs)) in enumerate(zip(cases, impl)):
        kinds = tuple((o[0], o[1][0]) for o in c['ops'])
        res.case((c['family'], kinds, round(c['times'][0], 6)), any(o[1][0] in ('2', 'f') for o in c['ops']))
        if k < 1:
            res.sample({'family': c['family'], 'ops': c['ops'], 'times': c['times'][:3], 'impl': out[-1]})
        m = None
        if model is not None:
            m = model[k]
            if m is None:
                res.disagree('schedule model error', c, 'ok', 'err'); m = None
        check_sched_case(res, c, out, pairs, m)
    # plain np.interp against the model (sorted and <= 4 unsorted points)
    if ctx.driver_ok and not oracle_only:
        lines, want = [], []
        for _ in range(max(20, n // 4)):
            a = gen_args(ctx.rng)
            while a[0] != '2' or len(a[1]) != len(a[2]) or not a[1]:
                a = gen_args(ctx.rng)
            x = ctx.rng.choice(a[1] + [ctx.rng.uniform(min(a[1]) - 1, max(a[1]) + 1)])
            lines.append('interp %s %s %s' % (f2b(x), enc_list(a[1]), enc_list(a[2])))
            want.append((float(np.interp(x, a[1], a[2], a[2][0], a[2][-1])), x, a))
        for l, (w, x, a) in zip(vlib.run_driver(PROP, lines), want):
            t = Toks(l)
            res.count('np.interp direct')
            if not t.ok or t.t[1] == 'E' or not close(w, t.flt(), 1e-12):
                res.disagree('np.interp', {'x': x, 'xp': a[1], 'fp': a[2]}, w, l)


# ---------------------------------------------------------------- the caller's arrays
# which semantics of Model/TempSched.lean the code has: '0' = references to the caller's arrays are kept
# (`self.Tparameters = (times, temperatures)`), '1' = the contents are stored at specification time
ALIAS_MODEL = os.environ.get('C13_ALIAS_MODEL', '0')
CONTAINERS = ['list', 'i64', 'f64']


def mk_container(cont, vals):
    if cont == 'list':
        return [float(v) for v in vals]
    if cont == 'i64':
        return np.array([int(v) for v in vals], dtype=np.int64)
    return np.array([float(v) for v in vals], dtype=np.float64)


def snap(obj):
    return (type(obj).__name__, str(getattr(obj, 'dtype', '')), [float(v) for v in obj])


def gen_world_case(rng, diffusion):
    store = []
    for _ in range(rng.randint(1, 3)):
        n = rng.randint(2, 5)
        ch = rng.choice(['list', 'i64', 'f64', 'f64', 'f64'])
        if ch == 'i64':
            hs = sorted(rng.sample(range(0, 60), n))
        else:
            hs = [rng.choice([0.0, rng.uniform(0, 2)])]
            for _ in range(n - 1):
                hs.append(hs[-1] + rng.choice([rng.uniform(1e-3, 0.02), rng.uniform(0.2, 6)]))
        ct = rng.choice(['list', 'i64', 'f64', 'f64'])
        Ts = [rng.randint(300, 1200) for _ in range(n)] if ct == 'i64' else [rng.uniform(300, 1200) for _ in range(n)]
        store.append((ch, hs)); store.append((ct, Ts))
    npairs = len(store) // 2
    cur = [list(v) for _, v in store]                # evolving contents, to keep writes order-preserving
    sites = ['setTemperatureArray'] if diffusion else ['setTemperatureArray', 'setTemperatureParameters']
    j = rng.randrange(npairs)
    ops = [('C', 2 * j, 2 * j + 1)]
    nobj = 1
    for _ in range(rng.randint(2, 7)):
        # no writes by the caller AFTER a specification: what the stored schedule does then is not part of the property
        # (observation: the classes keep references, see ref_alias_witness); writes only happen BEFORE the first use of an array
        k = rng.choice(['C', 'A', 'A', 'W'])
        j = rng.randrange(npairs)
        if k == 'C':
            ops.append(('C', 2 * j, 2 * j + 1)); nobj += 1
        elif k == 'A':
            ops.append(('A', rng.randrange(nobj), 2 * j, 2 * j + 1, rng.choice(sites)))
        else:
            used = {a for o in ops for a in (o[1:3] if o[0] == 'C' else o[2:4] if o[0] == 'A' else ())}
            free = [a for a in range(len(store)) if a not in used]
            if not free:
                continue
            aid = rng.choice(free)
            cont, _ = store[aid]
            vals = cur[aid]
            i = rng.randrange(len(vals))
            if aid % 2 == 0:                         # hours: stay strictly increasing
                lo = vals[i - 1] if i > 0 else vals[i] - 2
                hi = vals[i + 1] if i + 1 < len(vals) else vals[i] + 5
                if cont == 'i64':
                    cand = [x for x in range(int(lo) + 1, int(hi)) if x != vals[i]]
                    if not cand:
                        continue
                    v = rng.choice(cand)
                else:
                    v = rng.uniform(lo + (hi - lo) * 0.1, hi - (hi - lo) * 0.1)
            else:
                v = rng.randint(300, 1200) if cont == 'i64' else rng.uniform(300, 1200)
            cur[aid][i] = v
            ops.append(('W', aid, i, float(v)))
    pts = [0.0, -rng.uniform(1, 1e4), 1e7]
    for aid in range(0, len(store), 2):
        for h in store[aid][1] + cur[aid]:
            pts.append(h * 3600 + rng.uniform(-1500, 1500))
    rng.shuffle(pts)
    z = [rng.uniform(0, 1e-3) for _ in range(rng.randint(1, 3))] if diffusion else None
    return {'family': 'sched-world', 'diffusion': diffusion, 'store': store, 'ops': ops, 'times': pts[:rng.randint(4, 8)], 'z': z}


def exec_world_case(case):
    vlib.use_repo()
    diffusion = case['diffusion']
    if diffusion:
        from kawin.diffusion.DiffusionParameters import TemperatureParameters as TP
    else:
        from kawin.precipitation.PrecipitationParameters import TemperatureParameters as TP
    store = [mk_container(c, v) for c, v in case['store']]
    objs, out = [], []

    def call(o, t):
        try:
            with quiet():
                v = o(np.asarray(case['z']), t) if diffusion else o(t)
            return [float(x) for x in np.atleast_1d(v)] if diffusion else float(v)
        except Exception:
            return None

    for op in case['ops']:
        before = [snap(a) for a in store]
        with quiet():
            if op[0] == 'C':
                objs.append(TP(store[op[1]], store[op[2]]))
            elif op[0] == 'A':
                getattr(objs[op[1]], op[4])(store[op[2]], store[op[3]])
            else:
                store[op[1]][op[2]] = op[3]
        out.append((before, [snap(a) for a in store], [[call(o, t) for t in case['times']] for o in objs]))
    return out


def world_line(case):
    ops = []
    for op in case['ops']:
        if op[0] == 'C':
            ops.append('C %d %d' % (op[1], op[2]))
        elif op[0] == 'A':
            ops.append('A %d %d %d' % (op[1], op[2], op[3]))
        else:
            ops.append('W %d %d %s' % (op[1], op[2], f2b(op[3])))
    st = ' '.join(enc_list(v) for _, v in case['store'])
    return 'ts.world %s %s %d %s %d %s %s %s' % (ALIAS_MODEL, 'D' if case['diffusion'] else 'P', len(case['store']), st,
                                                 len(ops), ' '.join(ops), enc_list(case['z'] or []), enc_list(case['times']))


def parse_world_answer(case, line):
    t = Toks(line)
    if not t.ok:
        return None
    res, nobj = [], 0
    for op in case['ops']:
        nobj += op[0] == 'C'
        st = [t.flts() for _ in case['store']]
        ev = []
        for _ in range(nobj):
            vals = []
            for _ in case['times']:
                if t.t[t.i] == 'E':
                    t.i += 1; vals.append(None)
                else:
                    vals.append(t.flts() if case['diffusion'] else t.flt())
            ev.append(vals)
        res.append((st, ev))
    return res


def check_world_case(res, case, impl, model):
    diffusion = case['diffusion']
    cls = 'diffusion' if diffusion else 'precipitation'
    desc = {k: case[k] for k in ('family', 'diffusion', 'store', 'ops', 'times', 'z')}
    refs = []          # per object: the (hours, kelvin) contents at the moment it was specified, and whether it already deviated
    for i, (op, (before, after, evals)) in enumerate(zip(case['ops'], impl)):
        res.count('world-op:' + op[0] + (':' + '+'.join(case['store'][a][0] for a in (op[-3], op[-2])) if op[0] == 'A' else
                                         ':' + '+'.join(case['store'][a][0] for a in op[1:3]) if op[0] == 'C' else ''))
        # ---- correspondence
        if model is not None:
            mst, mev = model[i]
            if [a[2] for a in after] != mst:
                res.disagree("caller's arrays after op %d %r" % (i, op), desc, [a[2] for a in after], mst)
            for o, (v, mv) in enumerate(zip(evals, mev)):
                if any(not same_val(x, y, 0) for x, y in zip(v, mv)):
                    res.disagree('object %d after op %d %r' % (o, i, op), desc, v, mv); break
        # ---- oracle: a specification returns its arguments unchanged (values, dtype, container)
        if op[0] in ('C', 'A'):
            ids = (op[1], op[2]) if op[0] == 'C' else (op[2], op[3])
            site = 'constructor' if op[0] == 'C' else op[4]
            for a in range(len(after)):
                if before[a] != after[a]:
                    res.violate('specification-modifies-argument-%s-%s-%s' % (case['store'][a][0], cls, site),
                                "%s TemperatureParameters %s(hours, kelvin) changed the caller's %s array %d in place" % (cls, site, case['store'][a][0], a),
                                dict(desc, op=i), after[a][2], before[a][2])
                    break
            new = ('2', list(before[ids[0]][2]), list(before[ids[1]][2]), 'world')
            if op[0] == 'C':
                refs.append([new, False])
            else:
                refs[op[1]] = [new, False]
        # ---- oracle: every object still is the schedule it was given (independent reference on hours*3600)
        for o, vals in enumerate(evals):
            a, dirty = refs[o]
            if dirty:
                continue
            scale = max(abs(x) for x in a[2])
            for t, v in zip(case['times'], vals):
                want = ref_sched(a, t)
                if want is None or want == 'tie':
                    res.near_tie_skipped += 1; continue
                got = v if not diffusion or v is None else v[0]
                if v is None or not close(got, want, 1e-9, scale) or (diffusion and any(x != v[0] for x in v)):
                    refs[o][1] = True
                    if op[0] == 'W':
                        res.count('schedule followed a later write of the caller (not part of the property)')
                        break
                    else:
                        site = 'constructor' if op[0] == 'C' else op[4]
                        mine = (op[0] == 'C' and o == len(evals) - 1) or (op[0] == 'A' and o == op[1])
                        key = 'schedule-wrong-after-%s-%s-%s' % ('own-specification' if mine else 'specification-of-another-object', cls, site)
                        what = ('object %d does not give the (hours, kelvin) schedule it was specified with' % o) if mine else \
                               ('specifying another object from the same arrays changed the schedule of object %d' % o)
                    res.violate(key, what, dict(desc, op=i, object=o, t=t), v, want)
                    break


def corr_world(ctx, res, n, oracle_only=False, cases=None):
    cases = cases or [gen_world_case(ctx.rng, diffusion=(i % 2 == 1)) for i in range(n)]
    done = [(c, vlib.guarded(res, c['family'] + (':diffusion' if c['diffusion'] else ':precipitation'), c, exec_world_case, c)) for c in cases]
    cases = [c for c, (ok, _) in done if ok]
    impl = [v for _, (ok, v) in done if ok]
    model = None
    if ctx.driver_ok and not oracle_only:
        model = [parse_world_answer(c, a) for c, a in zip(cases, vlib.run_driver(PROP, [world_line(c) for c in cases]))]
    for k, (c, out) in enumerate(zip(cases, impl)):
        res.case(('world', c['diffusion'], tuple(o[0] for o in c['ops']), tuple(s[0] for s in c['store']), round(c['times'][0], 6)),
                 any(o[0] == 'W' for o in c['ops']) or sum(o[0] in 'CA' for o in c['ops']) > 1)
        m = None
        if model is not None:
            m = model[k]
            if m is None:
                res.disagree('world model error', c, 'ok', 'err')
        check_world_case(res, c, out, m)


# =====================================================================================
# 2. real runs
# =====================================================================================
_THERM = {}
ATTRS = None


class _Stop(Exception):
    pass


def get_therm(method):
    vlib.use_repo()
    if method not in _THERM:
        with quiet():
            from kawin.tests.datasets import ALZR_TDB
            from kawin.thermo import BinaryThermodynamics
            th = BinaryThermodynamics(ALZR_TDB, ['AL', 'ZR'], ['FCC_A1', 'AL3ZR'], drivingForceMethod='tangent', interfacialCompMethod=method)
            th.setDFSamplingDensity(2000)
            th.setEQSamplingDensity(500)
            D0, Q = 0.0768, 242000
            th.setDiffusivity(lambda T: D0 * np.exp(-Q / (8.314 * T)), 'FCC_A1')
        _THERM[method] = th
    return _THERM[method]


def spec_args(spec):
    """run-schedule spec -> Args tuple understood by py_args / ref_sched"""
    if spec[0] == 'iso':
        return ('s', spec[1])
    if spec[0] == 'two':
        return ('2', list(spec[1]), list(spec[2]), 'run')
    if spec[0] == 'fn':
        return ('f', spec[1], spec[2], spec[3])
    raise ValueError(spec)


def gen_run_case(rng, kind, thorough=False):
    maxTC = rng.choice([1.0, 1.0, 0.5, 2.5])
    solver = rng.choice(['euler', 'euler', 'rk4'])
    mode = rng.choice(['fixed', 'fixed', 'free'])
    T0 = rng.uniform(690, 740)
    n = rng.randint(30, 60)
    dt = rng.choice([0.01, 0.1, 1.0]) if mode == 'fixed' else 0.01     # the solver's own first steps are ~0.01 s
    sign = rng.choice([1, -1])
    if kind.endswith('-heat'):
        sign = 1
    if kind.endswith('-cool'):
        sign = -1
    sim = n * dt
    if kind.startswith('slow'):
        per = sign * rng.uniform(0.05, 0.6) * maxTC          # per-step change below the threshold
        n = max(n, int(4.5 * maxTC / abs(per)) + 3)           # drift several thresholds
        n = min(n, 140)
        sim = n * dt
        spec = ('fn', T0, per / dt, 0.0) if (rng.random() < 0.5 and mode == 'fixed') else ('two', [0.0, sim / 3600], [T0, T0 + per * n])
    elif kind.startswith('fast'):
        per = sign * rng.uniform(1.3, 4.0) * maxTC
        n = rng.randint(8, 18); sim = n * dt
        spec = ('fn', T0, per / dt, 0.0) if (rng.random() < 0.5 and mode == 'fixed') else ('two', [0.0, sim / 3600], [T0, T0 + per * n])
    elif kind == 'hold-ramp-hold':
        n = rng.randint(40, 70); sim = n * dt
        a, b = sorted([rng.uniform(0.1, 0.45), rng.uniform(0.55, 0.9)])
        dT = sign * rng.uniform(3, 9) * maxTC
        spec = ('two', [0.0, a * sim / 3600, b * sim / 3600, sim / 3600], [T0, T0, T0 + dT, T0 + dT])
    elif kind == 'jump':
        n = rng.randint(20, 40); sim = n * dt
        a = rng.uniform(0.2, 0.7) * sim
        dT = sign * rng.uniform(1.5, 12) * maxTC
        spec = ('two', [0.0, a / 3600, a / 3600, sim / 3600], [T0, T0, T0 + dT, T0 + dT])
    elif kind == 'zigzag':
        n = rng.randint(50, 90); sim = n * dt
        k = rng.randint(3, 6)
        hs = sorted(rng.uniform(0, sim) for _ in range(k))
        hs = [0.0] + hs
        Ts = [T0 + rng.uniform(-4, 4) * maxTC for _ in hs]
        spec = ('two', [h / 3600 for h in hs], Ts)
    elif kind == 'wiggle':
        # oscillation that stays within the threshold of the build temperature (no rebuild) while the size grid is
        # extended at different phases of it: entries of different age sit side by side in the table
        n = rng.randint(50, 80); sim = n * dt
        half = rng.randint(3, 7) * dt
        A = rng.uniform(0.7, 0.98) * maxTC
        ks = int(sim / half) + 2
        spec = ('two', [k * half / 3600 for k in range(ks)], [T0] + [T0 + A * (1 if k % 2 else -1) for k in range(1, ks)])
    elif kind == 'iso':
        spec = ('iso', T0)
    else:
        raise ValueError(kind)
    pbm = rng.choice(['std', 'std', 'small'])
    if kind == 'wiggle':
        pbm, mode = 'small', 'fixed'
    return {'family': 'run', 'kind': kind, 'spec': spec, 'via': rng.choice(['ctor', 'setter']), 'solver': solver, 'mode': mode,
            'n': n, 'sim': sim, 'maxTC': maxTC, 'method': 'curvature', 'pbm': pbm, 'preload': pbm == 'small',
            'solves': rng.choice([1, 1, 2]), 'poke': pbm == 'small', 'container': rng.choice(['list', 'f64'])}


def run_args(case):
    """the objects handed to kawin for this run's schedule; break points as lists or as float64 ndarrays"""
    a = spec_args(case['spec'])
    args = py_args(a)
    if a[0] == '2' and case.get('container', 'list') == 'f64':
        args = (np.array(args[0], dtype=np.float64), np.array(args[1], dtype=np.float64))
    return args


def make_model(case, args=None):
    vlib.use_repo()
    from kawin.precipitation import PrecipitateModel, VolumeParameter, TemperatureParameters
    therm = get_therm(case['method'])
    a = spec_args(case['spec'])
    args = run_args(case) if args is None else args
    kw = {}
    if case['via'] == 'ctor':
        kw['temperatureParameters'] = TemperatureParameters(*args)
    m = PrecipitateModel(phases=['AL3ZR'], elements=['ZR'], **kw)
    if case['pbm'] == 'small':
        m.setPBMParameters(cMin=1e-10, cMax=2e-9, bins=20, minBins=10, maxBins=28)
    else:
        m.setPBMParameters(cMin=1e-10, cMax=1e-8, bins=75, minBins=50, maxBins=100)
    m.setInitialComposition(4e-3)
    m.setInterfacialEnergy(0.1)
    va = 0.405e-9 ** 3
    m.setVolumeAlpha(va, VolumeParameter.ATOMIC_VOLUME, 4)
    m.setVolumeBeta(va, VolumeParameter.ATOMIC_VOLUME, 4)
    m.setNucleationDensity(grainSize=1, dislocationDensity=1e15)
    m.setNucleationSite('dislocations')
    m.setThermodynamics(therm)
    if case['via'] == 'setter':
        m.setTemperature(*args)
    m.setConstraints(maxTempChange=case['maxTC'])
    m._c13_args = args
    return m


def args_unchanged(res, case, args, where):
    """the break-point arrays handed to kawin still hold what the case specified"""
    a = spec_args(case['spec'])
    if a[0] != '2':
        return True
    for name, given, want in (('hours', args[0], a[1]), ('kelvin', args[1], a[2])):
        got = [float(x) for x in given]
        if got != [float(x) for x in want]:
            res.violate('specification-modifies-argument-%s-precipitation-%s' % (case.get('container', 'list'), where),
                        "the caller's %s array (%s) was changed in place by specifying / running the schedule (%s)" % (name, case.get('container', 'list'), where),
                        {k: case[k] for k in case}, got, [float(x) for x in want])
            return False
    return True


def traced_run(case, args=None):
    """runs the real model with run-time wrappers; returns the log"""
    with quiet():
        m = make_model(case, args)
    from kawin.solver import SolverType
    therm = m.therm
    therm.clearCache()     # warm-start data of earlier runs changes results in the 13th digit: every run starts cold (replayable, pairs comparable)
    ev = []            # events in call order
    st = {'depth_build': 0, 'in_growth': 0, 'in_psd': 0, 'in_setup': 0, 'in_post': 0, 'builds': 0, 'steps': 0}
    tags = []          # build temperature of every block now in the table (shadow of the logged calls)
    xeq_of = {}        # returned xEqAlpha value -> temperature of the build that produced it
    lag = {'calls': 0, 'beyond': 0}

    o_build, o_growth, o_dep = m._createLookupBinary, m._growthRateBinary, m._calculateDependentTerms
    o_pre, o_post, o_append, o_psd, o_setup, o_mb = m.preProcess, m.postProcess, m._appendArrays, m._updateParticleSizeDistribution, m.setup, m._calcMassBalance
    o_gic = therm.getInterfacialComposition

    def w_build(T):
        st['depth_build'] += 1
        try:
            r = o_build(T)
        finally:
            st['depth_build'] -= 1
        st['builds'] += 1
        tags[:] = [float(T)]
        xa = float(np.asarray(r[0]).ravel()[0])
        xeq_of.setdefault(xa, float(T))
        if not st['in_growth']:
            ev.append(('build', float(T), 'setup' if st['in_setup'] else 'psd' if st['in_psd'] else '?'))
        return r

    def w_gic(T, gExtra=0, precPhase=None):
        if st['depth_build'] == 0 and st['in_psd']:
            tags.append(float(np.atleast_1d(T)[0]))
            ev.append(('extend', float(np.atleast_1d(T)[0]), int(np.size(gExtra))))
        return o_gic(T, gExtra, precPhase=precPhase)

    def w_growth(Y):
        T = float(Y.temperature[0]); Trec = float(m.pData.temperature[m.pData.n])
        b0 = st['builds']
        st['in_growth'] += 1
        try:
            r = o_growth(Y)
        finally:
            st['in_growth'] -= 1
        xa = float(np.asarray(r[1].xEqAlpha).ravel()[0])
        lt = getattr(m, '_lookupTemperature', None)
        ev.append(('growth', T, Trec, st['builds'] > b0, float(m.dTemp), None if lt is None else float(lt), xa, xeq_of.get(xa), list(tags)))
        return r

    def w_dep(t, x):
        ev.append(('dep', float(t), m._currY is None, bool(st['in_post'])))
        return o_dep(t, x)

    def w_pre():
        ev.append(('pre',))
        return o_pre()

    def w_post(t, x):
        st['in_post'] += 1
        try:
            return o_post(t, x)
        finally:
            st['in_post'] -= 1

    def w_append(newVals):
        ev.append(('append',))
        return o_append(newVals)

    def w_psd(t, x):
        st['in_psd'] += 1
        try:
            return o_psd(t, x)
        finally:
            st['in_psd'] -= 1

    def w_setup():
        st['in_setup'] += 1
        try:
            return o_setup()
        finally:
            st['in_setup'] -= 1

    def w_mb(t, x, Y):
        T = float(Y.temperature[0])
        lag['calls'] += 1
        if any(abs(T - g) > case['maxTC'] for g in tags):
            lag['beyond'] += 1
        return o_mb(t, x, Y)

    m._createLookupBinary, m._growthRateBinary, m._calculateDependentTerms = w_build, w_growth, w_dep
    m.preProcess, m.postProcess, m._appendArrays, m._updateParticleSizeDistribution, m.setup, m._calcMassBalance = w_pre, w_post, w_append, w_psd, w_setup, w_mb
    therm.getInterfacialComposition = w_gic

    checks = []        # independent thermodynamic brackets taken during the run

    class Obs:
        def updateCoupledModel(s, mm):
            st['steps'] += 1
            if case.get('poke') and st['steps'] % 7 == 3:
                mm.PBM[0].PSD[-1] = 1e12      # particles reach the last class -> the grid is extended / re-meshed by the real code
            if st['steps'] >= case['n']:
                raise _Stop()

    m.addCouplingModel(Obs())
    err = None
    try:
        with quiet():
            m.setup()
            if case.get('preload'):
                r = m.PBM[0].PSDsize
                m.PBM[0].PSD = 1e18 * np.exp(-np.log(r / (0.6 * r[-1])) ** 2 / (2 * 0.25 ** 2))
            stype = SolverType.RK4 if case['solver'] == 'rk4' else SolverType.EXPLICITEULER
            for _ in range(case['solves']):
                sim = case['sim'] / case['solves'] * (1 if case['mode'] == 'fixed' else 200)
                nper = max(1, int(round(case['n'] / case['solves'])))
                if case['mode'] == 'fixed':
                    m.solve(sim, solverType=stype, minDtFrac=1.0 / nper, maxDtFrac=1.0 / nper)
                else:
                    m.solve(sim, solverType=stype)
    except _Stop:
        pass
    except Exception as e:       # a crash of the real code is reported (with its site), not hidden; a harness bug is re-raised
        import traceback
        tb = traceback.format_exc()
        if not vlib.in_repo_traceback(tb):
            raise
        site = [l.strip() for l in tb.splitlines() if l.strip().startswith('File "%s' % vlib.REPO)]
        err = (type(e).__name__, repr(e)[:200], site[-1] if site else None)
    finally:
        del therm.getInterfacialComposition
    return {'model': m, 'events': ev, 'lag': lag, 'err': err, 'xeq_of': xeq_of, 'o_gic': o_gic}


def events_to_ops(ev):
    """solver-level events -> Lookup ops; also the list of growth-call logs in order"""
    ops, growth, times = [], [], [0.0]
    problems = []
    i = 0
    seen_setup_build = False
    for e in ev:
        k = e[0]
        if k == 'pre':
            ops.append(('p',))
        elif k == 'dep':
            times.append(e[1])
            ops.append(('P' if e[3] else 'd', e[1]))
        elif k == 'append':
            if not ops or ops[-1][0] != 'P':
                problems.append('append without a preceding postProcess evaluation')
        elif k == 'build':
            if e[2] == 'setup':
                if seen_setup_build:
                    problems.append('second lookup build in setup')
                seen_setup_build = True
            elif e[2] == 'psd':
                ops.append(('r', e[1]))
            else:
                problems.append('lookup build at an unknown call site')
        elif k == 'extend':
            ops.append(('e', e[1]))
        elif k == 'growth':
            growth.append(e)
    return ops, growth, times, problems


def check_run(ctx, res, case, oracle_only=False):
    out = traced_run(case)
    m, ev = out['model'], out['events']
    pd = m.pData
    desc = {k: case[k] for k in case}
    fp = (case['kind'], case['solver'], case['mode'], case['via'], case['spec'][0], round(case['maxTC'], 3), case['n'], round(case['sim'], 6), case['pbm'])
    args = spec_args(case['spec'])
    nonisothermal = case['spec'][0] != 'iso'
    T = np.asarray(pd.temperature, dtype=float); tm = np.asarray(pd.time, dtype=float)
    res.case(fp, nonisothermal and len(tm) > 5)
    res.traces += 1
    res.count('run:' + case['kind']); res.count('solver:' + case['solver']); res.count('dt:' + case['mode']); res.count('via:' + case['via'])
    res.count('steps recorded', len(tm) - 1)
    if out['err']:
        res.violate('raises:run-%s:%s' % (case['solver'], out['err'][0]), 'the run raised %s at %s' % (out['err'][1], out['err'][2]), desc)
        return out
    res.count('container:' + case.get('container', 'list'))
    args_unchanged(res, case, m._c13_args, 'constructor' if case['via'] == 'ctor' else 'setTemperature')
    ops, growth, times, problems = events_to_ops(ev)
    for p in problems:
        res.disagree('call sequence: ' + p, desc, p, 'grammar of Model/Lookup.lean')
    nb = sum(1 for g in growth if g[3]); res.count('growth-rate calls', len(growth)); res.count('lookup rebuilds in growth calls', nb)
    res.count('re-mesh rebuilds', sum(1 for o in ops if o[0] == 'r')); res.count('grid extensions', sum(1 for o in ops if o[0] == 'e'))
    res.count('massbalance calls', out['lag']['calls']); res.count('massbalance-table-beyond-threshold', out['lag']['beyond'])
    mx = case['maxTC']

    # ---------------- direct oracle 1: recorded temperature = schedule(time)
    scale = max(abs(x) for x in (args[2] if args[0] == '2' else [args[1]]))
    for i in range(len(tm)):
        want = ref_sched(args, float(tm[i]))
        if want == 'tie':
            res.near_tie_skipped += 1; continue
        if not close(T[i], want, 1e-9, scale):
            res.violate('recorded-temperature-%s' % ('setup-slice' if i == 0 else 'step'),
                        'pData.temperature[%d] is not the schedule at pData.time[%d]' % (i, i), dict(desc, index=i, time=float(tm[i])), float(T[i]), want)
            break
    if tm[0] != 0.0:
        res.violate('setup-time', 'setup slice is not at time 0', desc, float(tm[0]), 0.0)
    # isothermal flag as the run sees it
    if bool(m.temperatureParameters._isIsothermal) != (not nonisothermal):
        res.violate('incubation-treatment-%s' % case['via'], 'schedule given through the %s: _isIsothermal = %s, so the %s incubation time is used' % (
            case['via'], m.temperatureParameters._isIsothermal, 'isothermal' if m.temperatureParameters._isIsothermal else 'non-isothermal'), desc,
            bool(m.temperatureParameters._isIsothermal), not nonisothermal)

    # ---------------- direct oracle 2: freshness on the logged build temperatures
    for j, g in enumerate(growth):
        _, Tc, Trec, rebuilt, dT, lt, xa, xtag, tg = g
        stale = [t for t in tg if abs(Tc - t) > mx]
        if stale:
            res.violate('lookup-table-stale-%s' % case['kind'].split('-')[0],
                        'growth-rate call %d at T = %.6f reads table entries computed at %s (maxTempChange = %g)' % (j, Tc, stale[:3], mx),
                        dict(desc, call=j), [Tc] + stale[:3], '|T - T_table| <= %g' % mx)
            break
    for j, g in enumerate(growth):
        _, Tc, Trec, rebuilt, dT, lt, xa, xtag, tg = g
        if xa == 0.0:
            res.count('xEq = 0 (no two-phase equilibrium), skipped'); continue
        if xtag is None:
            res.violate('xeq-from-no-build', 'growth-rate call %d handed out an xEqAlpha that no lookup build returned' % j, dict(desc, call=j), xa, None); break
        if abs(Tc - xtag) > mx:
            res.violate('lookup-xeq-stale-%s' % case['kind'].split('-')[0],
                        'growth-rate call %d at T = %.6f hands out xEq computed at %.6f (maxTempChange = %g)' % (j, Tc, xtag, mx),
                        dict(desc, call=j), [Tc, xtag], '|T - T_xeq| <= %g' % mx)
            break
    # recorded slices: xEqAlpha computed within maxTempChange of the recorded temperature
    xeA = np.asarray(pd.xEqAlpha, dtype=float)[:, 0, 0]
    rec_tag = [out['xeq_of'].get(float(v)) for v in xeA]
    for i, (v, tg) in enumerate(zip(xeA, rec_tag)):
        if v == 0.0:
            continue
        if tg is None or abs(T[i] - tg) > mx:
            res.violate('recorded-xeq-stale-%s' % case['kind'].split('-')[0], 'pData.xEqAlpha[%d] (T = %.6f) was computed at %s' % (i, T[i], tg),
                        dict(desc, index=i), [float(T[i]), tg], '|T - T_xeq| <= %g' % mx)
            break
    # ---------------- direct oracle 3: independent thermodynamic bracket (solubility increases with T)
    gic = out['o_gic']
    idx = sorted(set([0, len(tm) - 1] + [ctx.rng.randrange(len(tm)) for _ in range(ctx.n(4, 10))]))
    with quiet():
        for i in idx:
            if xeA[i] == 0.0:
                continue
            lo = float(gic(T[i] - mx * (1 + 1e-9) - 1e-9, 0)[0]); hi = float(gic(T[i] + mx * (1 + 1e-9) + 1e-9, 0)[0])
            res.count('thermodynamic brackets')
            if lo < 0 or hi < 0 or not lo < hi:
                res.near_tie_skipped += 1; continue
            if not (lo * (1 - 1e-9) <= xeA[i] <= hi * (1 + 1e-9)):
                res.violate('recorded-xeq-outside-bracket-%s' % case['kind'].split('-')[0],
                            'pData.xEqAlpha[%d] is not an equilibrium composition of any temperature within maxTempChange of pData.temperature[%d] = %.6f' % (i, i, T[i]),
                            dict(desc, index=i), float(xeA[i]), [lo, hi])
                break
        # final table against fresh evaluations at T -/+ maxTempChange (cheap interfacial method only)
        if case['method'] == 'curvature' and len(m.PSDXalpha[0]) == m.PBM[0].bins + 1:
            gE = m.particleGibbs(m.PBM[0].PSDbounds, m.precipitateParameters[0].phase)
            Tn = float(T[-1])
            lo = np.atleast_1d(gic(Tn - mx * (1 + 1e-9) - 1e-9, np.array(gE))[0]); hi = np.atleast_1d(gic(Tn + mx * (1 + 1e-9) + 1e-9, np.array(gE))[0])
            tab = m.PSDXalpha[0][:, 0]
            k0 = int(m.RdrivingForceIndex[0]) + 1
            for i in range(k0, len(tab)):
                if lo[i] < 0 or hi[i] < 0 or not lo[i] < hi[i] or tab[i] <= 0 or tab[i] >= 1 or lo[i] <= 0 or hi[i] >= 1:
                    res.near_tie_skipped += 1; continue
                res.count('table entries bracketed')
                if not (lo[i] * (1 - 1e-9) <= tab[i] <= hi[i] * (1 + 1e-9)):
                    res.violate('final-table-outside-bracket-%s' % case['kind'].split('-')[0],
                                'PSDXalpha[%d] at the end of the run is not the interfacial composition of any temperature within maxTempChange of the current %.6f' % (i, Tn),
                                dict(desc, index=i), float(tab[i]), [float(lo[i]), float(hi[i])])
                    break

    # ---------------- trace refinement against KawinV.Lookup
    if ctx.driver_ok and not oracle_only:
        tp = m.temperatureParameters
        with quiet():
            pairs = []
            for t in dict.fromkeys(times):
                pairs.append((t, float(tp(t))))
        opl = []
        for o in ops:
            opl.append({'p': 'p', 'r': 'r', 'e': 'e'}.get(o[0]) or '%s %s' % (o[0], f2b(o[1])))
        line = 'lk.run %s %s %d %s %d %s' % (VARIANT, f2b(mx), len(pairs), ' '.join('%s %s' % (f2b(a), f2b(b)) for a, b in pairs), len(opl), ' '.join(opl))
        ans = Toks(vlib.run_driver(PROP, [line])[0])
        if not ans.ok:
            res.disagree('lookup model error', desc, 'ok', ans.err)
        else:
            nobs = ans.nat()
            mobs = []
            for _ in range(nobs):
                mobs.append((ans.flt(), ans.bool(), ans.flt(), ans.flt(), ans.flts()))
            nsl = ans.nat()
            msl = [(ans.flt(), ans.flt(), ans.flt()) for _ in range(nsl)]
            if nobs != len(growth):
                res.disagree('number of growth-rate calls', desc, len(growth), nobs)
            for j, (g, mo) in enumerate(zip(growth, mobs)):
                _, Tc, Trec, rebuilt, dT, lt, xa, xtag, tg = g
                bad = None
                if mo[0] != Tc:
                    bad = ('temperature of the call', Tc, mo[0])
                elif mo[1] != rebuilt:
                    bad = ('table rebuilt in the call', rebuilt, mo[1])
                elif xa != 0.0 and mo[2] != xtag:
                    bad = ('temperature the handed-out xEq was computed at', xtag, mo[2])
                elif not close(mo[3], dT, 1e-12, 1e-300):
                    bad = ('dTemp after the call', dT, mo[3])
                elif list(mo[4]) != list(tg):
                    bad = ('build temperatures of the table blocks', tg, mo[4])
                elif VARIANT == '0':
                    pass
                elif lt is None:
                    bad = ('_lookupTemperature attribute', None, 'set by _createLookupBinary')
                elif not rebuilt and not close(Tc - lt, dT, 1e-12, 1e-300):
                    bad = ('dTemp = T - _lookupTemperature', dT, Tc - lt)
                if bad:
                    res.disagree('growth-rate call %d: %s' % (j, bad[0]), dict(desc, call=j, T=Tc, Trec=Trec), bad[1], bad[2])
                    break
            # re-mesh / extension temperatures as logged vs as the model has them
            if nsl != len(tm):
                res.disagree('number of recorded slices', desc, len(tm), nsl)
            else:
                for i, (a, b, c) in enumerate(msl):
                    if a != tm[i] or b != T[i] or (xeA[i] != 0.0 and c != rec_tag[i]):
                        res.disagree('recorded slice %d (time, temperature, xEq build temperature)' % i, desc, [float(tm[i]), float(T[i]), rec_tag[i]], [a, b, c])
                        break
            # extension / re-mesh temperatures: model says extend at T_lookup, re-mesh at the recorded temperature
    return out


ATTRIBUTES = ['time', 'temperature', 'composition', 'xEqAlpha', 'xEqBeta', 'drivingForce', 'impingement', 'Gcrit', 'Rcrit',
              'nucRate', 'precipitateDensity', 'Rnuc', 'Ravg', 'ARavg', 'volFrac', 'fconc']


def check_pair(ctx, res, case):
    """the same schedule through the constructor object and through the setter: identical runs"""
    a = dict(case, via='ctor'); b = dict(case, via='setter')
    # the user keeps ONE pair of break-point arrays and uses it for both models (float64 ndarrays or lists)
    shared = run_args(case)
    ra = traced_run(a, shared); rb = traced_run(b, shared)
    res.count('paired ctor/setter runs'); res.count('paired container:' + case.get('container', 'list'))
    ma, mb = ra['model'], rb['model']
    desc = {k: case[k] for k in case if k != 'via'}
    if ra['err'] or rb['err']:
        e = ra['err'] or rb['err']
        res.violate('raises:paired-run-%s:%s' % (case['solver'], e[0]), 'paired run raised %s at %s' % (e[1], e[2]), desc); return
    args_unchanged(res, desc, shared, 'constructor+setTemperature')
    sa = spec_args(case['spec'])
    scale = max(abs(x) for x in (sa[2] if sa[0] == '2' else [sa[1]]))
    for name, mm in (('constructor', ma), ('setter', mb)):
        # both the recorded temperatures and the schedule objects after the runs, against the independent reference
        tt = [float(x) for x in mm.pData.time]
        rec = [float(x) for x in mm.pData.temperature]
        with quiet():
            aft = [float(mm.temperatureParameters(t)) for t in tt]
        for i, t in enumerate(tt):
            want = ref_sched(sa, t)
            if want == 'tie':
                res.near_tie_skipped += 1; continue
            if not close(rec[i], want, 1e-9, scale) or not close(aft[i], want, 1e-9, scale):
                res.violate('paired-run-temperature-%s' % name,
                            'one pair of break-point arrays used for a constructor model and a setter model: the %s model %s at t = %r is not the schedule' % (
                                name, 'recorded temperature' if not close(rec[i], want, 1e-9, scale) else 'schedule object evaluated after the runs', t),
                            dict(desc, index=i), [rec[i], aft[i]], want)
                break
    fa, fb = bool(ma.temperatureParameters._isIsothermal), bool(mb.temperatureParameters._isIsothermal)
    if fa != fb:
        res.violate('paired-run-flag', 'same schedule: constructor object has _isIsothermal = %s, setter %s' % (fa, fb), desc, fa, fb)
    for name in ATTRIBUTES:
        x, y = np.asarray(getattr(ma.pData, name)), np.asarray(getattr(mb.pData, name))
        if x.shape != y.shape or not np.array_equal(x, y, equal_nan=True):
            k = 0
            if x.shape == y.shape:
                d = np.argwhere(~((x == y) | (np.isnan(x) & np.isnan(y))))
                k = int(d[0][0]) if len(d) else 0
            res.violate('paired-run-differs-%s' % name, 'same schedule through constructor and setter: pData.%s differs (first at step %d)' % (name, k),
                        dict(desc, attribute=name, step=k), x.shape if x.shape != y.shape else float(x.reshape(len(x), -1)[k][0]),
                        y.shape if x.shape != y.shape else float(y.reshape(len(y), -1)[k][0]))
            break


# =====================================================================================
# 3. diffusion runs under a schedule
# =====================================================================================
# SinglePhaseModel / HomogenizationModel evaluate `T = temperatureParameters(z, t)` at every evaluation of the fluxes and then go,
# node by node, through the (composition, temperature) HashTable in front of the thermodynamics.  Lean: TempSched.runDiff over
# HashCache.Table; theorems diffusion_hands_over_schedule, diffusion_value_in_use_has_equal_key,
# schedule_followed_to_cache_resolution, schedule_within_kelvin_collides (Props/C13.lean, section 6).
R_GAS = 8.314462618
# which key of Model/TempSched.lean the traces are replayed through: 0 = the code (every component of x ++ [T] times 10^s, int64),
# 1 = temperature left unscaled (only used by hand, to confirm the model of such a variant against a changed tree)
KEY_VARIANT = os.environ.get('C13_KEY_VARIANT', '0')
_DTHERM = {}


class _Ns:
    pass


class ArrhTherm:
    """duck-typed thermodynamics with Arrhenius kinetics (1.5 - 4 % per kelvin near 1000 K), smooth in composition: what
    SinglePhaseModel reads (getInterdiffusivity, clearCache) and what `_computeSingleMobility` reads on a cache miss
    (getEq(...).eq.MU / get_composition_sets(), mobCallables, mobility_correction, elements, phases, numElements)."""

    def __init__(self, elements, seed):
        import random
        q = random.Random(seed)
        self.user = list(elements)
        self.elements = list(elements) + ['VA']
        self.numElements = len(elements)
        self.phases = ['ALPHA']
        self.mobility_correction = None
        E = self.numElements - 1
        self.D0 = 10 ** q.uniform(-5, -3)
        self.Q = q.uniform(1.5e5, 3.0e5)
        self.a = [q.uniform(-0.8, 1.5) for _ in range(E)]
        self.base = np.array([[1.0 if i == j else q.uniform(-0.2, 0.2) for j in range(E)] for i in range(E)]) * np.array([[q.uniform(0.5, 1.0)] for _ in range(E)])
        self.alpha = sorted(elements)                       # pycalphad lists components alphabetically
        self.pos = [self.alpha.index(e) for e in elements]
        self.mu0 = [q.uniform(-8e4, -2e4) for _ in elements]
        self.L = q.uniform(-1.5e4, 1.5e4)
        self.mob = {el: (10 ** q.uniform(-9, -6), q.uniform(1.5e5, 3.0e5), q.uniform(-0.5, 0.5)) for el in self.alpha}
        self.mobCallables = {'ALPHA': {el: self._mk(j, *self.mob[el]) for j, el in enumerate(self.alpha)}}

    @staticmethod
    def _mk(j, m0, Q, k):
        return lambda dof: m0 * math.exp(-Q / (R_GAS * dof[0])) * (1 + k * dof[1 + j])

    def clearCache(self):
        pass

    def factor(self, x, T):
        return self.D0 * math.exp(-self.Q / (R_GAS * float(T))) * (1 + sum(a * float(v) for a, v in zip(self.a, np.atleast_1d(x))))

    def getInterdiffusivity(self, x, T, removeCache=True, phase=None):
        f = self.factor(x, T)
        return np.array(f) if self.numElements == 2 else f * self.base

    def lipschitz(self, x, T, dx, dT):
        """bound of the relative change of getInterdiffusivity when every composition moves by dx and the temperature by dT"""
        g = 1 + sum(a * float(v) for a, v in zip(self.a, np.atleast_1d(x)))
        return sum(abs(a) for a in self.a) * dx / (g - sum(abs(a) for a in self.a) * dx) + math.expm1(self.Q / (R_GAS * float(T) * (float(T) - dT)) * dT)

    def getEq(self, x, T, gExtra=0, precPhase=None):
        x = [float(v) for v in np.atleast_1d(x)]
        T = float(T)
        user = [1.0 - sum(x)] + x
        full = [0.0] * self.numElements
        for i, v in enumerate(user):
            full[self.pos[i]] = v
        mu = [0.0] * self.numElements
        for i, v in enumerate(user):
            mu[self.pos[i]] = self.mu0[i] + R_GAS * T * math.log(max(v, 1e-300)) + self.L * (1 - v) ** 2
        cs = _Ns()
        cs.phase_record = _Ns()
        cs.phase_record.phase_name = 'ALPHA'
        cs.phase_record.nonvacant_elements = list(self.alpha)
        cs.NP = 1.0
        cs.X = list(full)
        cs.dof = np.array([T] + full, dtype=np.float64)
        wks = _Ns()
        wks.eq = _Ns()
        wks.eq.MU = np.array([[mu]])
        wks.get_composition_sets = lambda: [cs]
        return wks


def drun_therm(case):
    """the thermodynamics object of a diffusion-run case and the phase list of the model"""
    vlib.use_repo()
    k = case['therm']
    if k == 'arrh':
        return ArrhTherm(case['elements'], case['thseed']), ['ALPHA']
    if k not in _DTHERM:
        with quiet():
            from kawin.tests.datasets import NICRAL_TDB
            from kawin.thermo import GeneralThermodynamics
            _DTHERM[k] = GeneralThermodynamics(NICRAL_TDB, list(case['elements']), ['FCC_A1', 'BCC_A2'])
    return _DTHERM[k], (['FCC_A1'] if case['model'] == 'single' else ['FCC_A1', 'BCC_A2'])


def drun_spec_args(spec):
    if spec[0] == 'iso':
        return ('s', spec[1])
    if spec[0] == 'two':
        return ('2', list(spec[1]), list(spec[2]), 'run')
    return ('f', spec[1], spec[2], spec[3])


def drun_ref_T(case, z, t):
    """independent reference: the schedule of the case at time t (seconds) for every node; None on a tie"""
    a = drun_spec_args(case['spec'])
    if a[0] == 'f':
        return [a[1] + a[2] * t + a[3] * float(zz) for zz in z]
    v = ref_sched(a, t)
    return None if v == 'tie' or v is None else [v] * len(z)


def drun_build(case, via=None):
    vlib.use_repo()
    from kawin.diffusion import SinglePhaseModel, HomogenizationModel
    from kawin.diffusion.DiffusionParameters import TemperatureParameters, CompositionProfile
    via = via or case['via']
    therm, phases = drun_therm(case)
    prof = CompositionProfile()
    for el, p in zip(case['elements'][1:], case['profile']):
        if p[0] == 'linear':
            prof.addLinearCompositionStep(el, p[1], p[2])
        else:
            prof.addStepCompositionStep(el, p[1], p[2], p[3])
    a = drun_spec_args(case['spec'])
    args = py_args(a, diffusion=True)

    def user_fn(z, t):           # the user's own function of (z, t) for a schedule that is not of the callable kind
        return np.array([ref_sched(a, t)] * len(z), dtype=float)

    fn = args[0] if a[0] == 'f' else user_fn
    kw = {}
    if via == 'ctor':
        kw['temperatureParameters'] = TemperatureParameters(*args)
    elif via == 'ctor-function':
        kw['temperatureParameters'] = TemperatureParameters(fn)
    cls = SinglePhaseModel if case['model'] == 'single' else HomogenizationModel
    m = cls(list(case['zlim']), case['N'], list(case['elements']), phases, thermodynamics=therm, compositionProfile=prof, **kw)
    if via == 'array':
        m.setTemperatureArray(*args)
    elif via == 'function':
        m.setTemperatureFunction(fn)
    elif via == 'setT':
        m.setTemperature(*args)
    elif via not in ('ctor', 'ctor-function'):
        raise ValueError(via)
    return m, therm


VIAS = {'iso': ['setT', 'ctor', 'function'], 'two': ['array', 'ctor', 'function', 'ctor-function'], 'fn': ['function', 'ctor']}


def drun_sched_ops(case, via):
    """the constructor/setter sequence of the diffusion TemperatureParameters as the model's op list"""
    a = drun_spec_args(case['spec'])
    if via in ('function', 'ctor-function') and a[0] != 'f':
        return None                                   # a user-written function outside the callable family of the driver
    if via in ('ctor', 'ctor-function'):
        return [('C', a)]
    return [('C', ('o', 0)), ({'s': 'I', '2': 'A', 'f': 'F'}[a[0]], a)]


def drun_apply_ctl(m, ops):
    for o in ops:
        if o[0] == 'use':
            m.useCache(o[1])
        elif o[0] == 'clear':
            m.clearCache()
        elif o[0] == 'sens':
            m.setHashSensitivity(o[1])
        else:
            raise ValueError(o)


def drun_trace(case, via=None, cache_off=False):
    """runs the real model with run-time wrappers (hash table, thermodynamics, _getFluxes); returns the log"""
    with quiet():
        m, therm = drun_build(case, via)
    from kawin.solver import SolverType
    single = case['model'] == 'single'
    ht = m.hashTable
    events = []
    st = {'cur': None, 'steps': 0}
    prov, keep, pending = {}, [], []
    o_ret, o_add, o_en, o_cl, o_ss, o_flux = ht.retrieveFromHashTable, ht.addToHashTable, ht.enableCaching, ht.clearCache, ht.setHashSensitivity, m._getFluxes
    tname = 'getInterdiffusivity' if single else 'getEq'
    o_th = getattr(therm, tname)

    def w_ret(x, T):
        v = o_ret(x, T)
        cur = st['cur']
        if cur is not None:
            cur['nodes'].append({'x': [float(q) for q in np.atleast_1d(x)], 'T': float(T), 'hit': v is not None,
                                 'prov': prov.get(id(v)) if v is not None else None, 'thermo': None})
        return v

    def w_th(x, T, *a, **k):
        pt = ([float(q) for q in np.atleast_1d(x)], float(T))
        pending.append(pt)
        cur = st['cur']
        if cur is not None and cur['nodes']:
            cur['nodes'][-1]['thermo'] = pt
        return o_th(x, T, *a, **k)

    def w_add(x, T, v):
        keep.append(v)
        src = pending.pop() if pending else ([float(q) for q in np.atleast_1d(x)], float(T))
        del pending[:]
        prov[id(v)] = src
        cur = st['cur']
        if cur is not None and cur['nodes'] and not cur['nodes'][-1]['hit']:
            cur['nodes'][-1]['prov'] = src
        return o_add(x, T, v)

    def w_en(b):
        events.append(('E', bool(b))); return o_en(b)

    def w_cl():
        events.append(('C',)); return o_cl()

    def w_ss(s):
        events.append(('S', int(s))); return o_ss(s)

    def w_flux(t, x_curr):
        st['cur'] = cur = {'t': float(t), 'x': np.array(x_curr[0], dtype=float).copy(), 'nodes': []}
        try:
            fl = o_flux(t, x_curr)
        finally:
            st['cur'] = None
        cur['flux'] = np.array(fl, dtype=float).copy()
        cur['dt'] = float(m._currdt) if single else None
        cur['sens'] = int(round(math.log10(float(ht.hash_sensitivity))))
        cur['cache'] = bool(ht._cache)
        events.append(('F', cur))
        return fl

    ht.retrieveFromHashTable, ht.addToHashTable, ht.enableCaching, ht.clearCache, ht.setHashSensitivity, m._getFluxes = w_ret, w_add, w_en, w_cl, w_ss, w_flux
    setattr(therm, tname, w_th)

    class Obs:
        def updateCoupledModel(s, mm):
            st['steps'] += 1
            if st['steps'] >= case['n'] + 3:
                raise _Stop()

    m.addCouplingModel(Obs())
    err = None
    pub = None
    try:
        with quiet():
            if cache_off:
                m.useCache(False)
            stype = SolverType.RK4 if case['solver'] == 'rk4' else SolverType.EXPLICITEULER
            for ops, frac in case['solves']:
                if not cache_off:
                    drun_apply_ctl(m, ops)
                try:
                    m.solve(case['sim'] * frac, solverType=stype)
                except _Stop:
                    break
            pub = m.getFluxes()          # the public outputs at the final time
    except Exception as e:
        import traceback
        tb = traceback.format_exc()
        if not vlib.in_repo_traceback(tb):
            raise
        site = [l.strip() for l in tb.splitlines() if l.strip().startswith('File "%s' % vlib.REPO)]
        err = (type(e).__name__, repr(e)[:200], site[-1] if site else None)
    finally:
        delattr(therm, tname)
    return {'model': m, 'therm': therm, 'o_th': o_th, 'events': events, 'err': err, 'pub': pub, 'steps': st['steps']}


def drun_ref_flux(case, out, ev, Tref):
    """fluxes (and the stability time step of the single-phase model) from an evaluation of the thermodynamics at
    (x_i, schedule(z_i, t)) that does not go through the model's table; returns (fluxes, dt or None)"""
    m, therm = out['model'], out['therm']
    x = ev['x']
    N = m.N
    if case['model'] == 'single':
        with quiet():
            d = np.array([np.array(out['o_th'](x[:, i], Tref[i], phase=m.phases[0]), dtype=float) for i in range(N)])
        dmid = (d[1:] + d[:-1]) / 2
        dxdz = (x[:, 1:] - x[:, :-1]) / m.dz
        fl = np.zeros((x.shape[0], N + 1))
        if x.shape[0] == 1:
            fl[0, 1:-1] = -dmid * dxdz[0]
        else:
            for k in range(N - 1):
                fl[:, k + 1] = -dmid[k] @ dxdz[:, k]
        return fl, m.constraints.vonNeumannThreshold * m.dz ** 2 / np.amax(np.abs(dmid))
    # homogenization model: the same class, table off, the temperature given as the reference array
    ref = out.get('refmodel')
    if ref is None:
        with quiet():
            ref, _ = drun_build(dict(case, spec=('iso', 1000.0)), 'setT')
            ref.useCache(False)
            ref.setup()
        out['refmodel'] = ref
    arr = np.array(Tref, dtype=float)
    ref.temperatureParameters.setTemperatureFunction(lambda z, t: arr.copy())
    with quiet():
        fl = np.array(ref._getFluxes(ev['t'], [x.copy()]), dtype=float)
    return fl, None


def drun_tol(case, out, ev, Tref):
    """relative tolerance of the fluxes against the reference: solver tolerance when every value was computed for this very
    evaluation, else what the table's resolution 10^-s allows (Lipschitz bound of the duck-typed thermodynamics; 30 * 10^-s for
    the shipped database at s >= 4); None = no meaningful bound"""
    if not any(nd['hit'] for nd in ev['nodes']):
        return 1e-9 if case['therm'] == 'arrh' else 1e-8 if case['model'] == 'single' else 1e-6
    s = ev['sens']
    if case['model'] != 'single':
        return None                                   # differences of cached chemical potentials: resolution error is not small
    if case['therm'] == 'arrh':
        b = max(out['therm'].lipschitz(nd['x'], nd['T'], 10.0 ** -s, 10.0 ** -s) for nd in ev['nodes'])
        return 2 * b + 1e-9 if b < 0.05 else None
    return 30 * 10.0 ** -s + 1e-9 if s >= 4 else None


def drun_line(case, via, events, z):
    ops = drun_sched_ops(case, via)
    if ops is None:
        a = drun_spec_args(case['spec'])
        ops = [('C', ('o', 0)), ({'s': 'I', '2': 'A'}[a[0]], a)]
    evs = []
    for e in events:
        if e[0] == 'E':
            evs.append('E ' + vlib.enc_bool(e[1]))
        elif e[0] == 'C':
            evs.append('C')
        elif e[0] == 'S':
            evs.append('S %d' % e[1])
        else:
            evs.append('F %s %d %s' % (f2b(e[1]['t']), len(e[1]['nodes']), ' '.join(enc_list(nd['x']) for nd in e[1]['nodes'])))
    return 'df.run %s %d %s %s %d %s' % (KEY_VARIANT, len(ops), ' '.join(enc_op(o) for o in ops), enc_list([float(q) for q in z]), len(evs), ' '.join(evs))


def drun_parse(line, nflux):
    t = Toks(line)
    if not t.ok:
        return None
    outs = []
    for _ in range(nflux):
        k = t.tok()
        if k == 'E':
            outs.append(None); continue
        temps = t.flts()
        n = t.nat()
        outs.append((temps, [(t.flts(), t.flt()) for _ in range(n)]))
    return outs


def _near_bin_edge(v, s):
    y = abs(v) * 10.0 ** s
    return abs(y - round(y)) < 1e-6


def ramp_class(case):
    return case['kind'].split('-')[0]


def check_drun(ctx, res, case, oracle_only=False, via=None, cache_off=False, out=None):
    via = via or case['via']
    out = out or drun_trace(case, via, cache_off)
    m = out['model']
    mdl = case['model']
    desc = dict({k: case[k] for k in case}, via=via, cache_off=cache_off)
    fl_events = [e[1] for e in out['events'] if e[0] == 'F']
    res.case(('drun', mdl, case['therm'], case['kind'], via, cache_off, case['solver'], case['N'], round(case['sim'], 3), repr(case['solves'])),
             case['spec'][0] != 'iso' and len(fl_events) > 3)
    res.traces += 1
    res.count('diffusion-run:' + mdl + ':' + case['therm']); res.count('diffusion-schedule:' + case['kind']); res.count('diffusion-via:' + via)
    res.count('diffusion-cache:' + ('off' if cache_off else repr([o for ops, _ in case['solves'] for o in ops])))
    res.count('diffusion flux evaluations', len(fl_events))
    if out['err']:
        res.violate('raises:diffusion-run-%s:%s' % (mdl, out['err'][0]), 'the run raised %s at %s' % (out['err'][1], out['err'][2]), desc)
        return out
    if any(not np.all(np.isfinite(e['x'])) for e in fl_events):
        res.count('diffusion run left the finite numbers (unstable step of the model), not evaluated')
        out['err'] = ('diverged', '', None)
        return out
    z = [float(q) for q in m.z]
    a = drun_spec_args(case['spec'])
    scaleT = max(abs(q) for q in (a[2] if a[0] == '2' else [a[1]]))
    cls = ramp_class(case)
    nchk = 0
    bad = set()
    for j, ev in enumerate(fl_events):
        Tref = drun_ref_T(case, z, ev['t'])
        if Tref is None:
            res.near_tie_skipped += 1; continue
        if len(ev['nodes']) != m.N:
            res.violate('diffusion-nodes-not-all-evaluated-%s' % mdl, 'flux evaluation %d went through the table for %d of %d nodes' % (j, len(ev['nodes']), m.N), dict(desc, evaluation=j), len(ev['nodes']), m.N)
            break
        # ---- oracle 1: the temperature handed to the table / to the thermodynamics is the schedule at the time of the evaluation
        for i, nd in enumerate(ev['nodes']):
            if 'handed' not in bad and not close(nd['T'], Tref[i], 1e-12, scaleT):
                bad.add('handed')
                res.violate('diffusion-temperature-not-schedule-%s-%s' % (mdl, via), 'flux evaluation %d at t = %r: node %d is looked up at T = %r, the schedule gives %r' % (j, ev['t'], i, nd['T'], Tref[i]),
                            dict(desc, evaluation=j, node=i, t=ev['t']), nd['T'], Tref[i])
            if 'thermo' not in bad and nd['thermo'] is not None and not close(nd['thermo'][1], Tref[i], 1e-12, scaleT):
                bad.add('thermo')
                res.violate('diffusion-thermodynamics-temperature-not-schedule-%s-%s' % (mdl, via), 'flux evaluation %d at t = %r: the thermodynamics is called for node %d with T = %r, the schedule gives %r' % (j, ev['t'], i, nd['thermo'][1], Tref[i]),
                            dict(desc, evaluation=j, node=i, t=ev['t']), nd['thermo'][1], Tref[i])
            # ---- oracle 2: the value in use was computed at a temperature within the table's resolution of the schedule
            p = nd['prov']
            if p is None:
                if 'noprov' not in bad:
                    bad.add('noprov')
                    res.violate('diffusion-value-of-unknown-origin-%s' % mdl, 'flux evaluation %d: the value used for node %d was neither computed now nor stored by an earlier evaluation' % (j, i), dict(desc, evaluation=j, node=i))
                continue
            lim = 0.0 if not ev['cache'] else 10.0 ** -ev['sens'] * (1 + 1e-6)
            res.count('diffusion node values: ' + ('reused' if nd['hit'] else 'computed'))
            if 'stale' not in bad and abs(p[1] - Tref[i]) > lim + 1e-12 * scaleT:
                bad.add('stale')
                res.violate('diffusion-value-from-other-temperature-%s-%s-%s' % (mdl, cls, 'cache-off' if not ev['cache'] else 'within-one-kelvin' if abs(p[1] - Tref[i]) < 1 else 'beyond-one-kelvin'),
                            'flux evaluation %d at t = %r (schedule %r K at node %d): the %s in use was computed at %r K, %.3g K away (table resolution %g K)' % (
                                j, ev['t'], Tref[i], i, 'interdiffusivity' if mdl == 'single' else 'mobility / chemical potential record', p[1], abs(p[1] - Tref[i]), lim),
                            dict(desc, evaluation=j, node=i, t=ev['t']), [p[1], Tref[i]], '|T_computed - T_schedule(t)| < %g' % lim)
        # ---- oracle 3: fluxes / time step against the evaluation at (x, schedule) that does not go through the table
        every = case.get('check_every', 1)
        tol = drun_tol(case, out, ev, Tref)
        out.setdefault('tols', []).append(tol)               # every evaluation: the bound of the cached-vs-uncached comparison
        if j % every == 0 or j == len(fl_events) - 1:
            if tol is None:
                res.count('diffusion flux reference skipped (resolution bound not small)')
            else:
                fref, dtref = drun_ref_flux(case, out, ev, Tref)
                nchk += 1
                sc = float(np.amax(np.abs(fref)))
                if 'flux' not in bad and (fref.shape != ev['flux'].shape or not all(close(float(p), float(q), tol, sc) for p, q in zip(ev['flux'].ravel(), fref.ravel()))):
                    bad.add('flux')
                    k = int(np.argmax(np.abs(ev['flux'] - fref))) if fref.shape == ev['flux'].shape else 0
                    res.violate('diffusion-flux-not-at-schedule-temperature-%s-%s' % (mdl, cls),
                                'flux evaluation %d at t = %r: the fluxes are not the ones of the thermodynamics evaluated at the schedule temperature (largest relative deviation %.3g, tolerance %.3g)' % (
                                    j, ev['t'], float(np.amax(np.abs(ev['flux'] - fref))) / sc if sc and fref.shape == ev['flux'].shape else float('nan'), tol),
                                dict(desc, evaluation=j, t=ev['t']), float(ev['flux'].ravel()[k]), float(fref.ravel()[k]))
                if 'dt' not in bad and dtref is not None and not close(ev['dt'], dtref, tol, 0):
                    bad.add('dt')
                    res.violate('diffusion-timestep-not-at-schedule-temperature-%s-%s' % (mdl, cls),
                                'flux evaluation %d at t = %r: the stability time step is not 0.4 dz^2 / max D at the schedule temperature' % (j, ev['t']),
                                dict(desc, evaluation=j, t=ev['t']), ev['dt'], dtref)
    res.count('diffusion flux evaluations compared to the reference', nchk)
    # the public outputs at the final time (getFluxes): the last logged evaluation is that call
    if out['pub'] is not None and fl_events and not np.array_equal(np.array(out['pub'][0]), fl_events[-1]['flux'], equal_nan=True):
        res.disagree('getFluxes() returned something else than its _getFluxes call', desc, 'pub', 'logged')

    # ---------------- trace refinement against TempSched.runDiff
    if ctx.driver_ok and not oracle_only:
        ans = drun_parse(vlib.run_driver(PROP, [drun_line(case, via, out['events'], z)])[0], len(fl_events))
        exact = drun_sched_ops(case, via) is not None
        if ans is None:
            res.disagree('diffusion-run model error', desc, 'ok', 'err')
        else:
            for j, (ev, mo) in enumerate(zip(fl_events, ans)):
                if mo is None:
                    res.disagree('flux evaluation %d: the model says the schedule raises' % j, dict(desc, evaluation=j), 'ok', 'E'); break
                temps, vals = mo
                if len(temps) != len(ev['nodes']) or not all(close(nd['T'], tt, 1e-12 if exact else 1e-9, scaleT) for nd, tt in zip(ev['nodes'], temps)):
                    res.disagree('flux evaluation %d: temperatures handed over' % j, dict(desc, evaluation=j), [nd['T'] for nd in ev['nodes']], temps); break
                stop = False
                for i, (nd, (px, pT)) in enumerate(zip(ev['nodes'], vals)):
                    p = nd['prov']
                    if p is None:
                        continue
                    if list(p[0]) != list(px) or not close(p[1], pT, 1e-12 if exact else 1e-9, scaleT):
                        if any(nd['T'] != tt for nd, tt in zip(ev['nodes'], temps)) and any(_near_bin_edge(q, ev['sens']) for q in [nd['T'], p[1], pT]):
                            res.near_tie_skipped += 1
                        else:
                            res.disagree('flux evaluation %d node %d: (composition, temperature) the value in use was computed at' % (j, i), dict(desc, evaluation=j, node=i), [p[0], p[1]], [px, pT])
                        stop = True; break
                if stop:
                    break
    return out


def check_drun_group(ctx, res, case, oracle_only=False):
    """one schedule through every way of giving it, cache as the case says and off: every run checked on its own, then
    compared with each other (same profile whichever way the schedule was given; cached run = uncached run)"""
    vias = case.get('vias') or [case['via']]
    outs = {}
    for v in vias:
        ok, o = vlib.guarded(res, 'diffusion-run-' + case['model'], dict(case, via=v), check_drun, ctx, res, case, oracle_only, v, False)
        if ok and not o['err']:
            outs[v] = o
    unc = None
    if case.get('pair_uncached'):
        ok, o = vlib.guarded(res, 'diffusion-run-' + case['model'], dict(case, cache_off=True), check_drun, ctx, res, case, oracle_only, vias[0], True)
        if ok and not o['err']:
            unc = o
    if not outs:
        return
    desc = {k: case[k] for k in case}
    first = outs[vias[0]] if vias[0] in outs else list(outs.values())[0]
    m0 = first['model']
    fl0 = [e[1] for e in first['events'] if e[0] == 'F']
    if not fl0:
        return
    x0 = np.array(fl0[0]['x'])
    span = float(np.amax(np.abs(m0.x - x0))) if x0.shape == m0.x.shape else 0.0
    for v, o in outs.items():
        if o is first:
            continue
        mm = o['model']
        res.count('diffusion runs compared across ways of giving the schedule')
        exact = drun_sched_ops(case, v) is not None and drun_sched_ops(case, vias[0]) is not None
        if not close(mm.t, m0.t, 1e-9, 0) or mm.x.shape != m0.x.shape or not all(close(float(p), float(q), 1e-12 if exact else 1e-7, 1e-3 * span) for p, q in zip(mm.x.ravel(), m0.x.ravel())):
            res.violate('diffusion-run-differs-%s-vs-%s-%s' % (v, vias[0], case['model']), 'the same schedule given as %s and as %s: different composition profiles at the end of the run' % (v, vias[0]),
                        dict(desc, via=[v, vias[0]]), [float(mm.t), float(np.amax(np.abs(mm.x - m0.x))) if mm.x.shape == m0.x.shape else None], [float(m0.t), 0.0])
    if unc is not None:
        mu = unc['model']
        res.count('diffusion runs compared cached vs uncached')
        # every value of the cached run was computed within 10^-s of the point it is used at: the deviation of the fluxes is bounded
        # by what that resolution allows (the bounds of oracle 3), the deviation of the profiles by a multiple of it
        tols = first.get('tols') or [None]
        tol = 1.0 if any(q is None for q in tols) else 20 * max(tols)
        if close(mu.t, m0.t, 1e-9, 0) and tol < 0.02:
            if mu.x.shape != m0.x.shape or float(np.amax(np.abs(mu.x - m0.x))) > tol * span + 1e-13:
                res.violate('diffusion-run-cached-differs-from-uncached-%s-%s' % (case['model'], ramp_class(case)),
                            'the run with the table and the run without it end with different composition profiles (largest deviation %.3g of a total change of %.3g, allowed %.3g)' % (
                                float(np.amax(np.abs(mu.x - m0.x))), span, tol * span),
                            dict(desc, via=vias[0]), float(np.amax(np.abs(mu.x - m0.x))), tol * span)
        else:
            res.count('cached vs uncached: not comparable (different end time or coarse table)')


DRUN_KINDS = ['subkelvin-heat', 'subkelvin-cool', 'slow-heat', 'slow-cool', 'fast-heat', 'fast-cool', 'hold-ramp-hold', 'micro', 'gradient', 'iso']


def drun_probe_dt(case):
    """the model's own first time step at the starting temperature (table off): sets the time scale of the schedule"""
    with quiet():
        m, _ = drun_build(dict(case, spec=('iso', case['T0'])), 'setT')
        m.useCache(False)
        m.setup()
        _, dt = m.getFluxes()
    return float(dt)


def gen_drun_case(rng, model, therm, kind, N=None, n=None, solver=None):
    els = {'nicr': ['NI', 'CR'], 'nicral': ['NI', 'CR', 'AL'], 'arrh': rng.choice([['NI', 'CR'], ['NI', 'CR'], ['NI', 'CR', 'AL']])}[therm]
    L = rng.uniform(0.5e-3, 2e-3)
    N = N or rng.randint(6, 14)
    prof = []
    for k, el in enumerate(els[1:]):
        lo, hi = ((0.05, 0.35) if k == 0 else (0.02, 0.12))
        a_, b_ = rng.uniform(lo, hi), rng.uniform(lo, hi)
        while abs(a_ - b_) < 0.25 * (hi - lo):            # a flat profile has no time scale
            a_, b_ = rng.uniform(lo, hi), rng.uniform(lo, hi)
        prof.append(('linear', a_, b_) if rng.random() < 0.6 else ('step', a_, b_, rng.uniform(-0.5, 0.5) * L))
    real = therm != 'arrh'
    T0 = rng.uniform(1100, 1400) if real else rng.uniform(800, 1500)
    n = n or rng.randint(5, 11)
    case = {'family': 'drun', 'model': model, 'therm': therm, 'thseed': rng.randrange(10 ** 6), 'elements': els, 'zlim': [-L, L], 'N': N, 'profile': prof,
            'kind': kind, 'T0': T0, 'n': n, 'solver': solver or rng.choice(['rk4', 'euler']), 'via': None}
    sens = rng.choice([4, 4, 4, 4, 8, 6, 5, 3, 2])
    ctl0 = rng.choice([[], [], [], [('sens', sens)], [('sens', sens)], [('use', False)], [('use', False), ('use', True)], [('clear',)]])
    dt0 = drun_probe_dt(case)
    sim = n * dt0
    sg = -1 if kind.endswith('cool') else 1 if kind.endswith('heat') else rng.choice([1, -1])
    grad = 0.0
    if kind.startswith('subkelvin'):
        # the whole run inside one integer kelvin
        u = sorted([rng.uniform(0.02, 0.5), rng.uniform(0.5, 0.98)])
        Ta, Tb = (math.floor(T0) + u[0], math.floor(T0) + u[1]) if sg > 0 else (math.floor(T0) + u[1], math.floor(T0) + u[0])
    elif kind.startswith('slow'):
        Ta = T0; Tb = T0 + sg * rng.uniform(1.2, 4.0)
    elif kind.startswith('fast'):
        Ta = T0; Tb = T0 + sg * rng.uniform(30, 120)
    elif kind == 'micro':
        s_eff = sens if ctl0 == [('sens', sens)] else 4
        Ta = T0; Tb = T0 + sg * rng.uniform(0.5, 4.0) * 10.0 ** -s_eff
    elif kind == 'gradient':
        Ta = T0; Tb = T0 + sg * rng.choice([rng.uniform(0.05, 0.9), rng.uniform(2, 40)])
        grad = rng.choice([1, -1]) * rng.choice([rng.uniform(0.05, 0.8), rng.uniform(2, 60)]) / (2 * L)
    else:
        Ta = Tb = T0
    if kind == 'iso':
        spec = ('iso', T0)
    elif kind == 'hold-ramp-hold':
        f1, f2 = sorted([rng.uniform(0.15, 0.45), rng.uniform(0.55, 0.85)])
        dT = sg * rng.choice([rng.uniform(0.05, 0.9), rng.uniform(2, 40)])
        spec = ('two', [0.0, f1 * sim / 3600, f2 * sim / 3600, sim / 3600], [T0, T0, T0 + dT, T0 + dT])
    elif kind == 'gradient' or rng.random() < 0.4:
        spec = ('fn', Ta, (Tb - Ta) / sim, grad)
    else:
        end = rng.choice([1.0, 1.0, 0.6, 1.7])             # the ramp ends with, before or after the run
        spec = ('two', [0.0, end * sim / 3600], [Ta, Tb])
    case['spec'] = spec
    case['sim'] = sim
    vias = list(VIAS[spec[0]])
    rng.shuffle(vias)
    case['via'] = vias[0]
    case['vias'] = vias
    split = rng.random() < 0.35
    ctl1 = rng.choice([[('clear',)], [('use', False)], [('sens', rng.choice([3, 5, 8]))], []])
    case['solves'] = [(ctl0, 0.5), (ctl1, 0.5)] if split else [(ctl0, 1.0)]
    case['pair_uncached'] = True
    return case


def corr_drun(ctx, res, oracle_only=False, scale=1.0):
    rng = ctx.rng
    cases = []
    # cheap duck-typed thermodynamics: every kind of schedule for both models, every way of giving it
    reps = max(1, int(ctx.n(1, 12) * scale))
    def gen(*a, **k):
        # the generator asks the real model for its first time step: a crash there is a finding, not a harness error
        ok, c = vlib.guarded(res, 'diffusion-run-setup', {'family': 'drun-gen', 'args': list(a), 'kw': k}, gen_drun_case, rng, *a, **k)
        if ok:
            cases.append(c)
        return c if ok else None

    for r in range(reps):
        for kind in DRUN_KINDS:
            gen('single', 'arrh', kind)
            if r % 2 == 0 or ctx.thorough:
                gen('homog', 'arrh', kind, N=rng.randint(5, 9), n=rng.randint(4, 7))
    # shipped database (pycalphad): one short run in the quick tier, grids in the thorough tier
    if not ctx.thorough:
        k = rng.choice(['subkelvin-heat', 'subkelvin-cool'])
        c = gen('single', 'nicr', k, N=7, n=5, solver='euler')
        if c:
            c['vias'] = [c['via']]; c['pair_uncached'] = False
        c = gen('homog', 'nicr', rng.choice(['subkelvin-heat', 'subkelvin-cool', 'hold-ramp-hold']), N=6, n=3, solver='euler')
        if c:
            c['vias'] = [c['via']]; c['pair_uncached'] = False
    else:
        for kind in 2 * ['subkelvin-heat', 'subkelvin-cool', rng.choice(['slow-heat', 'slow-cool']), rng.choice(['fast-heat', 'fast-cool']), 'hold-ramp-hold', 'micro', 'gradient']:
            for model, therm in (('single', 'nicr'), ('single', 'nicral'), ('homog', 'nicr'), ('homog', 'nicral')):
                c = gen(model, therm, kind, N=rng.randint(6, 8), n=rng.randint(4, 6))
                if c:
                    c['vias'] = c['vias'][:rng.choice([1, 2])]
                    c['check_every'] = 2
    for c in cases:
        check_drun_group(ctx, res, c, oracle_only)
    if cases:
        res.sample({'diffusion run': {k: cases[0][k] for k in ('model', 'therm', 'kind', 'spec', 'solves', 'N', 'n')}})


KINDS = ['slow-heat', 'slow-cool', 'fast-heat', 'fast-cool', 'hold-ramp-hold', 'jump', 'zigzag', 'wiggle', 'iso']


def _composed_plan(ctx):
    return [('alzr-noniso', ctx.n(22, 70)), ('alzr-slow-ramp', ctx.n(22, 70)), ('alzr-noniso@rk4', ctx.n(12, 40)), ('alzr-noniso-nocheckT', ctx.n(22, 70))]


def corr(ctx, oracle_only=False, scale=1.0):
    res = Result()
    res.rule = ('(a) random constructor/setter sequences for both TemperatureParameters classes (number, break points incl. single/duplicate/unsorted<=4/malformed, callable, 0 or 3 arguments) evaluated at 4-9 times incl. exactly on and outside break points; '
                '(b) real binary Al-Zr PrecipitateModel runs: schedule kind x solver x step mode x threshold x PBM size x constructor|setter x 1-2 solve calls, traced call by call; (b2) staged runs: solve, setTemperature(another constant | break points | function) WITHOUT reset, solve again - every row of the second solve carries the schedule in force (own generator, first two cases constant->constant and break points->constant); '
                '(c) real SinglePhaseModel / HomogenizationModel runs: schedule kind (inside one kelvin, slow, fast, hold-ramp-hold, a few table bins, gradient along z, constant) x way of giving it (setter array / function / constructor object / constructor function) x table (default, other precision, off, cleared, switched between solve calls) x RK4|Euler x binary|ternary, duck-typed Arrhenius thermodynamics and NICRAL_TDB, every flux evaluation logged; '
                'non-trivial = non-isothermal schedule (a) / non-isothermal run with > 5 recorded steps (b) / non-isothermal run with > 3 flux evaluations (c); distinct = (family, op kinds | run parameters)')
    res.monitored = list(MONITORED)
    corr_sched(ctx, res, int(ctx.n(240, 12000) * scale), oracle_only)
    corr_world(ctx, res, int(ctx.n(200, 8000) * scale), oracle_only)
    # ---- real runs
    kinds = list(KINDS)
    reps = ctx.n(2, 40)
    cases = []
    for r in range(reps):
        for k in kinds:
            cases.append(gen_run_case(ctx.rng, k, ctx.thorough))
    # make sure the interesting corners are always present
    forced = [dict(gen_run_case(ctx.rng, 'slow-heat'), solver='euler', mode='fixed', maxTC=1.0, pbm='std', preload=False, poke=False),
              dict(gen_run_case(ctx.rng, 'slow-cool'), solver='rk4', mode='fixed', pbm='small', preload=True, poke=True),
              dict(gen_run_case(ctx.rng, 'hold-ramp-hold'), solver='euler', mode='fixed', pbm='small', preload=True, poke=True, solves=2),
              dict(gen_run_case(ctx.rng, 'fast-heat'), solver='euler', mode='free', pbm='std', preload=False, poke=False)]
    cases = forced + cases
    for c in cases:
        vlib.guarded(res, 'run-' + c['kind'], c, check_run, ctx, res, c, oracle_only)
    # one run with the (slow, ~0.8 s per build) default interfacial-composition method: a slow ramp with a handful of rebuilds
    nq = ctx.n(16, 40)
    sg = ctx.rng.choice([1, -1])
    T0 = ctx.rng.uniform(700, 730)
    eq = {'family': 'run', 'kind': 'slow-heat' if sg > 0 else 'slow-cool', 'spec': ('two', [0.0, nq * 0.1 / 3600], [T0, T0 + sg * 0.3 * nq]),
          'via': 'setter', 'solver': 'euler', 'mode': 'fixed', 'n': nq, 'sim': nq * 0.1, 'maxTC': 1.0, 'method': 'equilibrium',
          'pbm': 'std', 'preload': False, 'solves': 1, 'poke': False}
    extra = [eq]
    if ctx.thorough:
        extra.append(dict(gen_run_case(ctx.rng, 'jump'), method='equilibrium', pbm='std', preload=False, poke=False))
        extra.append(dict(eq, kind='slow-cool' if sg > 0 else 'slow-heat', spec=('two', eq['spec'][1], [T0, T0 - sg * 0.3 * nq]), solver='rk4', via='ctor'))
    for c in extra:
        vlib.guarded(res, 'run-' + c['kind'], c, check_run, ctx, res, c, oracle_only)
    # ---- paired runs
    for k in (['slow-heat', 'hold-ramp-hold', 'zigzag'] if not ctx.thorough else ['slow-heat', 'slow-cool', 'fast-cool', 'hold-ramp-hold', 'jump', 'zigzag', 'iso']):
        c = gen_run_case(ctx.rng, k)
        c['n'] = min(c['n'], 40)
        if c['spec'][0] == 'two' and k != 'slow-cool':
            c['container'] = 'f64'        # one pair of float64 ndarrays shared by the constructor model and the setter model
        vlib.guarded(res, 'paired-run-' + k, {x: c[x] for x in c if x != 'via'}, check_pair, ctx, res, c)
    res.sample({'run': {k: cases[0][k] for k in ('kind', 'spec', 'solver', 'mode', 'maxTC', 'n')}})
    # ---- staged runs (own generator: the stream of the cases above is what it was)
    srng = random.Random('%s/staged' % ctx.seed)
    for j in range(int(ctx.n(4, 40) * scale)):
        c = gen_staged_case(srng, {0: ('iso', 'iso'), 1: ('two', 'iso')}.get(j))
        vlib.guarded(res, 'staged-run', c, check_staged, ctx, res, c)
    # ---- diffusion runs under a schedule
    corr_drun(ctx, res, oracle_only, scale)
    # the COMPOSED step (KWNFull.eulerStep, theorems eulerStep_fresh / runSteps_fresh): non-isothermal real runs replayed step by step
    # with the captured table rebuilds; lookup temperature, tables and the recorded temperature must be the implementation's
    # in the oracle-only pass (search, replay) the scenarios run with their direct oracles, without the model
    kwnfull.refine_scenarios(ctx, res, PROP, _composed_plan(ctx), oracles=('lookup',), driver=not oracle_only)
    vlib.finish_guard(res)      # harness errors are re-raised only when the run found no violation
    return res


# ---- staged runs: the schedule is re-specified between two solve calls of one model (no reset) - every row of the second
# solve carries the schedule IN FORCE at its time, also when both specifications are constants (round 7)
def gen_staged_case(rng, force=None):
    T1 = rng.uniform(690, 740)
    k1 = rng.choice(['iso', 'iso', 'two'])
    sim1, sim2 = rng.choice([0.3, 0.6]), rng.choice([0.3, 0.6])
    spec1 = ('iso', T1) if k1 == 'iso' else ('two', [0.0, sim1 / 3600], [T1, T1 + rng.uniform(-6, 6)])
    k2 = rng.choice(['iso', 'iso', 'iso', 'two', 'fn'])
    if force:
        k1, k2 = force
        spec1 = ('iso', T1) if k1 == 'iso' else ('two', [0.0, sim1 / 3600], [T1, T1 + 4.0])
    T2 = T1 + rng.choice([-1, 1]) * rng.uniform(3, 15)
    if k2 == 'iso':
        spec2 = ('iso', T2)
    elif k2 == 'two':
        spec2 = ('two', [sim1 / 3600, (sim1 + sim2) / 3600], [T2, T2 + rng.uniform(-6, 6)])
    else:
        spec2 = ('fn', T2, rng.uniform(-8, 8), sim1)
    return {'family': 'staged', 'spec': spec1, 'spec2': spec2, 'via': rng.choice(['ctor', 'setter']), 'solver': rng.choice(['euler', 'euler', 'rk4']),
            'sim': sim1, 'sim2': sim2, 'n': rng.randint(8, 16), 'maxTC': 1.0, 'method': 'curvature', 'pbm': 'small', 'container': 'list'}


def check_staged(ctx, res, case):
    from kawin.solver import SolverType
    desc = {k: case[k] for k in case}
    with quiet():
        m = make_model(case)
        m.therm.clearCache()
        stype = SolverType.RK4 if case['solver'] == 'rk4' else SolverType.EXPLICITEULER
        nper = case['n']
        m.solve(case['sim'], solverType=stype, minDtFrac=1.0 / nper, maxDtFrac=1.0 / nper)
        n1 = int(m.pData.n)
        m.setTemperature(*py_args(spec_args(case['spec2'])))
        m.solve(case['sim2'], solverType=stype, minDtFrac=1.0 / nper, maxDtFrac=1.0 / nper)
    T = np.asarray(m.pData.temperature, dtype=float)[:m.pData.n + 1]; tm = np.asarray(m.pData.time, dtype=float)[:m.pData.n + 1]
    a1, a2 = spec_args(case['spec']), spec_args(case['spec2'])
    res.case(('staged', case['spec'][0], case['spec2'][0], case['solver'], case['via']), len(tm) - 1 - n1 >= 3)
    res.count('staged-run:%s->%s' % (case['spec'][0], case['spec2'][0])); res.count('staged-run rows of the second solve', len(tm) - 1 - n1)
    for i in range(len(tm)):
        want = ref_sched(a1 if i <= n1 else a2, float(tm[i]))
        if want == 'tie' or want is None:
            continue
        if not close(T[i], want, 1e-9, 1000.0):
            res.violate('recorded-temperature-after-respecification' if i > n1 else 'recorded-temperature-step',
                        'pData.temperature[%d] is not the schedule in force at pData.time[%d] (%s)' % (
                            i, i, 'second solve, after setTemperature between the solve calls' if i > n1 else 'first solve'),
                        dict(desc, index=i, time=float(tm[i]), rows_of_first_solve=n1), float(T[i]), want)
            break
    iso2 = case['spec2'][0] == 'iso'
    if bool(m.temperatureParameters._isIsothermal) != iso2:
        res.violate('incubation-treatment-after-respecification', 'after setTemperature(%s) between two solve calls _isIsothermal = %s' % (
            case['spec2'][0], m.temperatureParameters._isIsothermal), desc, bool(m.temperatureParameters._isIsothermal), iso2)


def search(ctx, broken):
    """a proof / build / correspondence broke: look for a failing input with the oracles alone, larger sample"""
    return corr(ctx, oracle_only=True, scale=3.0)


def replay(ctx, entry):
    c = entry['violation']['case']
    if 'family' not in c and isinstance(c.get('case'), dict):
        c = c['case']                      # stored by vlib.guarded: {'case': …, 'raised_at': …}
    fam = c.get('family')
    if fam is None and 'scenario' in c:
        return kwnfull.replay_scenario(ctx, entry, PROP, _composed_plan(ctx), ('lookup',), Result)
    res = Result()
    ctx.driver_ok = False
    ok, _ = vlib.guarded(res, 'replay', c, _replay_case, ctx, res, c, fam)
    for v in res.violations:
        print('  ', v['key'], v['what'], v['observed'], v['required'])
    vlib.finish_guard(res)
    return (not res.violations) if fam in ('sched-prec', 'sched-diff', 'sched-world', 'run', 'drun', 'staged') else None


def _replay_case(ctx, res, c, fam):
    if fam in ('sched-prec', 'sched-diff'):
        def tup(a):
            return tuple(tup(x) if isinstance(x, list) and x and isinstance(x[0], str) else x for x in a)
        case = {'family': fam, 'ops': [(o[0], tup(o[1])) for o in c['ops']], 'times': c['times'], 'z': c.get('z')}
        corr_sched(ctx, res, 1, oracle_only=True, cases=[case])
    elif fam == 'sched-world':
        case = {'family': fam, 'diffusion': c['diffusion'], 'store': [(a[0], a[1]) for a in c['store']], 'ops': [tuple(o) for o in c['ops']],
                'times': c['times'], 'z': c.get('z')}
        corr_world(ctx, res, 1, oracle_only=True, cases=[case])
    elif fam == 'drun':
        case = {k: v for k, v in c.items() if k not in ('evaluation', 'node', 't', 'cache_off')}
        case['spec'] = tuple(case['spec'])
        case['profile'] = [tuple(p_) for p_ in case['profile']]
        case['solves'] = [([tuple(o) for o in ops], fr) for ops, fr in case['solves']]
        vias = c['via'] if isinstance(c.get('via'), list) else [c.get('via') or case['vias'][0]]
        case['vias'] = vias; case['via'] = vias[0]
        if c.get('cache_off'):
            check_drun(ctx, res, case, True, vias[0], True)
        else:
            check_drun_group(ctx, res, case, oracle_only=True)
    elif fam == 'staged':
        case = {k: v for k, v in c.items() if k not in ('index', 'time', 'rows_of_first_solve')}
        case['spec'] = tuple(case['spec']); case['spec2'] = tuple(case['spec2'])
        check_staged(ctx, res, case)
    elif fam == 'run':
        case = {k: v for k, v in c.items() if k not in ('call', 'index', 'time', 'attribute', 'step')}
        case['spec'] = tuple(case['spec'])
        if 'via' in case:
            check_run(ctx, res, case, oracle_only=True)
        else:
            check_pair(ctx, res, case)
    return None
